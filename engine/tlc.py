"""Run SANY / TLC and parse what they print."""
import glob
import os
import re
import shutil
import subprocess
import time

from . import tla

JAR_CP = '/opt/veriftools/tla/tla2tools.jar:/opt/veriftools/tla/CommunityModules-deps.jar'
SPEC_DIR = os.path.join(os.path.dirname(os.path.dirname(os.path.abspath(__file__))), 'spec')


class TLCResult(object):
    def __init__(self):
        self.ok = False            # finished without error of any kind
        self.violated = None       # name of violated invariant / property (str) or 'deadlock' / 'assert'
        self.trace = []            # [(action, state)]
        self.generated = 0
        self.distinct = 0
        self.depth = 0
        self.out = ''
        self.rc = None
        self.wall = 0.0
        self.coverage = {}         # action name -> (distinct, total)
        self.error = None          # machinery error text
        self.prints = []           # values printed by PrintT

    def __repr__(self):
        return '<TLCResult ok=%s violated=%s gen=%d distinct=%d depth=%d wall=%.1fs err=%s>' % (
            self.ok, self.violated, self.generated, self.distinct, self.depth, self.wall, self.error)


class MachineryError(Exception):
    pass


def java_cmd(extra_jvm=()):
    return ['java', '-XX:+UseParallelGC'] + list(extra_jvm) + ['-cp', JAR_CP]


def sany(path):
    p = subprocess.run(java_cmd() + ['tla2sany.SANY', os.path.basename(path)], cwd=os.path.dirname(path),
                       stdout=subprocess.PIPE, stderr=subprocess.STDOUT, text=True)
    if p.returncode != 0 or 'Semantic errors' in p.stdout or 'Parse Error' in p.stdout or 'Fatal error' in p.stdout:
        raise MachineryError('SANY rejected %s:\n%s' % (path, p.stdout[-3000:]))
    return True


_RUNS = 0
_COV_ACT = re.compile(r'^<(\w+) line \d+, col \d+ to line \d+, col \d+ of module (\w+)(?: \([\d ]+\))?>: (\d+):(\d+)')


def run(module, cfg, workdir, workers=16, simulate=None, depth=None, seed=None, coverage=True,
        dump=None, timeout=3600, extra=(), env=None, deadlock=True, dfs=False, cont=False,
        spec_dirs=None, heap=None):
    """Run TLC on spec module `module` (path to .tla) with config `cfg` (path to .cfg).

    The module and the modules it extends are copied to `workdir` so that TLC's scratch output
    never lands in the spec tree.
    """
    os.makedirs(workdir, exist_ok=True)
    srcdirs = [os.path.dirname(os.path.abspath(module))] + list(spec_dirs or []) + [SPEC_DIR, os.path.join(SPEC_DIR, 'mc'),
                                                                           os.path.join(SPEC_DIR, 'trace')]
    seen = set()
    copied = set()
    for d in srcdirs:
        if d in seen or not os.path.isdir(d):
            continue
        seen.add(d)
        for f in glob.glob(os.path.join(d, '*.tla')):
            dst = os.path.join(workdir, os.path.basename(f))
            if os.path.abspath(f) != os.path.abspath(dst) and os.path.basename(f) not in copied:
                shutil.copy(f, dst)
                copied.add(os.path.basename(f))
    modname = os.path.basename(module)
    if os.path.abspath(module) != os.path.abspath(os.path.join(workdir, modname)):
        shutil.copy(module, os.path.join(workdir, modname))
    cfgname = os.path.basename(cfg)
    if os.path.abspath(cfg) != os.path.abspath(os.path.join(workdir, cfgname)):
        shutil.copy(cfg, os.path.join(workdir, cfgname))
    jvm = []
    if dfs:
        jvm.append('-Dtlc2.tool.queue.IStateQueue=StateDeque')
    if heap:
        jvm.append('-Xmx%s' % heap)
    global _RUNS
    _RUNS += 1
    metadir = os.path.join(workdir, 'meta%d' % _RUNS)
    cmd = java_cmd(jvm) + ['tlc2.TLC', '-workers', str(workers), '-metadir', metadir,
                           '-noGenerateSpecTE', '-config', cfgname]
    if coverage and not simulate:
        cmd += ['-coverage', '1']
    if not deadlock:
        cmd += ['-deadlock']
    if cont:
        cmd += ['-continue']
    if simulate:
        cmd += ['-simulate', simulate]
    if depth:
        cmd += ['-depth', str(depth)]
    if seed is not None:
        cmd += ['-seed', str(seed)]
    if dump:
        cmd += ['-dump', 'dot,actionlabels', dump]
    cmd += list(extra) + [modname]
    e = dict(os.environ)
    if env:
        e.update(env)
    t0 = time.time()
    r = TLCResult()
    try:
        p = subprocess.run(cmd, cwd=workdir, stdout=subprocess.PIPE, stderr=subprocess.STDOUT, text=True,
                           timeout=timeout, env=e)
        r.out = p.stdout
        r.rc = p.returncode
    except subprocess.TimeoutExpired as ex:
        r.out = (ex.stdout or b'').decode('utf8', 'replace') if isinstance(ex.stdout, bytes) else (ex.stdout or '')
        r.error = 'timeout after %ss' % timeout
        subprocess.run(['pkill', '-f', 'tlc2[.]TLC.*' + re.escape(workdir)], check=False)
    r.wall = time.time() - t0
    shutil.rmtree(metadir, ignore_errors=True)
    _parse(r)
    return r


def _parse(r):
    out = r.out
    m = re.search(r'(\d+) states generated, (\d+) distinct states found', out)
    if m:
        r.generated, r.distinct = int(m.group(1)), int(m.group(2))
    m = re.search(r'The depth of the complete state graph search is (\d+)', out)
    if m:
        r.depth = int(m.group(1))
    for line in out.splitlines():
        mm = _COV_ACT.match(line)
        if mm:
            r.coverage[mm.group(1)] = (int(mm.group(3)), int(mm.group(4)))
    m = re.search(r'Error: Invariant (\S+) is violated', out)
    if m:
        r.violated = m.group(1)
    elif re.search(r'Error: Action property (\S+)', out):
        r.violated = re.search(r'Error: Action property (\S+)', out).group(1)
    elif 'Temporal properties were violated' in out:
        r.violated = 'temporal'
    elif 'Deadlock reached' in out:
        r.violated = 'deadlock'
    elif re.search(r'Error: Postcondition \S+ .*is false', out):
        r.violated = 'postcondition'
    elif 'Error: Evaluating assumption' in out or 'Assumption' in out and 'is false' in out:
        r.violated = 'assumption'
    elif 'The first argument of Assert evaluated to FALSE' in out:
        r.violated = 'assert'
    if r.violated:
        try:
            r.trace = tla.parse_error_trace(out)
        except Exception as ex:  # pragma: no cover
            r.error = 'cannot parse error trace: %s' % ex
    if r.error is None:
        if r.violated is None and ('Error:' in out or (r.rc not in (0, None))):
            r.error = 'TLC error: ' + '\n'.join(l for l in out.splitlines() if 'rror' in l)[:2000]
        elif r.violated is None and 'Model checking completed. No error has been found' not in out \
                and 'Finished in' not in out and 'Progress: ' not in out:
            r.error = 'TLC did not finish: ' + out[-1500:]
    r.ok = r.error is None and r.violated is None
    return r


def sim_traces(prefix):
    """Yield parsed behaviours from files written by -simulate file=<prefix>."""
    files = sorted(glob.glob(prefix + '*'), key=lambda p: [int(x) for x in re.findall(r'\d+', os.path.basename(p))])
    for f in files:
        if os.path.isfile(f):
            yield f, tla.parse_sim_file(f)


def parse_dot(path):
    """Parse `-dump dot,actionlabels` output: returns (states: id -> dict, edges: [(src, label, dst)], initial ids)."""
    states, edges, init = {}, [], []
    node = re.compile(r'^(-?\d+) \[label="(.*?)"(,style = filled)?[,\]]')
    edge = re.compile(r'^(-?\d+) -> (-?\d+) \[label="([^"]*)"')
    with open(path) as f:
        for line in f:
            m = edge.match(line)
            if m:
                edges.append((m.group(1), m.group(3), m.group(2)))
                continue
            m = node.match(line)
            if m:
                txt = m.group(2).replace('\\n', '\n').replace('\\\\', '\\').replace('\\"', '"')
                states[m.group(1)] = tla.parse_state(txt)
                if m.group(3):
                    init.append(m.group(1))
    return states, edges, init


def find_prints(out, tag):
    """Values printed with PrintT(<<"tag", v...>>): bracket-matched, parsed. Returns list of tuples."""
    res = []
    key = re.compile(r'<<\s*"%s"' % re.escape(tag))
    pos = 0
    while True:
        m = key.search(out, pos)
        if not m:
            break
        i = m.start()
        depth = 0
        j = i
        n = len(out)
        while j < n:
            if out.startswith('<<', j):
                depth += 1
                j += 2
                continue
            if out.startswith('>>', j):
                depth -= 1
                j += 2
                if depth == 0:
                    break
                continue
            j += 1
        try:
            res.append(tla.parse_value(out[i:j]))
        except ValueError:
            pass
        pos = j
    return res


def write_mc(workdir, base, name, consts, spec='Spec', invariants=(), properties=(), post=None, constraint=None,
             view=None, extra_defs='', extends=(), deadlock=False, action_constraint=None):
    """Write MC module `name`.tla (EXTENDS base) + `name`.cfg in workdir. consts: {CONST: python value or raw str}.

    Values that are python objects are rendered with tla.to_tla; strings starting with '=' are raw TLA text.
    Returns (module path, cfg path).
    """
    os.makedirs(workdir, exist_ok=True)
    lines = ['---- MODULE %s ----' % name, 'EXTENDS %s' % ', '.join([base] + list(extends))]
    cfg = ['SPECIFICATION %s' % spec, 'CONSTANTS']
    for k, v in consts.items():
        if isinstance(v, str) and v.startswith('='):
            txt = v[1:]
        else:
            txt = tla.to_tla(v)
        lines.append('MC_%s == %s' % (k, txt))
        cfg.append('  %s <- MC_%s' % (k, k))
    if extra_defs:
        lines.append(extra_defs)
    lines.append('====')
    for i in invariants:
        cfg.append('INVARIANT %s' % i)
    for p in properties:
        cfg.append('PROPERTY %s' % p)
    if constraint:
        cfg.append('CONSTRAINT %s' % constraint)
    if action_constraint:
        cfg.append('ACTION_CONSTRAINT %s' % action_constraint)
    if view:
        cfg.append('VIEW %s' % view)
    if post:
        cfg.append('POSTCONDITION %s' % post)
    cfg.append('CHECK_DEADLOCK %s' % ('TRUE' if deadlock else 'FALSE'))
    mp = os.path.join(workdir, name + '.tla')
    cp = os.path.join(workdir, name + '.cfg')
    with open(mp, 'w') as f:
        f.write('\n'.join(lines) + '\n')
    with open(cp, 'w') as f:
        f.write('\n'.join(cfg) + '\n')
    return mp, cp
