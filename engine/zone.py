"""The time zone of the server process is part of its environment: run a block under a POSIX TZ string (no time zone
database needed) and put the old zone back afterwards."""
import contextlib
import os
import time

WEST = 'EST5'            # five hours behind Greenwich, no daylight saving time
EAST = 'JST-9'           # nine hours ahead
DST = 'CET-1CEST,M3.5.0,M10.5.0/3'


@contextlib.contextmanager
def zone(tz):
    old = os.environ.get('TZ')
    os.environ['TZ'] = tz
    time.tzset()
    try:
        yield
    finally:
        if old is None:
            os.environ.pop('TZ', None)
        else:
            os.environ['TZ'] = old
        time.tzset()
