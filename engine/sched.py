"""Deterministic "baton" scheduler for real threads.

Each contender is a real thread; it runs only while it holds the baton and gives it back at every
yield point (`point(op)`), *before* executing the operation named there.  The controller therefore
always knows the next operation of every contender (like the enabled actions of a model) and chooses
who moves: `step(name)` lets one contender execute its pending operation and run up to its next yield
point.  Event order is the order in which the baton was handed out - never wall-clock time.
"""
import threading
import traceback


class Deadlock(Exception):
    pass


class _T(object):
    def __init__(self, name, fn):
        self.name = name
        self.fn = fn
        self.go = threading.Semaphore(0)
        self.pending = ('start', {})
        self.finished = False
        self.exc = None
        self.result = None
        self.thread = None


class Baton(object):
    def __init__(self, step_timeout=20.0):
        self.ts = {}
        self.back = threading.Semaphore(0)
        self.events = []
        self.step_timeout = step_timeout
        self._byid = {}
        self.active = None

    # ---- controller side -----------------------------------------------------------------
    def spawn(self, name, fn):
        t = _T(name, fn)
        self.ts[name] = t

        def body():
            t.go.acquire()
            try:
                t.result = fn()
            except BaseException as ex:  # noqa
                t.exc = ex
                t.tb = traceback.format_exc()
            t.finished = True
            t.pending = None
            self.active = None
            self.back.release()
        t.thread = threading.Thread(target=body, name='baton-' + name, daemon=True)
        t.thread.start()
        self._byid[t.thread.ident] = t
        return t

    def pending(self, name):
        t = self.ts[name]
        return None if t.finished else t.pending

    def runnable(self):
        return [n for n, t in self.ts.items() if not t.finished]

    def step(self, name):
        """Let `name` execute its pending operation and run to its next yield point. Returns the events
        emitted during the step."""
        t = self.ts[name]
        if t.finished:
            raise RuntimeError('%s already finished' % name)
        n0 = len(self.events)
        self.active = name
        t.go.release()
        if not self.back.acquire(timeout=self.step_timeout):
            raise Deadlock('contender %s did not reach a yield point within %ss (pending was %r)' % (
                name, self.step_timeout, t.pending))
        return self.events[n0:]

    def finish_all(self, order=None, limit=100000):
        """Run every contender to completion (round robin)."""
        n = 0
        while self.runnable():
            for name in list(self.runnable()):
                self.step(name)
                n += 1
                if n > limit:
                    raise Deadlock('finish_all: step limit')

    # ---- contender side ------------------------------------------------------------------
    def me(self):
        return self._byid.get(threading.get_ident())

    def current(self):
        t = self.me()
        return t.name if t else None

    def point(self, op, **info):
        """Yield point: announce the next operation and wait for the baton. No-op outside contenders."""
        t = self.me()
        if t is None or t.finished:
            return
        t.pending = (op, info)
        self.active = None
        self.back.release()
        t.go.acquire()
        self.active = t.name

    def emit(self, ev, **fields):
        t = self.me()
        rec = {'c': t.name if t else None, 'ev': ev}
        rec.update(fields)
        self.events.append(rec)
        return rec
