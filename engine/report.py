"""Check context: violations vs. known findings, replay files, evidence files, exit codes."""
import hashlib
import json
import os
import random
import shutil
import sys
import time

ROOT = os.path.dirname(os.path.dirname(os.path.abspath(__file__)))
REPO = os.environ.get('VERIF_REPO', '/repo')


def _load_known():
    p = os.path.join(ROOT, 'known_findings.json')
    if not os.path.exists(p):
        return []
    with open(p) as f:
        return json.load(f).get('entries', [])


class Ctx(object):
    def __init__(self, pid, tier='quick', seed=0):
        self.pid = pid
        self.tier = tier
        self.seed = seed
        self.rng = random.Random('%s-%s' % (pid, seed))
        self.t0 = time.time()
        self.workdir = os.path.join(ROOT, '.work', '%s-%d' % (pid, os.getpid()))
        shutil.rmtree(self.workdir, ignore_errors=True)
        os.makedirs(self.workdir)
        self.known = [k for k in _load_known() if k.get('property') == pid and k.get('status') == 'finding']
        self.violations = []      # unlisted
        self.known_hits = {}      # index -> count
        self.cov = {'states': 0, 'transitions': 0, 'traces_validated_against_impl': 0, 'evaluations': 0,
                    'samples': [], 'tlc_runs': [], 'replayed_behaviours': 0, 'replayed_steps': 0}
        self._distinct = set()
        self.assumptions = []
        self.notes = []
        self.quiet = False

    # ---- bookkeeping -------------------------------------------------------------------
    def sub(self, name):
        d = os.path.join(self.workdir, name)
        os.makedirs(d, exist_ok=True)
        return d

    def log(self, *a):
        if not self.quiet:
            print('[%s %6.1fs]' % (self.pid, time.time() - self.t0), *a, flush=True)

    def add_tlc(self, name, r, exhaustive=True):
        """Record a TLC run in the coverage numbers."""
        self.cov['states'] += r.distinct
        self.cov['transitions'] += r.generated
        self.cov['tlc_runs'].append({'name': name, 'distinct_states': r.distinct, 'states_generated': r.generated,
                                     'depth': r.depth, 'wall_s': round(r.wall, 2), 'exhaustive': exhaustive,
                                     'actions_covered': {k: v[0] for k, v in sorted(r.coverage.items())}})

    def sample(self, s, limit=6):
        if len(self.cov['samples']) < limit:
            self.cov['samples'].append(s)

    def count(self, key=None, n=1):
        """Count one evaluated case; `key` (hashable / json-able) marks it distinct non-trivial."""
        self.cov['evaluations'] += n
        if key is not None:
            if not isinstance(key, (str, bytes, int, tuple)):
                key = json.dumps(key, sort_keys=True, default=str)
            self._distinct.add(hash(key))

    # ---- violations ----------------------------------------------------------------------
    def violation(self, signature, what, replay=None):
        """Report a property violation observed on the real code (or on the model bound to it).

        signature: dict identifying the failing input / call site / history class.
        """
        for i, k in enumerate(self.known):
            ks = k.get('signature', {})
            if all(signature.get(a) == b for a, b in ks.items()):
                self.known_hits[i] = self.known_hits.get(i, 0) + 1
                return 'known'
        key = json.dumps(signature, sort_keys=True, default=str)
        for v in self.violations:
            if v['key'] == key:
                v['count'] += 1
                return 'dup'
        h = hashlib.sha1((self.pid + key).encode()).hexdigest()[:10]
        rel = os.path.join('replays', '%s-%s.json' % (self.pid, h))
        os.makedirs(os.path.join(ROOT, 'replays'), exist_ok=True)
        with open(os.path.join(ROOT, rel), 'w') as f:
            json.dump({'property': self.pid, 'signature': signature, 'what': what, 'seed': self.seed,
                       'tier': self.tier, 'case': replay}, f, indent=1, default=str)
        self.violations.append({'key': key, 'what': what, 'replay': rel, 'count': 1, 'signature': signature})
        print('VIOLATION property=%s replay=%s  # %s' % (self.pid, rel, what), flush=True)
        return 'new'

    # ---- finishing -----------------------------------------------------------------------
    def finish(self, level, rule, extra=None, exhaustive=None):
        for i, k in enumerate(self.known):
            if i in self.known_hits:
                print('KNOWN-FINDING: property=%s %s (seen %d times in this run)' % (
                    self.pid, k.get('description', json.dumps(k.get('signature'))), self.known_hits[i]), flush=True)
            else:
                self.notes.append('listed finding not reproduced in this run: %s' % json.dumps(k.get('signature')))
                print('[%s] note: listed finding not reproduced in this run: %s' % (self.pid, json.dumps(k.get('signature'))))
        cov = dict(self.cov)
        cov['distinct_nontrivial'] = len(self._distinct)
        cov['rule'] = rule
        if exhaustive is not None:
            cov['exhaustive'] = exhaustive
        if not cov['samples']:
            cov['samples'] = ['(no sample recorded)']
        if extra:
            cov.update(extra)
        if self.notes:
            cov['notes'] = self.notes
        cov['known_findings_seen'] = sum(self.known_hits.values())
        ev = {'property_id': self.pid, 'tier': self.tier, 'seed': self.seed, 'level': level, 'coverage': cov,
              'assumptions': self.assumptions, 'wall_s': round(time.time() - self.t0, 2),
              'violations': len(self.violations)}
        os.makedirs(os.path.join(ROOT, 'evidence'), exist_ok=True)
        import re as _re
        evdir = 'evidence' if _re.match(r'^C[0-9]+$', self.pid) else os.path.join('evidence', 'extra')
        os.makedirs(os.path.join(ROOT, evdir), exist_ok=True)
        with open(os.path.join(ROOT, evdir, '%s.json' % self.pid), 'w') as f:
            json.dump(ev, f, indent=1, default=str)
            f.write('\n')
        shutil.rmtree(self.workdir, ignore_errors=True)
        rc = 1 if self.violations else 0
        print('[%s] %s: %d unlisted violation(s), %d known-finding hit(s), states=%d transitions=%d evaluations=%d '
              'distinct=%d traces_validated=%d wall=%.1fs' % (
                  self.pid, 'FAIL' if rc else 'PASS', len(self.violations), sum(self.known_hits.values()),
                  cov['states'], cov['transitions'], cov['evaluations'], cov['distinct_nontrivial'],
                  cov['traces_validated_against_impl'], ev['wall_s']), flush=True)
        return rc

    def machinery(self, msg):
        print('[%s] MACHINERY ERROR: %s' % (self.pid, msg), file=sys.stderr, flush=True)
        shutil.rmtree(self.workdir, ignore_errors=True)
        # a violation reported before the machinery gave up (VIOLATION line and replay file are out) stays the verdict
        sys.exit(1 if self.violations else 2)
