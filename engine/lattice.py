"""Lattice world: integer-coordinate grid catalogue (DESIGN.md appendix A) and its instantiation as real TileGrids.

All lattice coordinates are integers in units u = 1/20 of a pixel of a 20-u/px level.  A lattice grid is
instantiated in the real code in two regimes: exact (real = lattice) and an awkward similarity
(real = lattice * S + O with S, O chosen so that every product is inexact in binary floating point).
"""

S_AWK = 20037508.342789244 / 2 ** 15
O_AWK = -20037508.342789244

CATALOGUE = {
    # name: dict(ul, bbox, tw, th, res, thr)
    'G2': dict(ul=False, bbox=(0, 0, 640, 640), tw=4, th=4, res=(80, 40, 20)),
    'G2ul': dict(ul=True, bbox=(0, 0, 640, 640), tw=4, th=4, res=(80, 40, 20)),
    'Gpart': dict(ul=False, bbox=(0, 0, 640, 400), tw=4, th=4, res=(80, 40, 20)),
    'Gpartul': dict(ul=True, bbox=(0, 0, 640, 400), tw=4, th=4, res=(80, 40, 20)),
    'Gneg': dict(ul=False, bbox=(-330, -170, 310, 230), tw=4, th=4, res=(80, 40, 20)),
    'Grect': dict(ul=False, bbox=(0, 0, 960, 320), tw=3, th=2, res=(160, 80, 40, 20)),
    'G15': dict(ul=False, bbox=(0, 0, 720, 720), tw=4, th=4, res=(90, 60, 40)),
    'Gcust': dict(ul=False, bbox=(0, 0, 840, 600), tw=4, th=4, res=(140, 60, 40, 20)),
    'Gnear': dict(ul=False, bbox=(0, 0, 1280, 1280), tw=4, th=4, res=(160, 90, 80, 40)),
    'Gthr': dict(ul=False, bbox=(0, 0, 640, 640), tw=4, th=4, res=(80, 40, 20), thr=(30, 60)),
    'G1': dict(ul=False, bbox=(0, 0, 80, 80), tw=4, th=4, res=(20,)),
    'Gunal': dict(ul=False, bbox=(7, 13, 647, 413), tw=4, th=4, res=(80, 40, 20)),
    'Gunalul': dict(ul=True, bbox=(7, 13, 647, 413), tw=4, th=4, res=(80, 40, 20)),
}
SN, SD = 5, 4          # stretch factor 1.25 (dyadic: exact in the exact regime)
MS = 4                 # max shrink factor


def spec_grid(name):
    g = CATALOGUE[name]
    return dict(ul=g['ul'], bbox=list(g['bbox']), tw=g['tw'], th=g['th'], res=list(g['res']), sn=SN, sd=SD, ms=MS,
                thr=list(g.get('thr', ())))


class Regime(object):
    def __init__(self, scale=1.0, off=0.0, name='exact'):
        self.s, self.o, self.name = scale, off, name

    def fwd(self, v):
        return v * self.s + self.o

    def fwd_len(self, v):
        return v * self.s

    def back(self, v):
        """real -> lattice integer (None if not within 1e-6 u of an integer)"""
        x = (v - self.o) / self.s
        r = int(round(x))
        return r if abs(x - r) < 1e-6 else None


EXACT = Regime()
AWK = Regime(S_AWK, O_AWK, 'awkward')


def real_grid(name, regime=EXACT, srs=3857):
    from mapproxy.grid import TileGrid
    from mapproxy.srs import SRS
    g = CATALOGUE[name]
    bbox = tuple(regime.fwd(v) for v in g['bbox'])
    res = [regime.fwd_len(r) for r in g['res']]
    thr = [regime.fwd_len(r) for r in g.get('thr', ())] or None
    return TileGrid(SRS(srs), bbox=bbox, tile_size=(g['tw'], g['th']), res=res, origin='ul' if g['ul'] else 'll',
                    stretch_factor=SN / float(SD), max_shrink_factor=float(MS), threshold_res=thr)
