"""Lattice world: integer-coordinate grid catalogue (DESIGN.md appendix A) and its instantiation as real TileGrids.

All lattice coordinates are integers in units u = 1/20 of a pixel of a 20-u/px level.  A lattice grid is
instantiated in the real code in two regimes: exact (real = lattice) and an awkward similarity
(real = lattice * S + O with S, O chosen so that every product is inexact in binary floating point).
"""

S_AWK = 20037508.342789244 / 2 ** 15
O_AWK = -20037508.342789244

CATALOGUE = {
    # name: dict(ul, bbox, tw, th, res, thr)
    'G2': dict(ul=False, bbox=(0, 0, 640, 640), tw=4, th=4, res=(80, 40, 20)),
    'G2ul': dict(ul=True, bbox=(0, 0, 640, 640), tw=4, th=4, res=(80, 40, 20)),
    'Gpart': dict(ul=False, bbox=(0, 0, 640, 400), tw=4, th=4, res=(80, 40, 20)),
    'Gpartul': dict(ul=True, bbox=(0, 0, 640, 400), tw=4, th=4, res=(80, 40, 20)),
    'Gneg': dict(ul=False, bbox=(-330, -170, 310, 230), tw=4, th=4, res=(80, 40, 20)),
    'Grect': dict(ul=False, bbox=(0, 0, 960, 320), tw=3, th=2, res=(160, 80, 40, 20)),
    'Grectul': dict(ul=True, bbox=(0, 0, 960, 320), tw=3, th=2, res=(160, 80, 40, 20)),
    'G15': dict(ul=False, bbox=(0, 0, 720, 720), tw=4, th=4, res=(90, 60, 40)),
    'Gcust': dict(ul=False, bbox=(0, 0, 840, 600), tw=4, th=4, res=(140, 60, 40, 20)),
    'Gnear': dict(ul=False, bbox=(0, 0, 1280, 1280), tw=4, th=4, res=(160, 90, 80, 40)),
    'Gthr': dict(ul=False, bbox=(0, 0, 640, 640), tw=4, th=4, res=(80, 40, 20), thr=(30, 60)),
    'G1': dict(ul=False, bbox=(0, 0, 80, 80), tw=4, th=4, res=(20,)),
    'Gunal': dict(ul=False, bbox=(7, 13, 647, 413), tw=4, th=4, res=(80, 40, 20)),
    'Gunalul': dict(ul=True, bbox=(7, 13, 647, 413), tw=4, th=4, res=(80, 40, 20)),
    # sparse resolutions: gaps wider than stretch * max_shrink (level selection between the levels)
    'Gsparse': dict(ul=False, bbox=(0, 0, 2000, 2000), tw=2, th=2, res=(1000, 100, 50)),
}
# grids for single harnesses (not part of the catalogue that C02 / C03 / C04 enumerate)
MORE_GRIDS = {
    # large tiles: several requests next to each other inside the same tiles (reprojected requests, harness/c01.py)
    'Gbig': dict(ul=False, bbox=(0, 0, 1280, 1280), tw=16, th=16, res=(80, 40, 20)),
}
SN, SD = 5, 4          # stretch factor 1.25 (dyadic: exact in the exact regime)
MS = 4                 # max shrink factor


def spec_grid(name):
    g = CATALOGUE[name] if name in CATALOGUE else MORE_GRIDS[name]
    return dict(ul=g['ul'], bbox=list(g['bbox']), tw=g['tw'], th=g['th'], res=list(g['res']), sn=SN, sd=SD, ms=MS,
                thr=list(g.get('thr', ())), sf=False, so=False)


class Regime(object):
    def __init__(self, scale=1.0, off=0.0, name='exact'):
        self.s, self.o, self.name = scale, off, name

    def fwd(self, v):
        return v * self.s + self.o

    def fwd_len(self, v):
        return v * self.s

    def back(self, v):
        """real -> lattice integer (None if not within 1e-6 u of an integer)"""
        x = (v - self.o) / self.s
        r = int(round(x))
        return r if abs(x - r) < 1e-6 else None


EXACT = Regime()
AWK = Regime(S_AWK, O_AWK, 'awkward')
# a small grid far from the origin (0.2 m pixels at northing 5 200 000 m): the extent is tiny against the coordinates,
# so differences of coordinates carry a relative error of 1e-9 rather than 1e-16
FAR = Regime(0.01, 5200000.0, 'far')


def real_grid(name, regime=EXACT, srs=3857):
    from mapproxy.grid import TileGrid
    from mapproxy.srs import SRS
    g = CATALOGUE[name]
    bbox = tuple(regime.fwd(v) for v in g['bbox'])
    res = [regime.fwd_len(r) for r in g['res']]
    thr = [regime.fwd_len(r) for r in g.get('thr', ())] or None
    return TileGrid(SRS(srs), bbox=bbox, tile_size=(g['tw'], g['th']), res=res, origin='ul' if g['ul'] else 'll',
                    stretch_factor=SN / float(SD), max_shrink_factor=float(MS), threshold_res=thr)


# ---------------------------------------------------------------------------------------------------------
# end-to-end lattice world: a real MapProxyApp on a lattice grid with a position-encoding fake upstream
# ---------------------------------------------------------------------------------------------------------
import io
import os
import shutil
import tempfile

BGCOL = (255, 255, 255)


def paint_cells(g, bbox, size):
    """PIL image whose pixel (i, j) encodes the lattice cell of its centre at the resolution of the request:
    R = cx + 20, G = cy + 20 (cell indices counted from the grid's lower-left corner), B = 100 + level"""
    from PIL import Image
    bx0, by0, bx1, by1 = bbox
    w, h = size
    rx, ry = (bx1 - bx0) / float(w), (by1 - by0) / float(h)
    lvl = min(range(len(g['res'])), key=lambda i: abs(g['res'][i] - rx))
    lres = g['res'][lvl]
    gx0, gy0 = g['bbox'][0], g['bbox'][1]
    img = Image.new('RGB', (w, h))
    px = img.load()
    for j in range(h):
        cy = int(((by1 - (j + 0.5) * ry) - gy0) // lres)
        for i in range(w):
            cx = int(((bx0 + (i + 0.5) * rx) - gx0) // lres)
            px[i, j] = ((cx + 20) % 256, (cy + 20) % 256, 100 + lvl)
    return img


def decode_cells(g, img):
    """image -> (level, {(i, j): (cx, cy)} for encoded pixels, set of background pixels)"""
    img = img.convert('RGBA')
    px = img.load()
    cells, bg, lvls = {}, set(), set()
    for j in range(img.size[1]):
        for i in range(img.size[0]):
            r, gg, b, a = px[i, j]
            if a == 0 or (r, gg, b) == BGCOL or not (100 <= b < 100 + len(g['res'])):
                bg.add((i, j))
            else:
                cells[(i, j)] = (r - 20, gg - 20)
                lvls.add(b - 100)
    return lvls, cells, bg


def cells_rect(g, lvl, cells):
    """ground rectangle (lattice units) covered by the encoded cells"""
    r = g['res'][lvl]
    xs = [c[0] for c in cells.values()]
    ys = [c[1] for c in cells.values()]
    return [g['bbox'][0] + min(xs) * r, g['bbox'][1] + min(ys) * r, g['bbox'][0] + (max(xs) + 1) * r, g['bbox'][1] + (max(ys) + 1) * r]


class _Raised(object):
    """stands for the response of a request that made the application raise"""
    status_int = 599
    status = '599 application raised'
    content_type = 'text/plain'
    headers = {}

    def __init__(self, ex):
        self.text = '%s: %s' % (type(ex).__name__, ex)
        self.body = self.text.encode('utf8', 'replace')


class LatticeApp(object):
    """MapProxyApp on one lattice grid: layer `lay` <- cache `c` (file) <- WMS source `up` (faked)"""

    def __init__(self, g, srs='EPSG:3857', meta_size=(2, 2), meta_buffer=0, source_coverage=None, services=None,
                 extra_conf=None, scale=1, featureinfo=False, wms_srs=None, grid_conf=None, upstream_version=None,
                 tile_source=False, under=None, source_coverage_union=None):
        """tile_source: the upstream is a tile service on the same grid (URL template z/x/y) instead of a WMS;
        under = dict(tw, th, ul): the cache of the layer is filled from ANOTHER cache `cu` (same extent and resolutions,
        tiles of tw x th pixels, the other origin) which is filled from the upstream"""
        from mapproxy.config.loader import ProxyConfiguration
        from mapproxy.wsgiapp import MapProxyApp
        import mapproxy.client.http as http
        from webtest import TestApp
        self.g = g
        self.scale = scale
        self.dir = tempfile.mkdtemp(prefix='verif-lapp-')
        self.log = []
        self.info_log = []
        src = {'type': 'wms', 'req': {'url': 'http://upstream.invalid/service', 'layers': 'up'},
               'supported_srs': [srs]}
        if featureinfo:
            src['wms_opts'] = {'featureinfo': True}
        if upstream_version:
            src.setdefault('wms_opts', {})['version'] = upstream_version
        if tile_source:
            src = {'type': 'tile', 'url': 'http://upstream.invalid/t/%(z)s/%(x)s/%(y)s.png', 'grid': 'g'}
        if source_coverage:
            src['coverage'] = {'bbox': [v * scale for v in source_coverage], 'srs': srs}
        if source_coverage_union:
            # a coverage that is not a rectangle: the union of rectangles
            src['coverage'] = {'union': [{'bbox': [v * scale for v in r], 'srs': srs} for r in source_coverage_union]}
        conf = {
            'services': services or {'tms': {}, 'wmts': {'restful': True, 'kvp': True}, 'kml': {}, 'wms': {'srs': wms_srs or [srs], 'md': {'title': 't'}}},
            'layers': [{'name': 'lay', 'title': 'lay', 'sources': ['c']}],
            'caches': {'c': {'grids': ['g'], 'sources': ['up'], 'format': 'image/png',
                             'meta_size': list(meta_size), 'meta_buffer': meta_buffer,
                             'cache': {'type': 'file', 'directory': os.path.join(self.dir, 'cache')}}},
            'sources': {'up': src},
            'grids': {'g': {'srs': srs, 'bbox': [v * scale for v in g['bbox']], 'res': [r * scale for r in g['res']],
                            'tile_size': [g['tw'], g['th']], 'stretch_factor': g['sn'] / float(g['sd']),
                            'max_shrink_factor': float(g['ms']),
                            'origin': 'ul' if g['ul'] else 'll'}},
            'globals': {'image': {'paletted': False, 'resampling_method': 'nearest'},
                        'cache': {'base_dir': os.path.join(self.dir, 'cache_data'), 'lock_dir': os.path.join(self.dir, 'locks'),
                                  'tile_lock_dir': os.path.join(self.dir, 'tile_locks')}},
        }
        if grid_conf:
            conf['grids']['g'] = grid_conf
        if under:
            conf['grids']['gu'] = dict(conf['grids']['g'], tile_size=[under['tw'], under['th']], origin='ul' if under['ul'] else 'll')
            conf['caches']['cu'] = {'grids': ['gu'], 'sources': ['up'], 'format': 'image/png', 'meta_size': [2, 2], 'meta_buffer': 0,
                                    'cache': {'type': 'file', 'directory': os.path.join(self.dir, 'cache_under')}}
            conf['caches']['c']['sources'] = ['cu']
        if extra_conf:
            for k, v in extra_conf.items():
                if isinstance(v, dict) and isinstance(conf.get(k), dict):
                    conf[k].update(v)
                else:
                    conf[k] = v
        self.conf = conf
        pc = ProxyConfiguration(conf, conf_base_dir=self.dir, seed=False, renderd=False)
        self.app = TestApp(MapProxyApp(pc.configured_services(), pc.base_config))
        self._http = http
        self._orig_open = http.HTTPClient.open
        world = self

        def fake_open(client, url, data=None, method=None):
            return world._upstream(url)
        http.HTTPClient.open = fake_open

    def _upstream(self, url):
        from urllib.parse import urlparse, parse_qs
        q = {k.upper(): v[0] for k, v in parse_qs(urlparse(url).query).items()}
        if q.get('REQUEST', '').lower() in ('getfeatureinfo', 'feature_info'):
            self.info_log.append(q)
            buf = io.BytesIO(b'info')
            buf.headers = {'Content-type': 'text/plain'}
            buf.code = 200
            return buf
        path = urlparse(url).path
        if path.startswith('/t/'):
            # a tile of the grid: the same picture as a WMS request for its bounding box
            z, x, y = [int(v) for v in path[3:-4].split('/')]
            g = self.g
            r = g['res'][z]
            x0 = g['bbox'][0] + x * r * g['tw']
            if g['ul']:
                y1 = g['bbox'][3] - y * r * g['th']
                tb = [x0, y1 - r * g['th'], x0 + r * g['tw'], y1]
            else:
                y0 = g['bbox'][1] + y * r * g['th']
                tb = [x0, y0, x0 + r * g['tw'], y0 + r * g['th']]
            q = {'BBOX': ','.join(repr(v * self.scale) for v in tb), 'WIDTH': str(g['tw']), 'HEIGHT': str(g['th']), 'TILE': '%d/%d/%d' % (z, x, y)}
        self.log.append(q)
        bbox = [float(v) / self.scale for v in q['BBOX'].split(',')]
        if q.get('VERSION') == '1.3.0' and q.get('CRS') in ('EPSG:4326', 'EPSG:31467'):
            bbox = [bbox[1], bbox[0], bbox[3], bbox[2]]       # WMS 1.3.0: the BBOX follows the axis order of the CRS
        size = (int(q['WIDTH']), int(q['HEIGHT']))
        img = paint_cells(self.g, bbox, size)
        buf = io.BytesIO()
        img.save(buf, 'PNG')
        buf.seek(0)
        buf.headers = {'Content-type': 'image/png'}
        buf.code = 200
        return buf

    def get(self, path, status='*', **kw):
        try:
            return self.app.get(path, status=status, expect_errors=True, **kw)
        except Exception as ex:          # the application raised (or logged a traceback): a failed request, not a harness failure
            return _Raised(ex)

    def image(self, resp):
        from PIL import Image
        return Image.open(io.BytesIO(resp.body))

    def close(self):
        self._http.HTTPClient.open = self._orig_open
        shutil.rmtree(self.dir, ignore_errors=True)
