"""Record the raw file-system operations of a piece of real code with strace, and re-apply prefixes of them.

`record(argv, env)` runs a subprocess under strace and returns the list of operations that touched the
file system, in issue order, with markers (the driver calls os.mkdir('/VERIF-MARK-<n>'), which fails and is
visible in the trace).  Positions of write() calls are tracked from lseek()/read()/write() results.
`apply_ops(ops, mapping)` re-applies a (prefix of a) recorded sequence to a copy of the directory.
"""
import os
import re
import subprocess

SYSCALLS = ('openat,open,creat,read,pread64,write,pwrite64,lseek,rename,renameat,renameat2,unlink,unlinkat,link,linkat,'
            'symlink,symlinkat,mkdir,mkdirat,ftruncate,truncate,close,dup,dup2,dup3,fcntl')

_LINE = re.compile(r'^(\d+)\s+(\w+)\((.*)\)\s+=\s+(-?\d+|\?)(<[^>]*>)?(.*)$')
_HEX = re.compile(r'\\x([0-9a-f]{2})')


def _unhex(s):
    return bytes(int(h, 16) for h in _HEX.findall(s))


def _split_args(s):
    """split a strace argument list at top-level commas"""
    out, depth, cur, instr, i = [], 0, [], False, 0
    while i < len(s):
        ch = s[i]
        if instr:
            cur.append(ch)
            if ch == '\\':
                cur.append(s[i + 1])
                i += 1
            elif ch == '"':
                instr = False
        elif ch == '"':
            instr = True
            cur.append(ch)
        elif ch in '<([{':
            depth += 1
            cur.append(ch)
        elif ch in '>)]}':
            depth -= 1
            cur.append(ch)
        elif ch == ',' and depth == 0:
            out.append(''.join(cur).strip())
            cur = []
        else:
            cur.append(ch)
        i += 1
    if cur:
        out.append(''.join(cur).strip())
    return out


def _str_arg(a):
    m = re.match(r'^"((?:\\x[0-9a-f]{2})*)"', a)
    return _unhex(m.group(1)).decode('utf8', 'surrogateescape') if m else None


def _fd_arg(a):
    m = re.match(r'^(-?\d+|AT_FDCWD)(?:<((?:\\x[0-9a-f]{2})*)>)?', a)
    if not m:
        return None, None
    fd = -100 if m.group(1) == 'AT_FDCWD' else int(m.group(1))
    path = _unhex(m.group(2)).decode('utf8', 'surrogateescape') if m.group(2) else None
    return fd, path


def parse(trace_path, interesting):
    """parse strace output -> list of op dicts; `interesting(path)` selects the paths to keep"""
    ops = []
    pos = {}      # (pid, fd) -> offset
    fpath = {}    # (pid, fd) -> path
    cwd = {}
    with open(trace_path, errors='replace') as f:
        for line in f:
            line = line.rstrip('\n')
            if 'unfinished' in line or 'resumed' in line:
                # single threaded drivers: should not happen for the calls we care about
                if any(k in line for k in ('write', 'rename', 'unlink', 'link')):
                    ops.append({'op': 'unparsed', 'line': line[:200]})
                continue
            m = _LINE.match(line)
            if not m:
                continue
            pid, call, args, ret = m.group(1), m.group(2), _split_args(m.group(3)), m.group(4)
            ok = ret not in ('?',) and int(ret) >= 0
            retv = int(ret) if ret != '?' else -1

            def absolutize(p, dirfd_path=None):
                if p is None:
                    return None
                if os.path.isabs(p):
                    return os.path.normpath(p)
                return os.path.normpath(os.path.join(dirfd_path or '/', p))

            if call in ('mkdir', 'mkdirat'):
                a = args[1:] if call == 'mkdirat' else args
                dp = _fd_arg(args[0])[1] if call == 'mkdirat' else None
                p = _str_arg(a[0])
                if p and p.startswith('/VERIF-MARK-'):
                    ops.append({'op': 'mark', 'n': p[len('/VERIF-MARK-'):]})
                    continue
                p = absolutize(p, dp)
                if ok and interesting(p):
                    ops.append({'op': 'mkdir', 'path': p})
            elif call in ('openat', 'open', 'creat'):
                if call == 'openat':
                    dp = _fd_arg(args[0])[1]
                    p, flags = absolutize(_str_arg(args[1]), dp), args[2]
                elif call == 'open':
                    p, flags = absolutize(_str_arg(args[0])), args[1]
                else:
                    p, flags = absolutize(_str_arg(args[0])), 'O_CREAT|O_WRONLY|O_TRUNC'
                if ok:
                    pos[(pid, retv)] = 0
                    fpath[(pid, retv)] = p
                    if interesting(p) and ('O_CREAT' in flags or 'O_TRUNC' in flags):
                        ops.append({'op': 'open', 'path': p, 'creat': 'O_CREAT' in flags, 'trunc': 'O_TRUNC' in flags,
                                    'excl': 'O_EXCL' in flags})
                    if 'O_APPEND' in flags:
                        pos[(pid, retv)] = None
            elif call == 'close':
                fd, _ = _fd_arg(args[0])
                pos.pop((pid, fd), None)
                fpath.pop((pid, fd), None)
            elif call in ('dup', 'dup2', 'dup3', 'fcntl'):
                fd, _ = _fd_arg(args[0])
                if ok and (call != 'fcntl' or 'F_DUPFD' in args[1]) and (pid, fd) in fpath:
                    fpath[(pid, retv)] = fpath[(pid, fd)]
                    pos[(pid, retv)] = pos.get((pid, fd), 0)
            elif call == 'lseek':
                fd, _ = _fd_arg(args[0])
                if ok:
                    pos[(pid, fd)] = retv
            elif call == 'read':
                fd, _ = _fd_arg(args[0])
                if ok and pos.get((pid, fd)) is not None:
                    pos[(pid, fd)] = pos.get((pid, fd), 0) + retv
            elif call in ('write', 'pwrite64'):
                fd, p = _fd_arg(args[0])
                if (pid, fd) in fpath:
                    p = fpath[(pid, fd)]
                if not ok or p is None:
                    continue
                data = _unhex(args[1])[:retv]
                if call == 'pwrite64':
                    off = int(args[3])
                else:
                    off = pos.get((pid, fd))
                    if off is not None:
                        pos[(pid, fd)] = off + retv
                if p and interesting(p):
                    if len(data) != retv:
                        ops.append({'op': 'unparsed', 'line': 'short data for write of %d bytes' % retv})
                    ops.append({'op': 'write', 'path': p, 'off': off, 'data': data})
            elif call in ('ftruncate', 'truncate'):
                if call == 'ftruncate':
                    fd, p = _fd_arg(args[0])
                    p = fpath.get((pid, fd), p)
                else:
                    p = absolutize(_str_arg(args[0]))
                if ok and p and interesting(p):
                    ops.append({'op': 'truncate', 'path': p, 'len': int(args[1])})
            elif call in ('rename', 'renameat', 'renameat2'):
                if call == 'rename':
                    a, b = absolutize(_str_arg(args[0])), absolutize(_str_arg(args[1]))
                else:
                    a = absolutize(_str_arg(args[1]), _fd_arg(args[0])[1])
                    b = absolutize(_str_arg(args[3]), _fd_arg(args[2])[1])
                if ok:
                    for k2, v2 in list(fpath.items()):      # open descriptors follow the file
                        if v2 == b:
                            fpath[k2] = None
                        elif v2 == a:
                            fpath[k2] = b
                if ok and (interesting(a) or interesting(b)):
                    ops.append({'op': 'rename', 'src': a, 'dst': b})
            elif call in ('unlink', 'unlinkat'):
                if call == 'unlink':
                    p = absolutize(_str_arg(args[0]))
                    isdir = False
                else:
                    p = absolutize(_str_arg(args[1]), _fd_arg(args[0])[1])
                    isdir = 'AT_REMOVEDIR' in args[2]
                if ok and not isdir:
                    for k2, v2 in list(fpath.items()):      # writes to an unlinked file reach no name
                        if v2 == p:
                            fpath[k2] = None
                if ok and interesting(p):
                    ops.append({'op': 'rmdir' if isdir else 'unlink', 'path': p})
            elif call in ('link', 'linkat'):
                if call == 'link':
                    a, b = absolutize(_str_arg(args[0])), absolutize(_str_arg(args[1]))
                else:
                    a = absolutize(_str_arg(args[1]), _fd_arg(args[0])[1])
                    b = absolutize(_str_arg(args[3]), _fd_arg(args[2])[1])
                if ok and interesting(b):
                    ops.append({'op': 'link', 'src': a, 'dst': b})
            elif call in ('symlink', 'symlinkat'):
                if call == 'symlink':
                    t, b = _str_arg(args[0]), absolutize(_str_arg(args[1]))
                else:
                    t, b = _str_arg(args[0]), absolutize(_str_arg(args[2]), _fd_arg(args[1])[1])
                if ok and interesting(b):
                    ops.append({'op': 'symlink', 'target': t, 'path': b})
    return ops


def record(argv, workdir, env=None, interesting=lambda p: True, timeout=600):
    out = os.path.join(workdir, 'strace.out')
    cmd = ['strace', '-f', '-y', '-xx', '-s', '400000', '-o', out, '-e', 'trace=' + SYSCALLS] + list(argv)
    e = dict(os.environ)
    if env:
        e.update(env)
    p = subprocess.run(cmd, stdout=subprocess.PIPE, stderr=subprocess.STDOUT, env=e, timeout=timeout)
    if p.returncode != 0:
        raise RuntimeError('traced driver failed (%s): %s' % (p.returncode, p.stdout.decode('utf8', 'replace')[-2000:]))
    ops = parse(out, interesting)
    os.unlink(out)
    return ops, p.stdout.decode('utf8', 'replace')


def apply_ops(ops, remap):
    """re-apply ops to the file system; remap(path) -> path in the scratch copy"""
    for o in ops:
        k = o['op']
        if k == 'mkdir':
            os.makedirs(remap(o['path']), exist_ok=True)
        elif k == 'open':
            p = remap(o['path'])
            if o['creat'] and not os.path.lexists(p):
                open(p, 'wb').close()
            if o['trunc'] and os.path.exists(p):
                with open(p, 'r+b') as f:
                    f.truncate(0)
        elif k == 'write':
            p = remap(o['path'])
            with open(p, 'r+b') as f:
                if o['off'] is None:
                    f.seek(0, 2)
                else:
                    f.seek(o['off'])
                f.write(o['data'])
        elif k == 'truncate':
            with open(remap(o['path']), 'r+b') as f:
                f.truncate(o['len'])
        elif k == 'rename':
            os.rename(remap(o['src']), remap(o['dst']))
        elif k == 'unlink':
            os.unlink(remap(o['path']))
        elif k == 'rmdir':
            os.rmdir(remap(o['path']))
        elif k == 'link':
            os.link(remap(o['src']), remap(o['dst']))
        elif k == 'symlink':
            os.symlink(o['target'], remap(o['path']))
        elif k in ('mark',):
            pass
        else:
            raise ValueError('cannot apply %r' % (o,))


def torn_variants(op, file_size_before, inplace_sector=None):
    """partial versions of a write that a dying process may leave behind: an appending write (or a write to a
    freshly created file) may persist any byte prefix; an in-place overwrite is atomic unless `inplace_sector`
    (a power-loss sector size) is given, then it persists a prefix of the sectors it touches"""
    if op['op'] != 'write' or len(op['data']) <= 1:
        return []
    data, off = op['data'], op['off']
    n = len(data)
    out = []
    appending = off is None or off >= file_size_before
    if appending:
        cuts = sorted({1, n // 2, n - 1, 4, 3} & set(range(1, n)))
    elif inplace_sector:
        first = (off // inplace_sector + 1) * inplace_sector
        cuts = [c - off for c in range(first, off + n, inplace_sector)][:3]
    else:
        cuts = []
    for c in cuts:
        v = dict(op)
        v['data'] = data[:c]
        v['torn'] = c
        out.append(v)
    return out
