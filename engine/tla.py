"""Parser for TLA+ values and states as printed by TLC (traces, simulation files, dumps).

Values are mapped to Python:
  integers -> int, TRUE/FALSE -> bool, "str" -> str, model values / identifiers -> Sym(name)
  <<a, b>> -> tuple, {a, b} -> frozenset, [k |-> v] -> dict (str keys),
  (k :> v @@ ...) -> dict (arbitrary hashable keys), a..b -> frozenset(range)
"""
import re


class Sym(str):
    """A TLC model value or bare identifier."""
    def __repr__(self):
        return 'Sym(%s)' % str.__repr__(self)


class FrozenDict(dict):
    def __hash__(self):
        return hash(frozenset(self.items()))


_TOKEN = re.compile(r'''
    \s*(?:
      (?P<int>-?\d+)
    | (?P<str>"(?:[^"\\]|\\.)*")
    | (?P<id>[A-Za-z_][A-Za-z0-9_!]*)
    | (?P<op><<|>>|\|->|:>|@@|\.\.|[\[\]{}(),])
    )''', re.X)


def tokenize(s):
    pos = 0
    out = []
    n = len(s)
    while pos < n:
        m = _TOKEN.match(s, pos)
        if not m:
            if s[pos:].strip() == '':
                break
            raise ValueError('cannot tokenize TLA value at %r' % s[pos:pos + 40])
        pos = m.end()
        if m.group('int') is not None:
            out.append(('int', int(m.group('int'))))
        elif m.group('str') is not None:
            raw = m.group('str')[1:-1]
            out.append(('str', raw.replace('\\"', '"').replace('\\\\', '\\')))
        elif m.group('id') is not None:
            out.append(('id', m.group('id')))
        else:
            out.append(('op', m.group('op')))
    return out


class _P:
    def __init__(self, toks):
        self.t = toks
        self.i = 0

    def peek(self):
        return self.t[self.i] if self.i < len(self.t) else (None, None)

    def next(self):
        tok = self.t[self.i]
        self.i += 1
        return tok

    def expect(self, op):
        k, v = self.next()
        if k != 'op' or v != op:
            raise ValueError('expected %s got %r' % (op, v))

    def value(self):
        k, v = self.next()
        if k == 'int':
            nk, nv = self.peek()
            if nk == 'op' and nv == '..':
                self.next()
                k2, hi = self.next()
                return frozenset(range(v, hi + 1))
            return v
        if k == 'str':
            return v
        if k == 'id':
            if v == 'TRUE':
                return True
            if v == 'FALSE':
                return False
            return Sym(v)
        if k == 'op':
            if v == '<<':
                items = self.items('>>')
                return tuple(items)
            if v == '{':
                return frozenset(self.items('}'))
            if v == '[':
                d = FrozenDict()
                if self.peek() == ('op', ']'):
                    self.next()
                    return d
                while True:
                    kk, key = self.next()
                    self.expect('|->')
                    d[str(key)] = self.value()
                    k2, v2 = self.next()
                    if v2 == ']':
                        break
                    if v2 != ',':
                        raise ValueError('bad record')
                return d
            if v == '(':
                d = FrozenDict()
                while True:
                    key = self.value()
                    self.expect(':>')
                    d[key] = self.value()
                    k2, v2 = self.next()
                    if v2 == ')':
                        break
                    if v2 != '@@':
                        raise ValueError('bad function')
                return d
        raise ValueError('unexpected token %r' % (v,))

    def items(self, close):
        out = []
        if self.peek() == ('op', close):
            self.next()
            return out
        while True:
            out.append(self.value())
            k, v = self.next()
            if v == close:
                return out
            if v != ',':
                raise ValueError('bad list, got %r' % (v,))


def parse_value(s):
    p = _P(tokenize(s))
    v = p.value()
    if p.i != len(p.t):
        raise ValueError('trailing tokens in %r' % s)
    return v


def parse_state(text):
    """Parse a conjunction '/\\ x = v\\n/\\ y = w' into a dict."""
    st = {}
    # split at lines starting with /\
    parts = re.split(r'(?m)^\s*/\\ ', text)
    for part in parts:
        part = part.strip()
        if not part:
            continue
        m = re.match(r'([A-Za-z_][A-Za-z0-9_]*)\s*=\s*(.*)\Z', part, re.S)
        if not m:
            raise ValueError('bad state conjunct %r' % part[:80])
        st[m.group(1)] = parse_value(m.group(2))
    return st


_STATE_HDR = re.compile(r'^State (\d+): <(.*)>\s*$')


def parse_error_trace(output):
    """Parse 'State n: <Action ...>' blocks from TLC stdout. Returns list of (action, args, state)."""
    lines = output.splitlines()
    res = []
    i = 0
    while i < len(lines):
        m = _STATE_HDR.match(lines[i])
        if m:
            hdr = m.group(2)
            j = i + 1
            buf = []
            while j < len(lines) and lines[j].strip() != '':
                buf.append(lines[j])
                j += 1
            act = hdr.split(' line ')[0].strip()
            res.append((act, parse_state('\n'.join(buf))))
            i = j
        else:
            i += 1
    return res


_SIM_STATE = re.compile(r'^STATE_(\d+) ==\s*$')


def parse_sim_file(path):
    """Parse a trace file written by `tlc -simulate file=...`. Returns list of (action, state)."""
    res = []
    act = None
    buf = None
    with open(path) as f:
        for line in f:
            line = line.rstrip('\n')
            if line.startswith('\\* <') or line.startswith('\\*<'):
                act = line[line.index('<') + 1:].split(' line ')[0].rstrip('>').strip()
                continue
            if _SIM_STATE.match(line):
                buf = []
                continue
            if buf is not None:
                if line.strip() == '':
                    if buf:
                        res.append((act, parse_state('\n'.join(buf))))
                    buf = None
                else:
                    buf.append(line)
    if buf:
        res.append((act, parse_state('\n'.join(buf))))
    return res


def to_tla(v):
    """Python value -> TLA+ expression text (for generated modules)."""
    if isinstance(v, bool):
        return 'TRUE' if v else 'FALSE'
    if isinstance(v, Sym):
        return str(v)
    if isinstance(v, int):
        return str(v)
    if isinstance(v, str):
        return '"' + v.replace('\\', '\\\\').replace('"', '\\"') + '"'
    if isinstance(v, (tuple, list)):
        return '<<' + ', '.join(to_tla(x) for x in v) + '>>'
    if isinstance(v, (set, frozenset)):
        return '{' + ', '.join(sorted(to_tla(x) for x in v)) + '}'
    if isinstance(v, dict):
        if not v:
            return '<<>>'
        if all(isinstance(k, str) and not isinstance(k, Sym) and re.match(r'^[A-Za-z_][A-Za-z0-9_]*$', k) for k in v):
            return '[' + ', '.join('%s |-> %s' % (k, to_tla(x)) for k, x in v.items()) + ']'
        return '(' + ' @@ '.join('%s :> %s' % (to_tla(k), to_tla(x)) for k, x in v.items()) + ')'
    if v is None:
        return 'None'
    raise TypeError('cannot convert %r' % (v,))


def jsonable(v):
    """Python (parsed TLA) value -> JSON-serialisable structure."""
    if isinstance(v, (bool, int)) or v is None:
        return v
    if isinstance(v, str):
        return str(v)
    if isinstance(v, (tuple, list)):
        return [jsonable(x) for x in v]
    if isinstance(v, (set, frozenset)):
        return sorted((jsonable(x) for x in v), key=lambda x: repr(x))
    if isinstance(v, dict):
        return {str(k) if not isinstance(k, tuple) else repr(jsonable(k)): jsonable(x) for k, x in v.items()}
    return repr(v)
