"""C05 - every cache backend behaves like a map from tile address to bytes.

spec/CacheMap.tla is the abstract store; spec/SqliteStore.tla, spec/FileStore.tla and spec/BundleStore.tla
model the internal addressing of the backends and are checked by TLC to refine it.  TLC behaviours of
CacheMap are replayed on every real backend over address families built to collide in the backend's
internal addressing (spec -> code, full map compared through a fresh cache object after every operation),
and long random histories recorded from the real backends are validated by TLC against
spec/trace/Trace_CacheMap.tla (code -> spec).
"""
import json
import os
import re

from engine import tlc, tla
from harness import backends as B

SPEC = os.path.join(tlc.SPEC_DIR, 'CacheMap.tla')
TRACE_SPEC = os.path.join(tlc.SPEC_DIR, 'trace', 'Trace_CacheMap.tla')
NAMES = ['a1', 'a2', 'a3', 'a4', 'a5', 'a6']
BYTES = ['b1', 'b2', 's1']
ALLBYTES = ['b1', 'b2', 'b3', 's1', 's2']

_ACT = re.compile(r'^(\w+)(?:\((.*)\))?$', re.S)


def parse_action(a):
    m = _ACT.match(a.strip())
    name = m.group(1)
    args = tla.parse_value('<<' + m.group(2) + '>>') if m.group(2) else ()
    return name, args


def families_for(backend):
    fams = ['levels', 'bundle', 'digits', 'samexy']
    if backend.dims:
        fams.append('dims')
    return fams


class Runner(object):
    """Executes abstract operations on one real backend with one address family."""

    def __init__(self, backend, family):
        self.b = backend.open()
        self.family = family
        self.universe = B.FAMILIES[family]
        self.addr = dict(zip(NAMES, self.universe))
        self.cache = self.b.new()

    def close(self):
        B.cleanup(self.cache)
        self.b.close()

    def bulk_ok(self, names):
        dims = [json.dumps(self.addr[n][3], sort_keys=True) for n in names]
        return len(set(dims)) == 1

    def do(self, op, args):
        """returns list of payload names (val)"""
        c, A = self.cache, self.addr
        if op == 'store':
            B.op_store(c, A[args[0]], B.payload(args[1]))
            return []
        if op == 'store_bulk':
            B.op_store_bulk(c, [(A[a], B.payload(b)) for a, b in args])
            return []
        if op == 'remove':
            B.op_remove(c, A[args[0]])
            return []
        if op == 'remove_bulk':
            B.op_remove_bulk(c, [A[a] for a in args])
            return []
        if op == 'load':
            return [B.name_of(B.op_load(c, A[args[0]]), ALLBYTES)]
        if op == 'load_bulk':
            return [B.name_of(d, ALLBYTES) for d in B.op_load_bulk(c, [A[a] for a in args])]
        if op == 'is_cached':
            return ['yes' if B.op_is_cached(c, A[args[0]]) else 'no']
        raise ValueError(op)

    def obs(self):
        return {n: B.name_of(d, ALLBYTES) for n, d in zip(NAMES, B.project(self.b, self.universe))}


OPMAP = {'Store': 'store', 'StoreBulk': 'store_bulk', 'Remove': 'remove', 'RemoveBulk': 'remove_bulk', 'Load': 'load', 'LoadBulk': 'load_bulk',
         'IsCached': 'is_cached'}


def beh_ops(beh):
    ops = []
    for act, st in beh[1:]:
        name, args = parse_action(act)
        op = OPMAP[name]
        if op == 'store_bulk':
            a = [list(p) for p in args[0]]
        elif op in ('load_bulk', 'remove_bulk'):
            a = list(args[0])
        else:
            a = list(args)
        ops.append((op, a, st))
    return ops


def replay_behaviour(ctx, backend, family, ops):
    """ops: [(op, args, expected state or None)] -> None if conforming else (index, description)"""
    r = Runner(backend, family)
    try:
        for i, (op, args, st) in enumerate(ops):
            if op == 'store_bulk' and not r.bulk_ok([a for a, _ in args]):
                return 'skip'
            if op in ('load_bulk', 'remove_bulk') and not r.bulk_ok(args):
                return 'skip'
        model = {n: 'none' for n in NAMES}
        for i, (op, args, st) in enumerate(ops):
            try:
                val = r.do(op, args)
            except Exception as ex:
                return i, '%s%r raised %r' % (op, args, ex)
            # expected by the abstract map
            if op == 'store':
                model[args[0]] = args[1]
            elif op == 'store_bulk':
                for a, b in args:
                    model[a] = b
            elif op == 'remove':
                model[args[0]] = 'none'
            elif op == 'remove_bulk':
                for a in args:
                    model[a] = 'none'
            exp = []
            if op == 'load':
                exp = [model[args[0]]]
            elif op == 'load_bulk':
                exp = [model[a] for a in args]
            elif op == 'is_cached':
                exp = ['yes' if model[args[0]] != 'none' else 'no']
            if st is not None:
                spec_store = {k: str(v) for k, v in st['store'].items()}
                if spec_store != model:
                    raise tlc.MachineryError('harness model of CacheMap disagrees with TLC state: %r vs %r' % (spec_store, model))
                if [str(v) for v in st['reply']['val']] != exp:
                    raise tlc.MachineryError('harness reply disagrees with TLC: %r vs %r' % (st['reply'], exp))
            if val != exp:
                return i, '%s%r returned %s, the map says %s' % (op, [str(a) for a in args], val, exp)
            obs = r.obs()
            if obs != model:
                diff = {n: (obs[n], model[n]) for n in NAMES if obs[n] != model[n]}
                return i, 'after %s%r: address -> (backend, map) differs: %s' % (op, args, diff)
        return None
    finally:
        r.close()


def random_history(rng, backend, family, nops):
    r = Runner(backend, family)
    names = NAMES
    byts = ALLBYTES if backend.links else ['b1', 'b2', 'b3', 's1']
    events = []
    err = None
    try:
        groups = {}
        for n in names:
            groups.setdefault(json.dumps(r.addr[n][3], sort_keys=True), []).append(n)
        glist = list(groups.values())
        for i in range(nops):
            k = rng.random()
            if k < 0.25:
                op, args = 'store', [rng.choice(names), rng.choice(byts)]
            elif k < 0.40:
                g = rng.choice(glist)
                n = rng.randint(1, min(4, len(g) + 1))
                op, args = 'store_bulk', [[rng.choice(g), rng.choice(byts)] for _ in range(n)]
            elif k < 0.49:
                op, args = 'remove', [rng.choice(names)]
            elif k < 0.55:
                g = rng.choice(glist)
                op, args = 'remove_bulk', rng.sample(g, rng.randint(1, min(3, len(g))))
            elif k < 0.70:
                op, args = 'load', [rng.choice(names)]
            elif k < 0.88:
                g = rng.choice(glist)
                op, args = 'load_bulk', rng.sample(g, rng.randint(1, len(g)))
            else:
                op, args = 'is_cached', [rng.choice(names)]
            try:
                val = r.do(op, args)
            except Exception as ex:
                err = (i, '%s%r raised %r' % (op, args, ex))
                break
            events.append({'op': op, 'args': args, 'val': val, 'obs': r.obs()})
        return events, err
    finally:
        r.close()


def expected_obs(events):
    model = {n: 'none' for n in NAMES}
    for e in events:
        if e['op'] == 'store':
            model[e['args'][0]] = e['args'][1]
        elif e['op'] == 'store_bulk':
            for a, b in e['args']:
                model[a] = b
        elif e['op'] == 'remove':
            model[e['args'][0]] = 'none'
        elif e['op'] == 'remove_bulk':
            for a in e['args']:
                model[a] = 'none'
    return model


def validate_traces(ctx, traces):
    d = ctx.sub('trace')
    tf = os.path.join(d, 'batch.json')
    with open(tf, 'w') as f:
        json.dump(traces, f)
    vals = set(ALLBYTES)
    mp, cp = tlc.write_mc(d, 'Trace_CacheMap', 'MC_Trace', dict(Addr=set(NAMES), Bytes=vals, MaxBulk=1),
                          spec='TraceSpec', post='TraceAccepted')
    r = tlc.run(mp, cp, d, workers=1, coverage=False, env={'TRACE_FILE': tf}, timeout=3000)
    pr = tlc.find_prints(r.out, 'matched')
    if not pr:
        raise tlc.MachineryError('trace validation: no verdict from TLC\n' + r.out[-2000:])
    mv = pr[-1][1]
    matched = list(mv) if isinstance(mv, tuple) else [mv[k] for k in sorted(mv)]
    rejected = [(i, matched[i]) for i in range(len(traces)) if matched[i] < len(traces[i])]
    return r, rejected


def model_checks(ctx):
    thorough = ctx.tier == 'thorough'
    for f in ('CacheMap.tla', 'SqliteStore.tla', 'FileStore.tla', 'BundleStore.tla'):
        if os.path.exists(os.path.join(tlc.SPEC_DIR, f)):
            tlc.sany(os.path.join(tlc.SPEC_DIR, f))
    # abstract spec (sanity: type, reply)
    d = ctx.sub('mc-cachemap')
    mp, cp = tlc.write_mc(d, 'CacheMap', 'MC_CacheMap', dict(Addr={'a1', 'a2', 'a3'}, Bytes={'b1', 'b2'}, MaxBulk=2),
                          invariants=['TypeOK', 'ReplyOK'])
    r = tlc.run(mp, cp, d)
    if not r.ok:
        raise tlc.MachineryError('CacheMap.tla: %r\n%s' % (r, r.out[-1500:]))
    ctx.add_tlc('CacheMap', r)
    # sqlite family: the code as it is (repaired): keyed with level, per-level groups by level
    coords = {(0, 0, 0), (0, 0, 1), (1, 0, 1)} | ({(0, 0, 2)} if thorough else set())
    for name, per in (('single-file', False), ('per-level', True)):
        d = ctx.sub('mc-sqlite-' + name)
        mp, cp = tlc.write_mc(d, 'SqliteStore', 'MC_Sqlite',
                              dict(Coord=coords, Bytes={'b1', 'b2'}, MaxBulk=2, PerLevel=per, KeyWithLevel=True,
                                   GroupByLevel=True),
                              invariants=['AbsOK', 'UniqueRows', 'ReplyOK'], properties=['Refines'])
        r = tlc.run(mp, cp, d, timeout=3000)
        ctx.log('SqliteStore %s: %r' % (name, r))
        if r.violated:
            ctx.violation({'kind': 'model', 'module': 'SqliteStore', 'config': name, 'property': r.violated},
                          'SqliteStore.tla (%s) violates %s' % (name, r.violated), {'trace': [a for a, _ in r.trace]})
        elif not r.ok:
            raise tlc.MachineryError('SqliteStore.tla: %r\n%s' % (r, r.out[-1500:]))
        else:
            ctx.add_tlc('SqliteStore/' + name, r)
    # file cache: link handling refines the map (per link mode), location functions are injective and equal
    # to what the real path functions compute (binding of FileStore!Loc)
    fcoords = {(0, 0, 1, 0), (1, 0, 1, 0), (0, 0, 1, 1)}
    for link in ('symlink', 'hardlink', 'none'):
        d = ctx.sub('mc-file-' + link)
        mp, cp = tlc.write_mc(d, 'FileStore', 'MC_File',
                              dict(Coord=fcoords, Bytes={'b1', 's1', 's2'}, Layout='tc', LinkMode=link,
                                   MaxBulk=2 if thorough else 1),
                              invariants=['AbsOK', 'ReplyOK', 'LinkTargetsOK', 'NoClashWithLinks'], constraint='MCBound',
                              extra_defs='MCBound == TLCGet("level") <= %d' % (4 if thorough else 5))
        r = tlc.run(mp, cp, d, timeout=3000)
        ctx.log('FileStore %s: %r' % (link, r))
        if r.violated:
            ctx.violation({'kind': 'model', 'module': 'FileStore', 'config': link, 'property': r.violated},
                          'FileStore.tla (%s) violates %s' % (link, r.violated), {'trace': [a for a, _ in r.trace]})
        elif not r.ok:
            raise tlc.MachineryError('FileStore.tla: %r\n%s' % (r, r.out[-1500:]))
        else:
            ctx.add_tlc('FileStore/' + link, r)
    check_locations(ctx)


def _real_loc_numbers(layout, coord, dims):
    """digit groups of the real tile location, in the shape of FileStore!Loc"""
    from mapproxy.cache.file import FileCache
    from mapproxy.cache.tile import Tile
    c = FileCache('/nonexistent/cache', 'png', directory_layout=layout)
    loc = c.tile_location(Tile(coord), dimensions=dims)
    rel = os.path.relpath(loc, '/nonexistent/cache')
    parts = rel.split(os.sep)
    d = 0
    if dims:
        if not parts[0].startswith('time-'):
            return ('dimension directory missing', rel)
        d = 1
        parts = parts[1:]
    parts[-1] = parts[-1].rsplit('.', 1)[0]
    if layout == 'arcgis':
        return (d, int(parts[0][1:]), int(parts[1][1:], 16), int(parts[2][1:], 16))
    if layout == 'quadkey':
        return (d,) + tuple(int(ch) for ch in parts[0])
    return (d,) + tuple(int(x) for x in parts)


def check_locations(ctx):
    edge = [0, 1, 999, 1000, 9999, 10000, 999999, 1000000, 1234567]
    for layout in ('tc', 'mp', 'tms', 'reverse_tms', 'quadkey', 'arcgis'):
        if layout == 'quadkey':
            coords = {(x, y, z, dd) for z in range(0, 4) for x in range(2 ** z) for y in range(2 ** z) for dd in (0, 1)}
            coords |= {(x, y, 21, 0) for x in edge for y in (0, 1000)}
        else:
            coords = {(x, y, z, dd) for x in edge for y in edge for z in (0, 1, 9, 10, 20) for dd in (0, 1)}
        d = ctx.sub('mc-loc-' + layout)
        mp, cp = tlc.write_mc(d, 'FileStore', 'MC_Loc',
                              dict(Coord=coords, Bytes={'b1', 's1'}, Layout=layout, LinkMode='none', MaxBulk=1),
                              spec='LocSpec',
                              extra_defs='ASSUME Injective /\\ DimIdsSmall /\\ NoClashWithLinks\n'
                                         'ASSUME PrintT(<<"loctable", [c \\in MC_Coord |-> Loc(c)]>>)\n'
                                         'VARIABLE dummy\nLocSpec == dummy = 0 /\\ [][UNCHANGED dummy]_dummy')
        r = tlc.run(mp, cp, d, timeout=600, coverage=False, workers=2)
        if 'Assumption' in r.out and 'is false' in r.out:
            ctx.violation({'kind': 'model', 'module': 'FileStore', 'layout': layout, 'property': 'Injective'},
                          'location function of layout %s is not injective in the model' % layout, None)
            continue
        pr = tlc.find_prints(r.out, 'loctable')
        if not pr:
            raise tlc.MachineryError('no location table from TLC for %s: %s' % (layout, r.out[-1500:]))
        table = pr[-1][1]
        ctx.cov['states'] += 1
        ctx.cov['transitions'] += 1
        bad = 0
        for c, loc in table.items():
            real = _real_loc_numbers(layout, (c[0], c[1], c[2]), {'time': 't1'} if c[3] else None)
            ctx.count(('loc', layout, c))
            if tuple(loc) != real:
                bad += 1
                if bad <= 1:
                    ctx.violation({'kind': 'location', 'layout': layout},
                                  'layout %s: tile_location(%s) has digit groups %s, FileStore!Loc says %s' % (
                                      layout, c, real, tuple(loc)), {'layout': layout, 'coord': list(c)})
        ctx.log('layout %s: %d locations compared with the model (%d differ)' % (layout, len(table), bad))


def attack_histories(ctx):
    """Counterexamples of the ORIGINAL sqlite bulk-load logic (dictionary keyed (x, y); level database of
    the first tile with `if not level`), found by TLC on SqliteStore.tla and replayed on the real backends."""
    cases = []
    coords = {(0, 0, 0), (0, 0, 1), (1, 0, 1)}
    for name, per, key, grp in (('single-file-xy-key', False, False, False), ('per-level-first-tile', True, True, False)):
        d = ctx.sub('attack-' + name)
        mp, cp = tlc.write_mc(d, 'SqliteStore', 'MC_Sqlite',
                              dict(Coord=coords, Bytes={'b1', 'b2'}, MaxBulk=2, PerLevel=per, KeyWithLevel=key,
                                   GroupByLevel=grp), invariants=['ReplyOK'])
        r = tlc.run(mp, cp, d, coverage=False, workers=4)
        if r.violated != 'ReplyOK':
            raise tlc.MachineryError('expected ReplyOK to fail for the original %s logic: %r' % (name, r))
        cases.append((name, per, r.trace))
    # plus a hand-picked mixed-level per-level case (levels 1 and 2, same x/y)
    for name, per, trace in cases:
        for b in B.all_backends():
            if per != (b.name in ('sqlite-level', 'geopackage-level')) or b.name.startswith(('file', 'compact')):
                continue
            b.open()
            try:
                c = b.new()
                model = {}
                bad = None
                for act, st in trace[1:]:
                    an, args = parse_action(act)
                    if an == 'Store':
                        co = tuple(args[0]) + (None,)
                        B.op_store(c, co, B.payload(args[1]))
                        model[co] = args[1]
                    elif an == 'StoreBulk':
                        B.op_store_bulk(c, [(tuple(p[0]) + (None,), B.payload(p[1])) for p in args[0]])
                        for p in args[0]:
                            model[tuple(p[0]) + (None,)] = p[1]
                    elif an == 'Remove':
                        co = tuple(args[0]) + (None,)
                        B.op_remove(c, co)
                        model[co] = 'none'
                    elif an == 'LoadBulk':
                        cos = [tuple(x) + (None,) for x in args[0]]
                        got = [B.name_of(x, ALLBYTES) for x in B.op_load_bulk(c, cos)]
                        exp = [model.get(x, 'none') for x in cos]
                        if got != exp:
                            bad = (cos, got, exp)
                B.cleanup(c)
                ctx.count(('attack', name, b.name))
                if bad:
                    cos, got, exp = bad
                    cause = 'level0' if any(x[2] == 0 for x in cos) and len({x[2] for x in cos}) == 1 else 'mixed-level'
                    ctx.violation({'kind': 'bulk-load', 'backend': b.name, 'cause': cause},
                                  '%s: load_tiles(%s) returned %s, latest stores are %s (history found by TLC on the '
                                  'original bulk-load logic)' % (b.name, [x[:3] for x in cos], got, exp),
                                  {'backend': b.name, 'history': [a for a, _ in trace]})
            finally:
                b.close()


def lost_shared_image_case(ctx):
    """File caches that keep single-colour tiles as links: the image the links of one colour point to may go away under them
    (the clean-up looks at every file by itself: the shared image is older than the links).  The tiles of that colour cannot
    be read any more then - and the cache says so: is_cached and load agree, a later store brings them back."""
    for b in B.all_backends(extra=True):
        if not b.links or 'hardlink' in b.name:
            continue
        b.open()
        try:
            c = b.new()
            a1, a2, a3 = (1, 2, 3, None), (2, 2, 3, None), (3, 2, 3, None)
            B.op_store(c, a1, B.payload('s1'))
            B.op_store(c, a2, B.payload('s1'))
            B.op_store(c, a3, B.payload('b1'))
            shared = [os.path.join(r, f) for r, _d, fs in os.walk(os.path.realpath(b.dir)) for f in fs
                      if os.path.basename(r) == 'single_color_tiles']
            if len(shared) != 1:
                raise tlc.MachineryError('%s: expected one shared single-colour image, found %r' % (b.name, shared))
            os.remove(shared[0])
            B.cleanup(c)
            c = b.new()
            got = {a: (B.op_is_cached(c, a), B.op_load(c, a)) for a in (a1, a2, a3)}
            ctx.count(('lost-shared-image', b.name))
            bad = ['%s: is_cached %s, load returns %s' % (list(a[:3]), ic, 'the tile' if v is not None else 'nothing')
                   for a, (ic, v) in sorted(got.items()) if ic != (v is not None)]
            if got[a3] != (True, B.payload('b1')):
                bad.append('the tile of several colours next to them reads %r' % (got[a3],))
            B.op_store(c, a1, B.payload('s1'))
            again = {a: B.op_load(c, a) for a in (a1, a2)}
            if again[a1] != B.payload('s1'):
                bad.append('after a new store of %s it reads %r' % (list(a1[:3]), again[a1]))
            if bad:
                ctx.violation({'kind': 'lost-shared-image', 'backend': b.name},
                              '%s: the shared image of a colour was removed under the links of two tiles: %s' % (b.name, '; '.join(bad)),
                              {'backend': b.name})
            B.cleanup(c)
        finally:
            b.close()


def run(ctx):
    thorough = ctx.tier == 'thorough'
    model_checks(ctx)
    attack_histories(ctx)

    # (R) spec -> code
    d = ctx.sub('sim')
    mp, cp = tlc.write_mc(d, 'CacheMap', 'MC_Sim', dict(Addr=set(NAMES), Bytes=set(BYTES), MaxBulk=3 if thorough else 2))
    prefix = os.path.join(d, 'beh')
    nsim = 60 if thorough else 24
    depth = 24 if thorough else 16
    r = tlc.run(mp, cp, d, workers=1, simulate='file=%s,num=%d' % (prefix, nsim), depth=depth, seed=ctx.seed + 11,
                coverage=False, timeout=1200)
    behs = [beh_ops(b) for f, b in tlc.sim_traces(prefix) if len(b) > 1]
    if not behs:
        raise tlc.MachineryError('no CacheMap behaviours from TLC: ' + r.out[-1500:])
    bks = B.all_backends(extra=True)
    nrep = 0
    for bi, beh in enumerate(behs):
        for b in bks:
            fams = families_for(b)
            fam = fams[(bi + len(b.name)) % len(fams)] if (not thorough or bi % 3) else None
            for family in ([fam] if fam else fams):
                res = replay_behaviour(ctx, b, family, beh)
                if res == 'skip':
                    continue
                nrep += 1
                ctx.cov['replayed_behaviours'] += 1
                ctx.cov['replayed_steps'] += len(beh)
                ctx.count(('replay', b.name, family, bi))
                if res is not None:
                    i, what = res
                    op = beh[i][0]
                    ctx.violation({'kind': 'replay', 'backend': b.name, 'family': family, 'op': op},
                                  '%s/%s: %s' % (b.name, family, what),
                                  {'backend': b.name, 'family': family, 'ops': [(o, a) for o, a, _ in beh], 'failed_at': i})
    ctx.sample({'kind': 'TLC behaviour of CacheMap replayed on every backend', 'ops': [(o, a) for o, a, _ in behs[0]][:12]})
    ctx.log('replayed %d (behaviour, backend, family) combinations' % nrep)

    # (T) code -> spec
    traces, meta = [], []
    nops = 120 if thorough else 40
    reps = 3 if thorough else 1
    for b in bks:
        for family in families_for(b):
            for k in range(reps):
                ev, err = random_history(ctx.rng, b, family, nops)
                ctx.count(('hist', b.name, family, k, len(ev)))
                if err:
                    ctx.violation({'kind': 'exception', 'backend': b.name, 'family': family},
                                  '%s/%s: %s' % (b.name, family, err[1]), {'events': ev})
                if ev:
                    traces.append(ev)
                    meta.append((b.name, family))
    r, rejected = validate_traces(ctx, traces)
    ctx.cov['traces_validated_against_impl'] += len(traces)
    ctx.cov['states'] += r.distinct
    ctx.cov['transitions'] += r.generated
    ctx.sample({'kind': 'history recorded from %s/%s, validated by Trace_CacheMap' % meta[0], 'events': traces[0][:5]})
    for i, upto in rejected:
        e = traces[i][upto]
        bname, family = meta[i]
        ctx.violation({'kind': 'trace-rejected', 'backend': bname, 'family': family, 'op': e['op']},
                      '%s/%s: recorded history is not a behaviour of CacheMap at event %d: %s%r -> %s, map read back %s' % (
                          bname, family, upto, e['op'], e['args'], e['val'], e['obs']),
                      {'backend': bname, 'family': family, 'events': traces[i][:upto + 1]})
    ctx.log('validated %d recorded histories (%d rejected)' % (len(traces), len(rejected)))
    lost_shared_image_case(ctx)
    ctx.assumptions += [
        'a bulk load names every address at most once; a bulk operation carries one set of dimension values',
        'tiles are stored with their encoded bytes unchanged (no format conversion); single-colour tiles of one colour '
        'have identical bytes',
        'backends that need network services (redis, couchdb, s3, azure) are not available offline and not covered',
    ]
    return ctx.finish('model_checking',
                      'TLC: CacheMap and the backend addressing models exhaustively for the stated constants; distinct = '
                      'distinct (behaviour, backend, address family) replays plus distinct recorded histories per backend/family')


def replay(ctx, data):
    case = data.get('case') or {}
    bks = {b.name: b for b in B.all_backends(extra=True)}
    if 'ops' in case:
        res = replay_behaviour(ctx, bks[case['backend']], case['family'], [(o, a, None) for o, a in case['ops']])
        print('replay:', res)
        return 1 if res not in (None, 'skip') else 0
    if 'events' in case:
        r, rejected = validate_traces(ctx, [case['events']])
        print('trace validation:', 'rejected at %r' % rejected if rejected else 'accepted')
        return 1 if rejected else 0
    return 0
