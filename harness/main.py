"""Entry point: ./check <ID> [--tier quick|thorough] [--replay file]"""
import argparse
import importlib
import json
import os
import sys
import traceback

from engine.report import Ctx
from engine.tlc import MachineryError


def main():
    ap = argparse.ArgumentParser()
    ap.add_argument('pid')
    ap.add_argument('--tier', default=os.environ.get('VERIF_TIER', 'quick'), choices=['quick', 'thorough'])
    ap.add_argument('--replay', default=None)
    ap.add_argument('--seed', type=int, default=int(os.environ.get('VERIF_SEED', '0') or 0))
    a = ap.parse_args()
    pid = a.pid.upper()
    try:
        mod = importlib.import_module('harness.%s' % pid.lower())
    except ImportError:
        traceback.print_exc()
        print('no harness for %s' % pid, file=sys.stderr)
        sys.exit(2)
    ctx = Ctx(pid, a.tier, a.seed)
    try:
        if a.replay:
            with open(a.replay) as f:
                data = json.load(f)
            rc = mod.replay(ctx, data)
        else:
            rc = mod.run(ctx)
    except MachineryError as ex:
        ctx.machinery(str(ex))
    except SystemExit:
        raise
    except Exception:
        traceback.print_exc()
        ctx.machinery('harness crashed')
    sys.exit(rc)


if __name__ == '__main__':
    main()
