"""C19 - compact bundles stay structurally valid, defragmentation loses nothing.

spec/Bundle.tla models bundle files V1/V2 at the level of exact file offsets plus defrag_compact_cache;
TLC checks structural validity, contiguity, header bookkeeping, the fragmentation estimate and that
defragmentation preserves every tile and never grows a file.  Binding: TLC behaviours are replayed on the
real CompactCacheV1/V2 + real defrag function and after every operation an independent byte-level parser
(written from the format, not importing compact.py) must find exactly the model's state in the files;
random long histories are recorded with the parsed state and validated by TLC (Trace_Bundle.tla).
"""
import json
import os
import shutil
import struct
import tempfile

from engine import tlc, tla
from harness import backends as B
from harness.c05 import parse_action

SPEC = os.path.join(tlc.SPEC_DIR, 'Bundle.tla')
TRACE_SPEC = os.path.join(tlc.SPEC_DIR, 'trace', 'Trace_Bundle.tla')

LEVEL = 3
BUNDLES = {'B1': (0, 0), 'B2': (128, 0), 'B3': (0, 128)}          # id -> (c, r) offsets
SLOTS = {'s1': (0, 0), 's2': (127, 5), 's3': (5, 127), 's4': (64, 64)}
PAYLOADS = ['b1', 'b2', 'b3']
MASK40 = (1 << 40) - 1
FAR = (1 << 32) + 4096          # "far" worlds: the next record of a bundle lands beyond 4 GiB (a sparse hole before it)


def lens():
    return {p: len(B.payload(p)) for p in PAYLOADS}


def consts(version, bundles, slots, mb=(0, 100), mp=(0,)):
    return dict(Version=version, BundleId=set(bundles), Slot=set(slots),
                Lin={s: SLOTS[s][0] * 128 + SLOTS[s][1] for s in slots},
                Rank={s: SLOTS[s][1] * 128 + SLOTS[s][0] for s in slots},
                Bytes=set(PAYLOADS[:2]), LenOf={p: l for p, l in lens().items() if p in PAYLOADS[:2]},
                MinBytes=set(mb), MinPermille=set(mp))


# ---- independent parser of the on-disk format -----------------------------------------------------------
def bundle_paths(cache_dir, bid):
    c, r = BUNDLES[bid]
    base = os.path.join(cache_dir, 'L%02d' % LEVEL, 'R%04xC%04x' % (r, c))
    return base + '.bundle', base + '.bundlx'


def _records(data, start):
    recs, pos, n = [], start, len(data)
    while pos < n:
        if pos + 4 > n:
            recs.append([pos, -1, 'truncated-size-field'])
            break
        ln = struct.unpack_from('<L', data, pos)[0]
        body = data[pos + 4:pos + 4 + ln]
        name = B.name_of(body, PAYLOADS) if len(body) == ln else 'truncated'
        recs.append([pos, ln, name])
        pos += 4 + ln
    return recs


def _parse_far(bf, o, slots, used, holes):
    """version 2 bundle with sparse holes (start, end) between its records: read around the holes and give every
    offset as it would be without them - the files of the model have no holes"""
    def shift(pos):
        return pos - sum(e - b for b, e in holes if e <= pos)
    size = os.path.getsize(bf)
    with open(bf, 'rb') as f:
        head = f.read(64 + 131072)
        hdr = struct.unpack_from('<4I3Q6I', head, 0)
        o['fsize'], o['hmax'], o['hsize'] = shift(size), hdr[2], shift(hdr[5])
        for y in range(128):
            for x in range(128):
                if (x, y) in used:
                    continue
                val = struct.unpack_from('<Q', head, 64 + (x + 128 * y) * 8)[0]
                if (val & MASK40, val >> 40) != (4, 0):
                    o['foreign'] += 1
        for s in slots:
            x, y = SLOTS[s]
            val = struct.unpack_from('<Q', head, 64 + (x + 128 * y) * 8)[0]
            o['index'][s] = [shift(val & MASK40), val >> 40]
        pos = 64 + 131072
        for b, e in sorted(holes) + [(size, size)]:
            if b > pos:
                f.seek(pos)
                seg = f.read(b - pos)
                for r in _records(seg, 0):
                    o['recs'].append([shift(pos + r[0]), r[1], r[2]])
            pos = max(pos, e)
    o['haveindex'] = True
    return o


def parse_bundle(cache_dir, bid, version, slots, holes=None):
    bf, xf = bundle_paths(cache_dir, bid)
    o = {'present': os.path.exists(bf), 'haveindex': False, 'index': {s: [0, 0] for s in slots}, 'recs': [],
         'fsize': 0, 'hmax': 0, 'hsize': 0, 'hcount': 0, 'foreign': 0}
    used = {SLOTS[s] for s in slots}
    if version == 2 and holes and o['present']:
        return _parse_far(bf, o, slots, used, holes)
    if version == 2:
        if not o['present']:
            return o
        data = open(bf, 'rb').read()
        hdr = struct.unpack_from('<4I3Q6I', data, 0)
        o['fsize'], o['hmax'], o['hsize'] = len(data), hdr[2], hdr[5]
        for y in range(128):
            for x in range(128):
                val = struct.unpack_from('<Q', data, 64 + (x + 128 * y) * 8)[0]
                size, off = val >> 40, val & MASK40
                if (x, y) in used:
                    continue
                if (off, size) != (4, 0):
                    o['foreign'] += 1
        for s in slots:
            x, y = SLOTS[s]
            val = struct.unpack_from('<Q', data, 64 + (x + 128 * y) * 8)[0]
            o['index'][s] = [val & MASK40, val >> 40]
        o['recs'] = _records(data, 64 + 131072)
        o['haveindex'] = True
        return o
    # version 1
    if os.path.exists(xf):
        idx = open(xf, 'rb').read()
        o['haveindex'] = True
        if len(idx) != 16 + 128 * 128 * 5 + 16:
            o['foreign'] += 1
        for x in range(128):
            for y in range(128):
                p = 16 + (x * 128 + y) * 5
                off = struct.unpack('<Q', idx[p:p + 5] + b'\0\0\0')[0]
                if (x, y) in used:
                    continue
                if off != 60 + 4 * (x * 128 + y):
                    o['foreign'] += 1
        for s in slots:
            x, y = SLOTS[s]
            p = 16 + (x * 128 + y) * 5
            o['index'][s] = [struct.unpack('<Q', idx[p:p + 5] + b'\0\0\0')[0], 0]
    else:
        o['index'] = {s: [60 + 4 * (SLOTS[s][0] * 128 + SLOTS[s][1]), 0] for s in slots}
    if o['present']:
        data = open(bf, 'rb').read()
        hdr = struct.unpack_from('<4I3Q5I', data, 0)
        o['fsize'], o['hmax'], o['hcount'], o['hsize'] = len(data), hdr[2], hdr[4], hdr[5]
        if any(data[60:60 + 65536]):
            o['foreign'] += 1
        o['recs'] = _records(data, 60 + 65536)
    return o


def structurally_valid(o, version, slots):
    """the property itself, evaluated on the parsed files (independent of the model)"""
    if not o['present']:
        return None
    starts = {r[0]: r for r in o['recs']}
    for r in o['recs']:
        if r[1] < 0 or r[2].startswith('truncated'):
            return 'record at %d is incomplete' % r[0]
    for s in slots:
        off, size = o['index'][s]
        if version == 2:
            if size == 0:
                continue
            r = starts.get(off - 4)
            if r is None or r[1] != size or off + size > o['fsize']:
                return 'index entry of %s (offset %d, size %d) does not point at a complete record of that size' % (s, off, size)
        else:
            if off == 0 or off < 60 + 65536:
                continue
            r = starts.get(off)
            if r is None or off + 4 + r[1] > o['fsize']:
                return 'index entry of %s (offset %d) does not point at a complete record' % (s, off)
    return None


# ---- the real cache ------------------------------------------------------------------------------------
class World(object):
    def __init__(self, version, bundles, slots, far=False):
        from mapproxy.cache.compact import CompactCacheV1, CompactCacheV2
        self.version, self.bundles, self.slots = version, list(bundles), list(slots)
        self.far = bool(far) and version == 2
        self.holes = {b: [] for b in bundles}
        self.dir = tempfile.mkdtemp(prefix='verif-c19-')
        self.cache_dir = os.path.join(self.dir, 'c')
        self.cls = CompactCacheV1 if version == 1 else CompactCacheV2
        self.cache = self.cls(self.cache_dir)

    def close(self):
        shutil.rmtree(self.dir, ignore_errors=True)

    def addr(self, b, s):
        c, r = BUNDLES[b]
        x, y = SLOTS[s]
        return (c + x, r + y, LEVEL, None)

    def _make_far(self, b):
        """a bundle that has grown past 4 GiB (years of overwrites without defragmentation): a sparse hole stands for
        the dead records, the file size field of the header is moved along"""
        bf, _ = bundle_paths(self.cache_dir, b)
        if not os.path.exists(bf):
            return
        size = os.path.getsize(bf)
        if size >= FAR:
            return
        os.truncate(bf, FAR)
        with open(bf, 'r+b') as f:
            f.seek(24)
            f.write(struct.pack('<Q', FAR))
        self.holes[b].append((size, FAR))

    def store(self, b, ps):
        if self.far:
            self._make_far(b)
        pairs = [(self.addr(b, s), B.payload(d)) for s, d in ps]
        if len(pairs) == 1:
            B.op_store(self.cache, pairs[0][0], pairs[0][1])
        else:
            B.op_store_bulk(self.cache, pairs)

    def remove(self, b, s):
        B.op_remove(self.cache, self.addr(b, s))

    def load(self, b, s):
        return B.name_of(B.op_load(self.cls(self.cache_dir), self.addr(b, s)), PAYLOADS)

    def tiles(self):
        """every address read through a fresh cache object - on a COPY of the directory, because a V1 load can
        create an (empty) bundle file and the projection must not change what it observes"""
        if self.far:
            # (4 GiB sparse files are not copied; a load of the version 2 format creates nothing)
            c = self.cls(self.cache_dir)
            return {(b, s): B.name_of(B.op_load(c, self.addr(b, s)), PAYLOADS) for b in self.bundles for s in self.slots}
        snap = self.dir + '-snap'
        shutil.rmtree(snap, ignore_errors=True)
        if os.path.exists(self.cache_dir):
            shutil.copytree(self.cache_dir, snap)
        try:
            c = self.cls(snap)
            return {(b, s): B.name_of(B.op_load(c, self.addr(b, s)), PAYLOADS) for b in self.bundles for s in self.slots}
        finally:
            shutil.rmtree(snap, ignore_errors=True)

    def defrag(self, mb, mp):
        from mapproxy.script.defrag import defrag_compact_cache
        defrag_compact_cache(self.cls(self.cache_dir), min_percent=mp / 1000.0, min_bytes=mb)
        if self.far:
            # a bundle that was rewritten has no holes any more
            for b in self.bundles:
                bf, _ = bundle_paths(self.cache_dir, b)
                if not os.path.exists(bf) or os.path.getsize(bf) < FAR:
                    self.holes[b] = []

    def obs(self):
        return {b: parse_bundle(self.cache_dir, b, self.version, self.slots, holes=self.holes[b]) for b in self.bundles}

    def leftovers(self):
        out = []
        for root, ds, fs in os.walk(self.cache_dir):
            for f in fs:
                if not (f.endswith('.bundle') or f.endswith('.bundlx')) or f.startswith('tmp_defrag'):
                    out.append(os.path.join(root, f))
        return out


def compare(state, obs, version, slots):
    """model state (parsed TLC state) vs parsed files; returns None or text"""
    for b, o in obs.items():
        if bool(state['present'][b]) != o['present']:
            return '%s: present model=%s files=%s' % (b, state['present'][b], o['present'])
        if bool(state['haveidx'][b]) != o['haveindex']:
            return '%s: index file present model=%s files=%s' % (b, state['haveidx'][b], o['haveindex'])
        idx = {s: list(state['index'][b][s]) for s in slots}
        if (o['present'] or o['haveindex']) and idx != o['index']:
            return '%s: index model=%s files=%s' % (b, idx, o['index'])
        if o['foreign']:
            return '%s: %d index entries outside the slots in use were modified' % (b, o['foreign'])
        if not o['present']:
            continue
        recs = [list(r) for r in state['recs'][b]]
        recs = [[r[0], r[1], str(r[2])] for r in recs]
        if recs != o['recs']:
            return '%s: records model=%s files=%s' % (b, recs, o['recs'])
        for k, mk in (('fsize', 'fsize'), ('hmax', 'hmax'), ('hsize', 'hsize')) + ((('hcount', 'hcount'),) if version == 1 else ()):
            if state[mk][b] != o[k]:
                return '%s: %s model=%s files=%s' % (b, k, state[mk][b], o[k])
    return None


def replay_behaviour(ctx, version, bundles, slots, beh, far=False):
    w = World(version, bundles, slots, far=far)
    try:
        for i, (act, st) in enumerate(beh[1:]):
            op = str(st['reply']['op'])
            a = st['reply']['args']
            if op == 'store':
                name, args = 'StoreBulk', (a[0], a[1])
            else:
                name, args = {'remove': 'Remove', 'load': 'Load', 'defrag': 'Defrag'}[op], tuple(a)
            act = '%s%s' % (name, tla.jsonable(args))
            before_tiles = w.tiles() if name == 'Defrag' else None
            before_sizes = {b: o['fsize'] for b, o in w.obs().items()} if name == 'Defrag' else None
            if name == 'StoreBulk':
                w.store(args[0], [tuple(p) for p in args[1]])
            elif name == 'Remove':
                w.remove(args[0], args[1])
            elif name == 'Load':
                got = w.load(args[0], args[1])
                if got != str(st['reply']['val'][0]):
                    return i, 'load(%s,%s) returned %s, model %s' % (args[0], args[1], got, st['reply']['val'][0])
            elif name == 'Defrag':
                w.defrag(args[0], args[1])
            obs = w.obs()
            for b, o in obs.items():
                why = structurally_valid(o, version, slots)
                if why:
                    return i, 'after %s: bundle %s structurally invalid: %s' % (act, b, why)
            if name == 'Defrag':
                after = w.tiles()
                if after != before_tiles:
                    return i, 'defrag changed tiles: %s -> %s' % (before_tiles, after)
                for b, o in obs.items():
                    if o['present'] and o['fsize'] > before_sizes[b]:
                        return i, 'defrag grew bundle %s from %d to %d bytes' % (b, before_sizes[b], o['fsize'])
                lo = w.leftovers()
                if lo:
                    return i, 'defrag left files behind: %s' % lo
            tiles = w.tiles()
            exp = {(b, s): str(st['store'][(b, s)]) for b in bundles for s in slots}
            if tiles != exp:
                return i, 'after %s: tiles %s, abstract map %s' % (act, tiles, exp)
            diff = compare(st, obs, version, slots)
            if diff:
                return i, 'after %s: %s' % (act, diff)
        return None
    finally:
        w.close()


def random_history(rng, version, bundles, slots, nops, far=False):
    w = World(version, bundles, slots, far=far)
    ev = []
    problem = None
    try:
        for i in range(nops):
            k = rng.random()
            b = rng.choice(bundles)
            if k < 0.45:
                n = 1 if rng.random() < 0.6 else rng.randint(2, 3)
                ps = [[rng.choice(slots), rng.choice(PAYLOADS[:2])] for _ in range(n)]
                w.store(b, [tuple(p) for p in ps])
                e = {'op': 'store', 'b': b, 'ps': ps}
            elif k < 0.65:
                s = rng.choice(slots)
                w.remove(b, s)
                e = {'op': 'remove', 'b': b, 's': s}
            elif k < 0.85:
                s = rng.choice(slots)
                e = {'op': 'load', 'b': b, 's': s, 'val': w.load(b, s)}
            else:
                mb, mp = rng.choice([0, 100, 500]), rng.choice([0, 1, 3])
                if far:
                    mb = mp = 0       # (the thresholds look at real file sizes: with the hole every bundle is "fragmented")
                before, sizes = w.tiles(), {bb: o['fsize'] for bb, o in w.obs().items()}
                w.defrag(mb, mp)
                after = w.tiles()
                if after != before:
                    problem = (i, 'defrag changed tiles: %s -> %s' % (before, after))
                for bb, o in w.obs().items():
                    if o['present'] and o['fsize'] > sizes[bb]:
                        problem = (i, 'defrag grew bundle %s' % bb)
                e = {'op': 'defrag', 'mb': mb, 'mp': mp}
            e['obs'] = w.obs()
            for bb, o in e['obs'].items():
                why = structurally_valid(o, version, slots)
                if why and not problem:
                    problem = (i, 'bundle %s structurally invalid after %s: %s' % (bb, e['op'], why))
            ev.append(e)
            if problem:
                break
        return ev, problem
    finally:
        w.close()


def validate(ctx, name, version, bundles, slots, traces):
    d = ctx.sub('trace-' + name)
    tf = os.path.join(d, 'batch.json')
    with open(tf, 'w') as f:
        json.dump(traces, f)
    c = consts(version, bundles, slots, mb=(0, 100, 500), mp=(0, 1, 3))
    mp, cp = tlc.write_mc(d, 'Trace_Bundle', 'MC_TB', c, spec='TraceSpec', post='TraceAccepted',
                          invariants=['StructurallyValid', 'RecordsContiguous', 'AbsOK', 'HeaderOK', 'EstimateOK'],
                          properties=['DefragPreserves'])
    r = tlc.run(mp, cp, d, workers=1, coverage=False, env={'TRACE_FILE': tf}, timeout=3000)
    pr = tlc.find_prints(r.out, 'matched')
    if r.violated and r.violated != 'postcondition' and r.trace:
        st = r.trace[-1][1]
        return r, [(st['tid'] - 1, st['l'] - 1, 'invariant %s violated on the recorded execution' % r.violated)]
    if not pr:
        raise tlc.MachineryError('trace validation %s: no verdict\n%s' % (name, r.out[-1500:]))
    mv = pr[-1][1]
    matched = list(mv) if isinstance(mv, tuple) else [mv[k] for k in sorted(mv)]
    return r, [(i, matched[i], 'not a behaviour of Bundle.tla') for i in range(len(traces)) if matched[i] < len(traces[i])]


def run(ctx):
    thorough = ctx.tier == 'thorough'
    tlc.sany(SPEC)
    invs = ['StructurallyValid', 'RecordsContiguous', 'AbsOK', 'HeaderOK', 'EstimateOK']
    # (M)
    plans = [(1, ['B1'], ['s1', 's2'], 6 if thorough else 5), (2, ['B1'], ['s1', 's2'], 6 if thorough else 5),
             (2, ['B1', 'B2'], ['s1', 's2'], 4)]
    if thorough:
        plans.append((1, ['B1', 'B2'], ['s1', 's2'], 4))
    for v, bs, ss, depth in plans:
        d = ctx.sub('mc-v%d-%d' % (v, len(bs)))
        mp, cp = tlc.write_mc(d, 'Bundle', 'MC_Bundle', consts(v, bs, ss), spec='SpecMC', invariants=invs,
                              properties=['DefragPreserves'], constraint='MCBound',
                              extra_defs='MCBound == TLCGet("level") <= %d' % depth)
        r = tlc.run(mp, cp, d, timeout=3000)
        ctx.log('Bundle v%d %s depth %d: %r' % (v, bs, depth, r))
        if r.violated:
            ctx.violation({'kind': 'model', 'version': v, 'property': r.violated},
                          'Bundle.tla (v%d) violates %s' % (v, r.violated), {'trace': [a for a, _ in r.trace]})
            continue
        if not r.ok:
            raise tlc.MachineryError('Bundle.tla: %r %s' % (r, r.out[-1200:]))
        for a in ('StoreBulk', 'Remove', 'DefragMC'):
            if r.coverage.get(a, (0, 0))[0] == 0:
                raise tlc.MachineryError('vacuity: %s never taken' % a)
        ctx.add_tlc('Bundle/v%d/%d-bundles' % (v, len(bs)), r)

    # (R) spec -> code; "far": version 2 bundles whose records lie beyond 4 GiB (the index keeps 40-bit offsets)
    for v, far in ((1, False), (2, False), (2, True)):
        bs, ss = ['B1', 'B2'], ['s1', 's2', 's3']
        d = ctx.sub('sim-v%d%s' % (v, '-far' if far else ''))
        mp, cp = tlc.write_mc(d, 'Bundle', 'MC_Sim', consts(v, bs, ss, mb=(0, 100) if not far else (0,), mp=(0, 1) if not far else (0,)))
        prefix = os.path.join(d, 'beh')
        n = (150 if thorough else 30) if not far else (60 if thorough else 15)
        r = tlc.run(mp, cp, d, workers=1, simulate='file=%s,num=%d' % (prefix, n), depth=25 if thorough else 14,
                    seed=ctx.seed + 5, coverage=False, timeout=1200)
        k = 0
        for f, beh in tlc.sim_traces(prefix):
            if len(beh) < 2:
                continue
            k += 1
            res = replay_behaviour(ctx, v, bs, ss, beh, far=far)
            ctx.cov['replayed_behaviours'] += 1
            ctx.cov['replayed_steps'] += len(beh) - 1
            ctx.count(('replay', v, far, tuple(a for a, _ in beh)))
            if k == 1:
                ctx.sample({'kind': 'TLC behaviour replayed on CompactCacheV%d, files parsed after each step' % v,
                            'actions': [a for a, _ in beh[1:]][:10]})
            if res:
                i, what = res
                act = str(beh[i + 1][1]['reply']['op'])
                ctx.violation({'kind': 'replay', 'version': v, 'op': act}, 'compact v%d%s: %s' % (v, ' (bundle beyond 4 GiB)' if far else '', what),
                              {'version': v, 'far': far, 'behaviour': [a for a, _ in beh], 'failed_at': i})
                break
        if k == 0:
            raise tlc.MachineryError('no behaviours for v%d: %s' % (v, r.out[-1000:]))
        ctx.log('v%d%s: replayed %d behaviours' % (v, ' far' if far else '', k))

    # (T) code -> spec
    for v, far in ((1, False), (2, False), (2, True)):
        bs, ss = ['B1', 'B2', 'B3'], ['s1', 's2', 's3', 's4']
        traces = []
        for i in range((40 if thorough else 8) if not far else (16 if thorough else 5)):
            ev, problem = random_history(ctx.rng, v, bs, ss, 80 if thorough else 30, far=far)
            ctx.count(('hist', v, far, i, len(ev)))
            if problem:
                ctx.violation({'kind': 'property-on-files', 'version': v, 'op': ev[-1]['op']},
                              'compact v%d: %s' % (v, problem[1]), {'version': v, 'events': ev})
            traces.append(ev)
        r, rejected = validate(ctx, 'v%d%s' % (v, '-far' if far else ''), v, bs, ss, traces)
        ctx.cov['traces_validated_against_impl'] += len(traces)
        ctx.cov['states'] += r.distinct
        ctx.cov['transitions'] += r.generated
        ctx.sample({'kind': 'recorded history of CompactCacheV%d with parsed file state' % v,
                    'events': [{k: e[k] for k in e if k != 'obs'} for e in traces[0][:8]]})
        for i, upto, why in rejected:
            e = traces[i][min(upto, len(traces[i]) - 1)]
            ctx.violation({'kind': 'trace-rejected', 'version': v, 'op': e['op']},
                          'compact v%d: recorded history %s at event %d (%s)' % (v, why, upto, {k: e[k] for k in e if k != 'obs'}),
                          {'version': v, 'events': traces[i][:upto + 1]})
        ctx.log('v%d: validated %d histories (%d rejected)' % (v, len(traces), len(rejected)))
    ctx.assumptions += ['single writer at a time (writers are serialised by the bundle lock, see C07)',
                        'payload lengths are those of the harness PNGs; defrag thresholds from a small set',
                        'bundles beyond 4 GiB (version 2): the dead records are a sparse hole that the harness makes before a store, the parser '
                        'reads around it and reports offsets as they would be without it; thresholds 0/0 only']
    return ctx.finish('model_checking',
                      'TLC: all store/overwrite/remove/defrag histories up to the stated depth over 1-2 bundles x 2 slots x 2 '
                      'payloads, both formats; distinct = distinct TLC behaviours replayed with byte-level state comparison plus '
                      'distinct recorded histories validated by TLC')


def replay(ctx, data):
    case = data.get('case') or {}
    if 'events' in case:
        v = case['version']
        r, rejected = validate(ctx, 'replay', v, ['B1', 'B2', 'B3'], ['s1', 's2', 's3', 's4'], [case['events']])
        print('trace validation:', rejected or 'accepted')
        return 1 if rejected else 0
    print('behaviour replays need TLC states; rerun ./check C19')
    return 0
