"""C17 - upstream servers are only asked for what they are configured to support.

spec/Source.tla models the way from "a map query reaches a source" (WMS GetMap through WMSServer.map /
LayerRenderer.combined_layers, or get_map of one source called by a tile manager) to the URLs handed to the
HTTP client: resolution gate, coverage gate, format and SRS negotiation (codes of equal SRS, preferred-SRS rules),
sub-query limited to the coverage extent, dimension forwarding, combination of WMS sources, tile lookup in the
source grid.  TLC checks the seven statements of the property on the model for a catalogue of source
configurations x queries on an integer lattice (plus reprojected queries whose geometric relation to the source
is a fact established by a pyproj oracle), and exports the table of all cases with the planned requests; every
case is executed on the real sources (built by the configuration loader) or through the real WSGI application
with a recording HTTP client (spec -> code).  Random requests through the WSGI application (WMS GetMap on direct
and cached layers, TMS tiles; lattice world and a reprojected world) are recorded at LayerRenderer / get_map /
HTTPClient.open and validated by TLC against spec/trace/Trace_Source.tla with all invariants (code -> spec).
"""
import io
import json
import logging
import math
import os
import re
import shutil
from urllib.parse import urlsplit, parse_qsl

from engine import tlc, tla

SPEC = os.path.join(tlc.SPEC_DIR, 'Source.tla')
TRACE_SPEC = os.path.join(tlc.SPEC_DIR, 'trace', 'Trace_Source.tla')

PROPERTY_INVARIANTS = ['SrsSupported', 'FormatSupported', 'BBoxInsideExtent', 'OnlyForwardedDims', 'TileInGrid',
                       'NoContactWhenDisjoint', 'NoContactOutOfRange']
MODEL_INVARIANTS = ['TypeOK', 'ExactIsExact', 'PlanOK']
ACTIONS = ['DoMapRequest', 'DoCall', 'FilterLayers', 'Combine', 'StartUnit', 'TileCheck', 'ResGate', 'CovGate',
           'Negotiate', 'Extent', 'TileGet', 'Done']

SRS_CLASS = {'EPSG:3857': 'merc', 'EPSG:900913': 'merc', 'EPSG:4326': 'll', 'EPSG:25832': 'utm32',
             'EPSG:25833': 'utm33', 'EPSG:31467': 'gk3'}
CANON = {'merc': 'EPSG:3857', 'll': 'EPSG:4326', 'utm32': 'EPSG:25832', 'utm33': 'EPSG:25833', 'gk3': 'EPSG:31467'}
LATLONG = {'EPSG:4326'}
# globals.srs.preferred_src_proj of the test configuration
PREFERRED = {'EPSG:3857': ('EPSG:31467', 'EPSG:4326'),
             'EPSG:4326': ('EPSG:900913', 'EPSG:25832'),
             'EPSG:31467': ('EPSG:25833', 'EPSG:25832')}
DIMLIKE = {'time', 'elevation', 'dim_x', 'dim_time'}      # (dim_time: no source forwards it - not the same parameter as time)
WMS_KEYS = {'layers', 'styles', 'srs', 'crs', 'bbox', 'width', 'height', 'format', 'request', 'service', 'version',
            'transparent', 'exceptions', 'bgcolor'}
UNKNOWN4 = [0, 0, 0, 0]

# the model variants: FALSE = the code as it was found
FLAGS = ['CombineChecksRes', 'BestSrsFromList', 'CombineChecksCodes']


# ---------------------------------------------------------------------------------------------
# catalogue of source configurations: described once, rendered as constants of the model and as
# MapProxy configuration
# ---------------------------------------------------------------------------------------------
class Cfg(object):
    def __init__(self, sid, kind='wms', host='h1', srs=(), fmts=(), ofmt='', cov=None, minres=0, maxres=0, fwd=(),
                 opq=False, grid=None, lattice=True, base=None):
        self.sid = sid
        self.kind = kind
        self.host = host
        self.srs = tuple(srs)
        self.fmts = tuple(fmts)
        self.ofmt = ofmt
        self.cov = cov            # (srs code, bbox) or (srs code, bbox, hole): the bbox without the (open) hole, or None
        self.minres = minres
        self.maxres = maxres
        self.fwd = frozenset(fwd)
        self.opq = opq
        self.grid = grid          # dict(srs, bbox, res, ts, ul) for tile sources
        self.lattice = lattice
        self.base = base or sid   # name of the configured source this object is an instance of

    def record(self):
        """the constant record of the model"""
        cov = {'on': bool(self.cov), 'srs': self.cov[0] if self.cov else '',
               'bbox': tuple(self.cov[1]) if self.cov and self.lattice else (0, 0, 0, 0),
               'hole': tuple(self.cov[2]) if self.cov and len(self.cov) > 2 and self.lattice else (0, 0, 0, 0)}
        g = self.grid or dict(srs='', bbox=(0, 0, 0, 0), res=(1,), ts=(1, 1), ul=False)
        flag = (lambda v: v) if self.lattice else (lambda v: 1 if v else 0)
        return {'kind': self.kind, 'host': self.host, 'srs': self.srs, 'fmts': self.fmts, 'ofmt': self.ofmt,
                'cov': cov, 'minres': flag(self.minres), 'maxres': flag(self.maxres), 'fwd': set(self.fwd),
                'opq': self.opq, 'lattice': self.lattice,
                'grid': {'srs': g['srs'], 'bbox': tuple(g['bbox']), 'res': tuple(g['res']), 'ts': tuple(g['ts']),
                         'ul': bool(g['ul'])}}

    def conf(self, grid_name=None):
        if self.kind == 'tile':
            # (the bounding box goes along: it has to be that of the tile, also where the tile reaches beyond the grid extent)
            c = {'type': 'tile', 'url': 'http://%s/%%(z)s/%%(x)s/%%(y)s.png?b=%%(bbox)s' % self.host, 'grid': grid_name}
        else:
            req = {'url': 'http://%s/service' % self.host, 'layers': self.base, 'transparent': True}
            if self.ofmt:
                req['format'] = 'image/' + self.ofmt
            c = {'type': 'wms', 'req': req}
            if self.srs:
                c['supported_srs'] = list(self.srs)
            if self.fmts:
                c['supported_formats'] = ['image/' + f for f in self.fmts]
            if self.fwd:
                c['forward_req_params'] = sorted(self.fwd)
            if self.opq:
                c['image'] = {'opacity': 0.5}
        if self.cov:
            c['coverage'] = {'bbox': list(self.cov[1]), 'srs': self.cov[0]}
            if len(self.cov) > 2:
                # a coverage that is not a rectangle: its extent is still the bounding box
                c['coverage'] = {'difference': [{'bbox': list(self.cov[1]), 'srs': self.cov[0]},
                                                {'bbox': list(self.cov[2]), 'srs': self.cov[0]}]}
        if self.minres:
            c['min_res'] = self.minres
        if self.maxres:
            c['max_res'] = self.maxres
        return c


M, A = 'EPSG:3857', 'EPSG:900913'
COV_A = (M, (100, 60, 500, 420))
COV_A2 = (A, (100, 60, 500, 420))
COV_B = (A, (130, 90, 370, 250))
COV_C = (M, (0, 0, 640, 640))
COV_D = (M, (-200, -200, 90, 90))
COV_RING = (M, (100, 60, 500, 420), (180, 140, 420, 340))

G_S = dict(srs=M, bbox=(0, 0, 640, 640), res=(80, 40, 20), ts=(4, 4), ul=False)
G_UL = dict(srs=M, bbox=(0, 0, 640, 400), res=(80, 40, 20), ts=(4, 4), ul=True)
G_FLOOR = dict(srs=M, bbox=(0, 0, 650, 650), res=(80, 40, 20), ts=(4, 4), ul=False)
G_ALIAS = dict(srs=A, bbox=(0, 0, 640, 640), res=(80, 40, 20), ts=(4, 4), ul=False)
G_RECT = dict(srs=M, bbox=(0, 0, 960, 320), res=(160, 80, 40), ts=(3, 2), ul=False)


def lattice_sources():
    s = [
        Cfg('w01'),
        Cfg('w02', srs=(M,), fmts=('png',), cov=COV_A, fwd=('time',)),
        Cfg('w03', srs=(A,), fmts=('jpeg', 'png'), cov=COV_B, minres=40, fwd=('time', 'dim_x')),
        Cfg('w04', srs=('EPSG:4326', A), fmts=('jpeg',), ofmt='png', cov=COV_A, maxres=40, fwd=('elevation', 'foo')),
        Cfg('w05', srs=('EPSG:25832', M, A), ofmt='jpeg', minres=80, maxres=20),
        Cfg('w06', srs=('EPSG:25832', 'EPSG:4326'), fmts=('png',), fwd=('time',)),
        Cfg('w07', srs=(M,), fmts=('jpeg', 'png'), ofmt='jpeg', cov=COV_C, minres=80, fwd=('foo',)),
        Cfg('w08', fmts=('jpeg',), cov=COV_B, fwd=('dim_x',)),
        Cfg('w09', srs=(A, M), fmts=('png', 'jpeg'), ofmt='png', cov=COV_D, maxres=20),
        Cfg('w10', srs=(M,), fmts=('png',), cov=COV_RING, fwd=('time',)),
        Cfg('w11', cov=COV_RING, minres=80),
        # one upstream server (h2) offering several layers: what combined_layers may merge
        Cfg('k01', host='h2', srs=(M,), minres=40),
        Cfg('k02', host='h2', srs=(M,), maxres=40),
        Cfg('k03', host='h2', srs=(M,)),
        Cfg('k04', host='h2', srs=(A,)),
        Cfg('k05', host='h2', srs=(M,), cov=COV_A),
        Cfg('k06', host='h2', srs=(M,), cov=COV_A, fwd=('time',)),
        Cfg('k07', host='h2', srs=(M,), fmts=('png',)),
        Cfg('k08', host='h2', srs=(M,), opq=True),
        Cfg('k09', host='h3', srs=(M,)),
        Cfg('k10', host='h2', srs=(M,), cov=COV_A2),
        Cfg('k11', host='h2', srs=(M,), minres=80, maxres=20),
        Cfg('k12', host='h2', srs=(M,), fwd=('time',)),
        Cfg('k13', host='h2', srs=(M,), cov=COV_B),
        Cfg('k14', host='h2', srs=(M,), maxres=80),
        # tile upstreams
        Cfg('t01', kind='tile', host='t01', grid=G_S),
        Cfg('t02', kind='tile', host='t02', grid=G_UL, cov=(M, (100, 60, 500, 300))),
        Cfg('t03', kind='tile', host='t03', grid=G_FLOOR, maxres=40),
        Cfg('t04', kind='tile', host='t04', grid=G_ALIAS, minres=40, cov=COV_B),
        Cfg('t05', kind='tile', host='t05', grid=G_RECT),
    ]
    return s


GROUPS = {
    'p01': ('k01', 'k02'), 'p02': ('k02', 'k01'), 'p03': ('k01', 'k03'), 'p04': ('k03', 'k04'), 'p05': ('k04', 'k03'),
    'p06': ('k05', 'k06'), 'p07': ('k05', 'k10'), 'p08': ('k03', 'k07'), 'p09': ('k03', 'k08'), 'p10': ('k03', 'k09'),
    'p11': ('k01', 'k11'), 'p12': ('k03', 'k12'), 'p13': ('k12', 'k06'), 'p14': ('k01', 'k03', 'k02'),
    'p15': ('k03', 'k09', 'k03'), 'p16': ('k05', 'k13'), 'p17': ('k14', 'k11', 'k02'), 'p18': ('w02', 'w03'),
    'p19': ('w01', 'k03'), 'p20': ('k03', 'k08', 'w08'),
}

# reprojected ("geo") world: real-world coordinates, relations established by the oracle
GEO_COV = ('EPSG:4326', (6.0, 47.0, 14.0, 54.0))
GEO_COV_UTM = ('EPSG:25832', (300000.0, 5300000.0, 800000.0, 5900000.0))


def geo_sources():
    return [
        Cfg('g01', host='h4', srs=(M, 'EPSG:25832'), fmts=('png',), cov=GEO_COV, minres=2000, maxres=50,
            fwd=('time',), lattice=False),
        Cfg('g02', host='h4', srs=('EPSG:4326',), fmts=('jpeg', 'png'), ofmt='jpeg', lattice=False),
        Cfg('g03', host='h4', srs=('EPSG:25832', 'EPSG:31467'), cov=GEO_COV_UTM, fwd=('elevation', 'foo'),
            lattice=False),
        Cfg('g04', host='h4', srs=(A,), fmts=('png',), cov=GEO_COV, lattice=False),
        Cfg('g05', host='h4', srs=('EPSG:25833', 'EPSG:4326', M), minres=2000, lattice=False),
        Cfg('g06', host='h4', cov=GEO_COV_UTM, maxres=50, fwd=('dim_x',), lattice=False),
    ]


def with_singletons(sources, groups):
    g = dict(groups)
    for c in sources:
        if c.kind == 'wms':
            g['s' + c.sid] = (c.sid,)
    return g


# ---------------------------------------------------------------------------------------------
# query universes (rendered as TLA+ set expressions)
# ---------------------------------------------------------------------------------------------
def lattice_geos(tier):
    """<<x0, y0, w, h, rx, ry>>: bbox = x0, y0, x0 + w rx, y0 + h ry; size = w, h"""
    thorough = tier == 'thorough'
    xs = [-80, 0, 93, 100, 127, 260, 417, 500, 560] if thorough else [-80, 93, 100, 260, 417, 500, 560]
    ys = [-40, 60, 91, 250, 417, 430] if thorough else [-40, 60, 91, 250, 417]
    geos = set()
    for rx in (10, 20, 40, 80):
        for x in xs:
            for y in ys:
                geos.add((x, y, 4, 4, rx, rx))
    for x in ((-80, 93, 260, 417) if thorough else (-80, 260, 417)):
        for y in ((-40, 91, 417) if thorough else (-40, 417)):
            geos.add((x, y, 7, 5, 20, 20))
            geos.add((x, y, 5, 7, 40, 40))
            geos.add((x, y, 4, 4, 40, 20))      # non-square pixels: the `or` of the resolution gate
            geos.add((x, y, 4, 4, 20, 80))
            geos.add((x, y, 6, 6, 39, 41))
            geos.add((x, y, 3, 3, 81, 81))
            geos.add((x, y, 8, 8, 19, 19))
    # slivers: overlap with a coverage thinner than a pixel
    for g in [(20, 100, 4, 4, 20, 20), (60, 100, 4, 4, 20, 20), (99, 100, 4, 4, 80, 80), (495, 100, 4, 4, 40, 40),
              (120, 415, 4, 4, 40, 40), (120, 20, 4, 4, 10, 10), (85, 75, 4, 4, 5, 5), (-280, -280, 4, 4, 80, 80)]:
        geos.add(g)
    if thorough:
        for rx in (10, 20, 40, 80):
            for x in range(-80, 600, 37):
                for y in range(-60, 460, 53):
                    geos.add((x, y, 6, 5, rx, rx))
    return sorted(geos)


def small_geos():
    return [(0, 0, 4, 4, 20, 20), (93, 91, 7, 5, 40, 40), (260, 250, 4, 4, 80, 80), (417, 60, 4, 4, 10, 10),
            (-80, -40, 6, 6, 39, 41), (127, 91, 4, 4, 40, 40)]


def map_geos():
    return [(0, 0, 8, 8, 20, 20), (0, 0, 8, 8, 40, 40), (0, 0, 8, 8, 80, 80), (93, 91, 7, 5, 40, 40),
            (260, 250, 4, 4, 10, 10), (417, 60, 6, 6, 160, 160), (-80, -40, 6, 6, 39, 41), (560, 430, 4, 4, 20, 20),
            (99, 100, 4, 4, 80, 80), (127, 91, 5, 5, 20, 80)]


QUERY_GRIDS = [   # the grids of the caches in front of the tile sources: (bbox, res list, tile size)
    ((0, 0, 640, 640), (80, 40, 20), (4, 4)),
    ((0, 0, 1280, 1280), (80, 40, 20), (4, 4)),
    ((0, 0, 640, 400), (80, 40, 20), (4, 4)),
    ((-79, -79, 561, 561), (80, 20), (4, 4)),
    ((1, 1, 641, 641), (40,), (4, 4)),
    ((0, 0, 640, 640), (30, 22, 19, 10), (4, 4)),
    ((0, 0, 1600, 1600), (400, 200), (4, 4)),
    ((0, 0, 640, 640), (40,), (8, 8)),
    ((0, 0, 960, 320), (160, 80, 40), (3, 2)),
    ((0, 0, 960, 640), (80, 40), (3, 2)),
]


def tile_geos(tier):
    geos = set()
    for bbox, ress, ts in QUERY_GRIDS:
        W, H = bbox[2] - bbox[0], bbox[3] - bbox[1]
        for r in ress:
            nx = -(-W // (r * ts[0]))
            ny = -(-H // (r * ts[1]))
            lim = 3 if tier != 'thorough' else 12
            for x in list(range(min(nx, lim))) + [nx - 1, nx]:
                for y in list(range(min(ny, lim))) + [ny - 1, ny]:
                    geos.add((bbox[0] + x * r * ts[0], bbox[1] + y * r * ts[1], ts[0], ts[1], r, r))
    return sorted(geos)


def tla_set(items):
    return '{' + ', '.join(tla.to_tla(i) for i in items) + '}'


DIMSETS = [(), ('time', 'dim_time'), ('time', 'dim_x', 'foo'), ('elevation', 'bar', 'dim_time'), ('foo',), ('time', 'elevation', 'dim_x', 'foo', 'bar')]

XQ = ('XQ(g, srs, f, d) == [srs |-> srs, bbox |-> <<g[1], g[2], g[1] + g[3] * g[5], g[2] + g[4] * g[6]>>, '
      'size |-> <<g[3], g[4]>>, fmt |-> f, dims |-> d, exact |-> TRUE, rel |-> <<>>]')
IQ = ('IQ(srs, cr, rr, f, d) == [srs |-> srs, bbox |-> <<0, 0, 0, 0>>, size |-> <<0, 0>>, fmt |-> f, dims |-> d, '
      'exact |-> FALSE, rel |-> [s \\in GeoIds |-> [res |-> rr, cov |-> cr]]]')


def universe(tier, sources, groups):
    """TLA+ text of CallCases and MapCases"""
    lat_wms = [c.sid for c in sources if c.kind == 'wms' and c.lattice]
    tiles = [c.sid for c in sources if c.kind == 'tile']
    geo = [c.sid for c in sources if not c.lattice]
    geo_cov = [c.sid for c in sources if not c.lattice and c.cov]
    geo_nocov = [c.sid for c in sources if not c.lattice and not c.cov]
    dimsets = [set(d) for d in DIMSETS]
    defs = 'LET GeoIds == %s\n    %s\n    %s\nIN ' % (tla_set(geo), XQ, IQ)
    geo_srs = ['EPSG:4326', M, A, 'EPSG:25832', 'EPSG:31467']
    call = [
        '{<<s, XQ(g, srs, "png", {"time", "dim_x", "foo", "dim_time"})>> : s \\in %s, g \\in %s, srs \\in {"%s", "%s"}}' % (
            tla_set(lat_wms), tla_set(lattice_geos(tier)), M, A),
        '{<<s, XQ(g, srs, f, d)>> : s \\in %s, g \\in %s, srs \\in {"%s", "%s"}, f \\in %s, d \\in %s}' % (
            tla_set(lat_wms), tla_set(small_geos()), M, A, tla_set(['png', 'jpeg', 'gif'] if tier == 'thorough' else ['png', 'jpeg']),
            tla_set(dimsets if tier == 'thorough' else dimsets[:4])),
        '{<<s, XQ(g, "%s", "png", {})>> : s \\in %s, g \\in %s}' % (M, tla_set(tiles), tla_set(tile_geos(tier))),
        '{<<s, XQ(g, srs, "png", {"time"})>> : s \\in %s, g \\in %s, srs \\in {"%s", "EPSG:4326"}}' % (
            tla_set(tiles), tla_set(tile_geos(tier)[::(3 if tier == 'thorough' else 7)]), A),
        '{<<s, IQ(srs, cr, rr, f, d)>> : s \\in %s, srs \\in %s, cr \\in {"inside", "partial", "disjoint"}, '
        'rr \\in {"in", "out"}, f \\in {"png", "jpeg"}, d \\in {{}, {"time", "elevation", "foo", "dim_time"}}}' % (
            tla_set(geo_cov), tla_set(geo_srs)),
        '{<<s, IQ(srs, "inside", rr, f, d)>> : s \\in %s, srs \\in %s, '
        'rr \\in {"in", "out"}, f \\in {"png", "jpeg"}, d \\in {{}, {"time", "elevation", "foo", "dim_time"}}}' % (
            tla_set(geo_nocov), tla_set(geo_srs)),
    ]
    names = sorted(groups)
    seqs = [(n,) for n in names if not n.startswith('sg')]
    seqs += [('sk03', 'sk01'), ('sk01', 'sk02'), ('p01', 'sk03'), ('sk03', 'p02'), ('sk12', 'sk06'), ('sw02', 'sk05'),
             ('sk04', 'sk03'), ('sk11', 'p01'), ('sw05', 'sw07'), ('sk03', 'sk09', 'sk12'), ('sk02', 'sk14', 'sk01')]
    mp = [
        '{<<l, XQ(g, srs, "png", d)>> : l \\in %s, g \\in %s, srs \\in {"%s", "%s"}, d \\in %s}' % (
            tla_set(seqs), tla_set(map_geos() if tier == 'thorough' else map_geos()[:8]), M, A, tla_set([set(), {'time', 'foo', 'dim_time'}, {'elevation', 'dim_x', 'bar'}])),
        '{<<l, IQ(srs, cr, rr, "png", d)>> : l \\in %s, srs \\in {"EPSG:4326", "%s", "EPSG:25832"}, '
        'cr \\in {"inside", "partial", "disjoint"}, rr \\in {"in", "out"}, d \\in {{}, {"time", "foo"}}}' % (
            tla_set([('s' + g,) for g in geo_cov]), M),
        '{<<l, IQ(srs, "inside", rr, "png", d)>> : l \\in %s, srs \\in {"EPSG:4326", "%s", "EPSG:25832"}, '
        'rr \\in {"in", "out"}, d \\in {{}, {"time", "foo"}}}' % (
            tla_set([('s' + g,) for g in geo_nocov]), M),
    ]
    # (sequences of sets: TLC's union of large enumerated sets is quadratic)
    return '=' + defs + '<<' + ',\n  '.join(call) + '>>', '=' + defs + '<<' + ',\n  '.join(mp) + '>>'


WRITES_SHARED = [True]      # measured at the start of run(): does _get_map write into the query it is given?


def model_consts(sources, groups, flags, call_cases, map_cases):
    return {
        'Src': {c.sid: c.record() for c in sources},
        'Groups': {k: tuple(v) for k, v in groups.items()},
        'SrsClass': dict(SRS_CLASS),
        'LatLong': set(LATLONG),
        'Preferred': {k: tuple(v) for k, v in PREFERRED.items()},
        'DimLike': set(DIMLIKE),
        'CombineChecksRes': bool(flags['CombineChecksRes']),
        'BestSrsFromList': bool(flags['BestSrsFromList']),
        'CombineChecksCodes': bool(flags['CombineChecksCodes']),
        'MissingSrsListCrashes': bool(flags.get('MissingSrsListCrashes', True)),
        'WritesSharedQuery': bool(WRITES_SHARED[0]),
        'MapCases': map_cases,
        'CallCases': call_cases,
    }


# ---------------------------------------------------------------------------------------------
# TLC runs
# ---------------------------------------------------------------------------------------------
TABLE_DEF = (
    'Table == [i \\in DOMAIN CallCases |-> {[kind |-> "call", s |-> cc[1], l |-> <<>>, q |-> cc[2], plan |-> PlanCall(cc[1], cc[2])] : cc \\in CallCases[i]}]\n'
    '    \\o [i \\in DOMAIN MapCases |-> {[kind |-> "map", s |-> "", l |-> mc[1], q |-> mc[2], plan |-> PlanMap(mc[1], mc[2])] : mc \\in MapCases[i]}]\n')


def run_model(ctx, name, consts, invariants, export=None, timeout=900, workers=8, coverage=False):
    d = ctx.sub('mc-' + name)
    extra = ''
    extends = []
    if export:
        extends = ['Json', 'TLCExt']
        extra = TABLE_DEF + 'ASSUME JsonSerialize("%s", [cases |-> Table])' % export
    mp, cp = tlc.write_mc(d, 'Source', 'MC_' + re.sub(r'\W', '_', name), consts, invariants=list(invariants),
                          extra_defs=extra, extends=extends)
    r = tlc.run(mp, cp, d, timeout=timeout, workers=workers, coverage=coverage)
    ctx.log('TLC %s: %r' % (name, r))
    return r


# ---------------------------------------------------------------------------------------------
# the real code, instrumented at its boundary to the upstream servers
# ---------------------------------------------------------------------------------------------
_PNG = {}


def _png(size):
    size = (max(1, int(size[0])), max(1, int(size[1])))
    if size not in _PNG:
        from PIL import Image
        b = io.BytesIO()
        Image.new('RGBA', size, (255, 0, 0, 255)).save(b, 'png')
        _PNG[size] = b.getvalue()
    return _PNG[size]


class _Resp(io.BytesIO):
    pass


TILE_GRIDS = {}       # host of a tile upstream -> its grid (filled by World)


def parse_url(url):
    """an upstream URL -> the request as the model describes it (plus the raw numbers)"""
    u = urlsplit(url)
    m = re.match(r'^/(-?\d+)/(-?\d+)/(-?\d+)\.png$', u.path)
    if m and (not u.query or re.match(r'^b=[-0-9.,e]+$', u.query)):
        t = [int(m.group(2)), int(m.group(3)), int(m.group(1))]
        g = TILE_GRIDS.get(u.netloc)
        if u.query and g is not None and 0 <= t[2] < len(g['res']):
            r = g['res'][t[2]]
            x0 = g['bbox'][0] + t[0] * r * g['ts'][0]
            y0 = (g['bbox'][3] - (t[1] + 1) * r * g['ts'][1]) if g['ul'] else (g['bbox'][1] + t[1] * r * g['ts'][1])
            want = (x0, y0, x0 + r * g['ts'][0], y0 + r * g['ts'][1])
            got = [float(v) for v in u.query[2:].split(',')]
            if len(got) != 4 or any(abs(a - b) > 1e-6 for a, b in zip(got, want)):
                return {'kind': 'other:tile request with the bounding box %s, the tile %s of the source grid is %s: %s' % (got, t, list(want), url),
                        'host': u.netloc, 'layers': [], 'srs': '', 'fmt': '', 'bbox': None, 'size': None, 'dims': {}, 'tile': t}
        return {'kind': 'tile', 'host': u.netloc, 'tile': t,
                'layers': [], 'srs': '', 'fmt': '', 'bbox': None, 'size': None, 'dims': {}}
    q = {}
    for k, v in parse_qsl(u.query, keep_blank_values=True):
        q.setdefault(k.lower(), []).append(v)
    one = {k: v[-1] for k, v in q.items()}
    try:
        bbox = [float(x) for x in one.get('bbox', '').split(',')]
        size = [int(one.get('width', '0')), int(one.get('height', '0'))]
    except ValueError:
        bbox, size = None, None
    fmt = one.get('format', '')
    fmt = fmt.split('/', 1)[1] if '/' in fmt else fmt
    dims = {k: v for k, v in q.items() if k not in WMS_KEYS}
    return {'kind': 'map' if one.get('request', '').lower() == 'getmap' and u.path == '/service' else 'other:' + url,
            'host': u.netloc, 'layers': [x for x in one.get('layers', '').split(',') if x],
            'srs': one.get('srs', one.get('crs', '')), 'fmt': fmt.split(';')[0], 'bbox': bbox, 'size': size,
            'dims': dims, 'tile': [0, 0, 0]}


class World(object):
    """One MapProxy configuration holding every source of the catalogue, each WMS layer group, and caches in
    front of some sources.  HTTPClient.open is replaced by a recorder that answers with an image of the size
    asked for."""

    def __init__(self, workdir, sources, groups, caches=None, service_srs=None):
        import mapproxy.client.http as H
        lg = logging.getLogger('mapproxy')
        if not any(isinstance(h, logging.NullHandler) for h in lg.handlers):
            lg.addHandler(logging.NullHandler())
        lg.propagate = False
        self.dir = workdir
        self.sources = {c.sid: c for c in sources}
        self.groups = groups
        self.caches = caches or {}
        self.service_srs = service_srs or [M, A, 'EPSG:4326', 'EPSG:25832', 'EPSG:31467']
        self.urls = []
        self.hook = None            # called with every upstream URL (trace recording)
        self.tile_size = {c.host: tuple(c.grid['ts']) for c in sources if c.kind == 'tile'}
        TILE_GRIDS.update({c.host: c.grid for c in sources if c.kind == 'tile'})
        self._H = H
        self._orig_open = H.HTTPClient.open
        world = self

        def fake_open(client, url, data=None, method=None):
            world.urls.append(url)
            if world.hook:
                world.hook(url)
            u = parse_url(url)
            size = world.tile_size.get(u['host'], (4, 4)) if u['kind'] == 'tile' else (u['size'] or (4, 4))
            r = _Resp(_png(size))
            r.headers = {'Content-type': 'image/png'}
            r.code = 200
            return r
        H.HTTPClient.open = fake_open
        try:
            from mapproxy.config.loader import ProxyConfiguration
            self.pc = ProxyConfiguration(self.conf(), conf_base_dir=workdir, seed=False, renderd=False)
            self._objs = {}
            self._app = None
        except Exception:
            self.close()
            raise

    def close(self):
        self._H.HTTPClient.open = self._orig_open
        shutil.rmtree(self.dir, ignore_errors=True)

    def conf(self):
        d = self.dir
        grids, sources, layers, caches = {}, {}, [], {}
        for c in self.sources.values():
            if c.base != c.sid:
                continue
            gname = None
            if c.kind == 'tile':
                gname = 'grid_' + c.sid
                g = c.grid
                grids[gname] = {'srs': g['srs'], 'bbox': list(g['bbox']), 'res': list(g['res']),
                                'tile_size': list(g['ts']), 'origin': 'ul' if g['ul'] else 'll'}
            sources[c.sid] = c.conf(gname)
        for name, members in sorted(self.groups.items()):
            layers.append({'name': name, 'title': name, 'sources': list(members)})
        for name, cc in sorted(self.caches.items()):
            gname = 'cgrid_' + name
            grids[gname] = {'srs': cc['srs'], 'bbox': list(cc['bbox']), 'res': list(cc['res']),
                            'tile_size': list(cc['ts']), 'origin': 'ul' if cc.get('ul') else 'll'}
            caches[name] = {'grids': [gname], 'sources': [cc['source']], 'meta_size': list(cc.get('meta', (1, 1))),
                            'meta_buffer': cc.get('buffer', 0), 'format': 'image/png',
                            'cache': {'type': 'file', 'directory_layout': 'tms',
                                      'directory': os.path.join(d, 'cache', name)}}
            layers.append({'name': name, 'title': name, 'sources': [name]})
        conf = {
            'globals': {'image': {'paletted': False, 'resampling_method': 'nearest'},
                        'srs': {'preferred_src_proj': {k: list(v) for k, v in PREFERRED.items()}},
                        'cache': {'base_dir': os.path.join(d, 'cache'), 'lock_dir': os.path.join(d, 'locks'),
                                  'tile_lock_dir': os.path.join(d, 'tile_locks'), 'concurrent_tile_creators': 1}},
            'services': {'wms': {'srs': list(self.service_srs), 'image_formats': ['image/png', 'image/jpeg']}, 'tms': {}},
            'sources': sources, 'layers': layers}
        if grids:
            conf['grids'] = grids
        if caches:
            conf['caches'] = caches
        return conf

    # -- direct use of the source objects --------------------------------------------------------
    def source(self, sid):
        if sid not in self._objs:
            c = self.sources[sid]
            params = {'format': 'image/png'} if (c.kind == 'tile' or c.base != c.sid) else None
            self._objs[sid] = self.pc.sources[c.base].source(params)
        return self._objs[sid]

    def call(self, sid, q):
        """get_map of one real source -> (urls, outcome)"""
        from mapproxy.layer import MapQuery, BlankImage
        from mapproxy.srs import SRS
        query = MapQuery(tuple(q['bbox']), tuple(q['size']), SRS(q['srs']), q['fmt'],
                         dimensions={k: 'v_' + k for k in q['dims']})
        del self.urls[:]
        try:
            self.source(sid).get_map(query)
            out = 'ok'
        except BlankImage:
            out = 'blank'
        except Exception as ex:
            out = 'error:' + type(ex).__name__
        return list(self.urls), out

    # -- through the WSGI application ----------------------------------------------------------------
    @property
    def app(self):
        if self._app is None:
            import webtest
            from mapproxy.wsgiapp import MapProxyApp
            self._app = webtest.TestApp(MapProxyApp(self.pc.configured_services(), self.pc.base_config))
        return self._app

    def map_url(self, layers, q):
        b = q['bbox']
        url = ('/service?SERVICE=WMS&REQUEST=GetMap&VERSION=1.1.1&STYLES=&SRS=%s&FORMAT=image/%s&TRANSPARENT=true'
               '&LAYERS=%s&BBOX=%s&WIDTH=%d&HEIGHT=%d' % (q['srs'], q['fmt'], ','.join(layers),
                                                          ','.join(repr(x) for x in b), q['size'][0], q['size'][1]))
        for k in q['dims']:
            url += '&%s=v_%s' % (k.upper() if len(k) % 2 else k, k)
        return url

    def map_request(self, layers, q):
        del self.urls[:]
        resp = self.app.get(self.map_url(layers, q), expect_errors=True)
        return list(self.urls), resp.status_int, resp


# ---------------------------------------------------------------------------------------------
# geometry oracle for reprojected queries (pyproj, independent of mapproxy.srs)
# ---------------------------------------------------------------------------------------------
DEG_M = 6378137 * 2 * math.pi / 360


class Oracle(object):
    def __init__(self):
        self._tr = {}

    def _t(self, a, b):
        key = (SRS_CLASS[a], SRS_CLASS[b])
        if key not in self._tr:
            from pyproj import Transformer
            self._tr[key] = Transformer.from_crs(CANON[key[0]], CANON[key[1]], always_xy=True)
        return self._tr[key]

    def point(self, xy, a, b):
        if SRS_CLASS[a] == SRS_CLASS[b]:
            return tuple(xy)
        return self._t(a, b).transform(xy[0], xy[1])

    def bbox_to(self, bbox, a, b, n=257):
        """bounding box of the densified outline of bbox (SRS a) in SRS b"""
        if SRS_CLASS[a] == SRS_CLASS[b]:
            return tuple(bbox)
        x0, y0, x1, y1 = bbox
        xs, ys = [], []
        for i in range(n + 1):
            f = i / float(n)
            for x, y in ((x0 + f * (x1 - x0), y0), (x0 + f * (x1 - x0), y1), (x0, y0 + f * (y1 - y0)), (x1, y0 + f * (y1 - y0))):
                xs.append(x)
                ys.append(y)
        tx, ty = self._t(a, b).transform(xs, ys)
        pts = [(x, y) for x, y in zip(tx, ty) if math.isfinite(x) and math.isfinite(y)]
        if not pts:
            raise tlc.MachineryError('oracle: bbox %r cannot be transformed from %s to %s' % (bbox, a, b))
        return (min(p[0] for p in pts), min(p[1] for p in pts), max(p[0] for p in pts), max(p[1] for p in pts))

    def cov_relation(self, cfg, srs, bbox, margin=3e-4):
        """relation of a query bbox to the coverage of cfg, decided in the SRS of the coverage; 'fuzzy' near a boundary"""
        if not cfg.cov:
            return 'inside'
        c = cfg.cov[1]
        b = self.bbox_to(bbox, srs, cfg.cov[0])
        mx, my = margin * (c[2] - c[0]), margin * (c[3] - c[1])
        if len(cfg.cov) > 2:
            h = cfg.cov[2]
            if b[0] >= h[0] + mx and b[2] <= h[2] - mx and b[1] >= h[1] + my and b[3] <= h[3] - my:
                return 'disjoint'
            if b[0] >= h[0] - mx and b[2] <= h[2] + mx and b[1] >= h[1] - my and b[3] <= h[3] + my:
                return 'fuzzy'
        if b[0] >= c[2] + mx or b[2] <= c[0] - mx or b[1] >= c[3] + my or b[3] <= c[1] - my:
            return 'disjoint'
        if b[0] >= c[0] + mx and b[2] <= c[2] - mx and b[1] >= c[1] + my and b[3] <= c[3] - my:
            return 'inside'
        overlap = min(b[2], c[2]) - max(b[0], c[0]) > mx and min(b[3], c[3]) - max(b[1], c[1]) > my
        outside = b[0] < c[0] - mx or b[2] > c[2] + mx or b[1] < c[1] - my or b[3] > c[3] + my
        if overlap and outside:
            return 'partial'
        return 'fuzzy'

    def res_relation(self, cfg, srs, bbox, size, margin=1e-4):
        """grid.py ResolutionRange.contains, with a safety margin: 'in', 'out' or 'fuzzy'"""
        if not (cfg.minres or cfg.maxres):
            return 'in'
        w, h = bbox[2] - bbox[0], bbox[3] - bbox[1]
        if srs in LATLONG:
            w, h = w * DEG_M, h * DEG_M
        rs = (w / size[0], h / size[1])
        out = any((cfg.minres and r > cfg.minres * (1 + margin)) or (cfg.maxres and r < cfg.maxres * (1 - margin)) for r in rs)
        inn = all((not cfg.minres or r < cfg.minres * (1 - margin)) and (not cfg.maxres or r > cfg.maxres * (1 + margin))
                  for r in rs)
        return 'out' if out else ('in' if inn else 'fuzzy')

    def in_extent(self, cfg, srs, bbox):
        """is the bbox of an upstream request (in SRS srs) inside the coverage extent of cfg?  The extent in the
        request SRS is the bounding box of the densely transformed outline, with a relative tolerance."""
        if not cfg.cov:
            return True
        e = self.bbox_to(cfg.cov[1], cfg.cov[0], srs, n=1025)
        tx, ty = 1e-6 * (e[2] - e[0]), 1e-6 * (e[3] - e[1])
        return bbox[0] >= e[0] - tx and bbox[2] <= e[2] + tx and bbox[1] >= e[1] - ty and bbox[3] <= e[3] + ty

    def realise(self, cfg, srs, covrel, resrel, size=(48, 40)):
        """concrete numbers for a reprojected query with the declared relations to cfg"""
        if cfg.cov:
            c = cfg.cov[1]
            cy = (c[1] + c[3]) / 2.0
            cx = {'inside': (c[0] + c[2]) / 2.0, 'partial': c[2], 'disjoint': c[2] + 2.5 * (c[2] - c[0])}[covrel]
            px, py = self.point((cx, cy), cfg.cov[0], srs)
        else:
            px, py = self.point((10.0, 50.5), 'EPSG:4326', srs)
        if resrel == 'in' or not (cfg.minres or cfg.maxres):
            res = 300.0
        elif cfg.minres:
            res = cfg.minres * 3.0
        else:
            res = cfg.maxres / 5.0
            size = (size[0] * 3, size[1] * 3)
        if srs in LATLONG:
            res = res / DEG_M
        bbox = (px - size[0] * res / 2.0, py - size[1] * res / 2.0, px + size[0] * res / 2.0, py + size[1] * res / 2.0)
        got = (self.cov_relation(cfg, srs, bbox), self.res_relation(cfg, srs, bbox, size))
        want = (covrel if cfg.cov else 'inside', resrel if (cfg.minres or cfg.maxres) else 'in')
        if got != want:
            raise tlc.MachineryError('oracle: realisation of (%s, %s, %s, %s) has relations %r' % (cfg.sid, srs, covrel, resrel, got))
        return bbox, size


# ---------------------------------------------------------------------------------------------
# spec -> code: the table of cases
# ---------------------------------------------------------------------------------------------
def norm_planned(r):
    """a request of the model's plan -> comparable dict"""
    d = {'kind': r['kind'], 'host': r['host'], 'm': list(r['m'])}
    if r['kind'] == 'tile':
        d['tile'] = list(r['tile'])
        return d
    d.update(srs=r['srs'], fmt=r['fmt'], dims=sorted(r['dims']))
    if r['exact'] and list(r['bbox']) != UNKNOWN4:
        d.update(bbox=list(r['bbox']), size=list(r['size']))
    return d


def norm_observed(u, planned=None):
    """a parsed upstream URL -> comparable dict (geometry only where the plan states it)"""
    d = {'kind': u['kind'], 'host': u['host']}
    if u['kind'] == 'tile':
        d['m'] = [u['host']]
        d['tile'] = list(u['tile'])
        return d
    d.update(m=list(u['layers']), srs=u['srs'], fmt=u['fmt'], dims=sorted(u['dims']))
    if planned is not None and 'bbox' in planned:
        b = u['bbox'] or []
        d['bbox'] = [int(x) if float(x).is_integer() else x for x in b]
        d['size'] = list(u['size'] or [])
    return d


def dim_values_ok(u):
    return all(v == ['v_' + k] for k, v in u['dims'].items())


def out_class(o):
    return 'blank' if o.startswith('blank') else o


def compare_case(results, urls, outs):
    """results: the model's set of planned results; urls/outs: what the real code did (outs None: not observable).
    Returns None if the observation is one of the planned results, else a text."""
    parsed = [parse_url(u) for u in urls]
    for u in parsed:
        if not dim_values_ok(u):
            return 'forwarded parameter with a foreign value: %r' % u['dims']
    best = None
    for r in results:
        plan = [norm_planned(x) for x in r['sent']]
        if len(plan) != len(parsed):
            best = best or 'model plans %d upstream requests %s, real code sent %d: %s' % (
                len(plan), plan[:3], len(parsed), urls[:3])
            continue
        obs = [norm_observed(u, p) for u, p in zip(parsed, plan)]
        if obs != plan:
            i = [k for k in range(len(plan)) if obs[k] != plan[k]][0]
            keys = [k for k in plan[i] if plan[i].get(k) != obs[i].get(k)]
            best = 'upstream request %d differs in %s: model %s, real %s' % (
                i, keys, {k: plan[i].get(k) for k in keys}, {k: obs[i].get(k) for k in keys})
            continue
        if outs is not None and [out_class(o) for o in r['outs']] != list(outs):
            best = 'outcome: model %s, real %s' % (r['outs'], outs)
            continue
        return None
    return best or 'the model plans nothing for this case'


def case_query(case, oracle, sources):
    """the concrete query of a table case (numbers of a reprojected query are chosen here)"""
    q = dict(case['q'])
    q['dims'] = list(q['dims'])
    if not q['exact']:
        sid = case['s'] if case['kind'] == 'call' else case['l'][0][1:]
        rel = q['rel'][sid]
        bbox, size = oracle.realise(sources[sid], q['srs'], rel['cov'], rel['res'])
        q['bbox'], q['size'] = list(bbox), list(size)
    return q


def describe_case(case):
    q = case['q']
    geo = ('bbox=%s size=%s' % (q['bbox'], q['size'])) if q['exact'] else 'reprojected(%s)' % json.dumps(
        q['rel'].get(case['s'] or case['l'][0][1:]) if isinstance(q['rel'], dict) else q['rel'])
    who = case['s'] if case['kind'] == 'call' else 'layers=' + ','.join(case['l'])
    return '%s %s srs=%s %s fmt=%s dims=%s' % (case['kind'], who, q['srs'], geo, q['fmt'], sorted(q['dims']))


def divergence_signature(case, why):
    q = case['q']
    what = why.split(':')[0]
    m = re.search(r"differs in (\[[^\]]*\])", why)
    if m:
        what = 'upstream request differs in ' + m.group(1)
    sig = {'kind': 'divergence', 'path': case['kind'], 'exact': bool(q['exact']),
           'what': re.sub(r'\d+', 'N', what)[:70].strip()}
    src = case['s'] if case['kind'] == 'call' else ''
    sig['source'] = 'tile' if src.startswith('t') else ('wms' if src else 'layers')
    return sig


def check_oracle_extent(world, oracle, urls, members_of):
    """reprojected requests: every sent bbox must lie in the coverage extent of every source it is sent for"""
    bad = []
    for url in urls:
        u = parse_url(url)
        if u['kind'] != 'map' or not u['bbox']:
            continue
        for sid in members_of(u):
            cfg = world.sources[sid]
            if cfg.cov and not oracle.in_extent(cfg, u['srs'], u['bbox']):
                bad.append((sid, u['srs'], u['bbox']))
    return bad


def run_table(ctx, world, oracle, cases):
    """every case of the TLC table on the real code"""
    stats = {}
    ndiff = 0
    for case in cases:
        q = case_query(case, oracle, world.sources)
        results = case['plan']['results']
        if case['kind'] == 'call':
            urls, out = world.call(case['s'], q)
            why = compare_case(results, urls, [out])
        else:
            urls, status, resp = world.map_request(case['l'], q)
            why = compare_case(results, urls, None)
            crash = any(o.startswith('error:') for r in results for o in r['outs'])
            if why is None and status != (500 if crash else 200):
                why = 'HTTP status %d: %s' % (status, resp.body[:80])
        if why is None and not q['exact']:
            bad = check_oracle_extent(world, oracle, urls, lambda u: u['layers'])
            if bad:
                why = 'bbox outside the coverage extent (oracle): %r' % (bad[0],)
        ctx.count(('case', case['kind'], case['s'], tuple(case['l']), json.dumps(case['q'], sort_keys=True)))
        ctx.cov['replayed_steps'] += 1
        for r in results[:1]:
            for o in r['outs']:
                stats[o] = stats.get(o, 0) + 1
            for x in r['sent']:
                k = 'combined' if len(x['m']) > 1 else x['kind']
                stats[k] = stats.get(k, 0) + 1
        if why:
            ndiff += 1
            ctx.violation(divergence_signature(case, why), '%s -> %s' % (describe_case(case), why),
                          {'case': {k: case[k] for k in ('kind', 's', 'l', 'q')}, 'plan': case['plan']})
    ctx.cov['replayed_behaviours'] += len(cases)
    return stats, ndiff


# ---------------------------------------------------------------------------------------------
# code -> spec: recording executions of the real application
# ---------------------------------------------------------------------------------------------
def is_int(x):
    return float(x).is_integer() and abs(x) < 2 ** 30


class Recorder(object):
    """Hooks LayerRenderer.render, WMSSource.get_map, TiledSource.get_map (class level, restored by close) and the
    world's HTTP recorder; produces one trace per WMS request on direct layers and one per get_map call made from
    anywhere else (tile managers)."""

    def __init__(self, world, oracle):
        import mapproxy.service.wms as SW
        import mapproxy.source.wms as W
        import mapproxy.source.tile as T
        from mapproxy.layer import BlankImage
        self.world = world
        self.oracle = oracle
        self.traces = []
        self.meta = []
        self.skipped_fuzzy = 0
        self.cur = None           # trace being recorded
        self.unit = None          # get_map in progress: dict(sent=[...])
        self.request = None       # the map request the driver announced
        self.depth = 0
        self._patched = []
        rec = self

        def wrap_get_map(cls):
            orig = cls.get_map

            def get_map(src, query):
                if rec.depth:
                    return orig(src, query)
                rec.depth += 1
                rec.begin(src, query)
                out = 'ok'
                try:
                    return orig(src, query)
                except BlankImage:
                    out = 'blank'
                    raise
                except Exception as ex:
                    out = 'error:' + type(ex).__name__
                    raise
                finally:
                    rec.depth -= 1
                    rec.end(out)
            cls.get_map = get_map
            self._patched.append((cls, 'get_map', orig))
        wrap_get_map(W.WMSSource)
        wrap_get_map(T.TiledSource)
        orig_render = SW.LayerRenderer.render

        def render(renderer, merger):
            rec.on_render(renderer)
            return orig_render(renderer, merger)
        SW.LayerRenderer.render = render
        self._patched.append((SW.LayerRenderer, 'render', orig_render))
        world.hook = self.on_url

    def close(self):
        for cls, name, orig in self._patched:
            setattr(cls, name, orig)
        self.world.hook = None

    # -- identification of live objects -----------------------------------------------------------
    def ids_of(self, src):
        from mapproxy.source.tile import TiledSource
        while hasattr(src, '_layer') and not hasattr(src, 'client'):
            src = src._layer
        if isinstance(src, TiledSource):
            host = urlsplit(src.client.url_template.template.replace('%', '')).netloc
            return [host]
        if not hasattr(src, 'client') or not hasattr(src.client, 'request_template'):
            return None
        names = list(src.client.request_template.params.layers)
        fmt = src.image_opts.format
        ext = fmt.ext if fmt else ''
        out = []
        for n in names:
            c = self.world.sources.get(n)
            if c is None:
                raise tlc.MachineryError('recorder: unknown upstream layer %r' % n)
            if len(names) == 1 and c.ofmt != ext:
                n = '%s_%s' % (n, ext)
                if n not in self.world.sources:
                    raise tlc.MachineryError('recorder: no catalogue entry for instance %r' % n)
            out.append(n)
        return out

    def query_dict(self, query, members, extra_members=()):
        bbox = [float(x) for x in query.bbox]
        fmt = str(query.format or '')
        fmt = fmt.split('/', 1)[1] if '/' in fmt else fmt
        q = {'srs': query.srs.srs_code, 'size': [int(query.size[0]), int(query.size[1])], 'fmt': fmt,
             'dims': sorted({k.lower() for k in (query.dimensions or {})})}
        return self.finish_query(q, bbox, list(members) + list(extra_members))

    def finish_query(self, q, bbox, members):
        cfgs = [self.world.sources[m] for m in members]
        exact = (all(is_int(x) for x in bbox) and SRS_CLASS.get(q['srs']) == 'merc' and all(c.lattice for c in cfgs)
                 and q['size'][0] > 0 and q['size'][1] > 0)
        q['exact'] = exact
        q['fbbox'] = list(bbox)
        if exact:
            q['bbox'] = [int(x) for x in bbox]
            q['rel'] = []
        else:
            q['bbox'] = list(UNKNOWN4)
            q['rel'] = {}
            for c in cfgs:
                rel = {'res': self.oracle.res_relation(c, q['srs'], bbox, q['size']),
                       'cov': self.oracle.cov_relation(c, q['srs'], bbox)}
                q['rel'][c.sid] = rel
                if 'fuzzy' in rel.values():
                    q['fuzzy'] = True
        return q

    # -- events ----------------------------------------------------------------------------------
    def announce(self, layers, q, members):
        """the driver is about to send a GetMap request for direct layers"""
        qq = self.finish_query({'srs': q['srs'], 'size': list(q['size']), 'fmt': q['fmt'], 'dims': sorted(q['dims'])},
                               q['bbox'], members)
        self.request = {'l': list(layers), 'q': qq, 'members': list(members), 'rendered': False}
        self.cur = [{'ev': 'map', 'l': list(layers), 'q': qq}]

    def on_render(self, renderer):
        if self.request is None or self.request['rendered']:
            return
        ids = []
        for layer in renderer.layers:
            i = self.ids_of(layer)
            if i is None:
                raise tlc.MachineryError('recorder: a layer of a direct request is not a WMS source: %r' % layer)
            ids += i
        self.request['rendered'] = True
        self.cur.append({'ev': 'render', 'srcs': ids,
                         'dims': sorted({k.lower() for k in (renderer.query.dimensions or {})})})

    def begin(self, src, query):
        ids = self.ids_of(src)
        if self.request is not None and self.request['rendered']:
            self.cur.append({'ev': 'getmap', 'm': ids, 'srs': query.srs.srs_code})
            self.unit = {'q': self.request['q'], 'sent': [], 'own': False, 'ids': ids}
        else:
            if len(ids) != 1:
                raise tlc.MachineryError('recorder: combined source outside a LayerRenderer: %r' % ids)
            q = self.query_dict(query, ids)
            self.cur = [{'ev': 'call', 's': ids[0], 'q': q}, {'ev': 'getmap', 'm': ids, 'srs': q['srs']}]
            self.unit = {'q': q, 'sent': [], 'own': True, 'ids': ids}

    def on_url(self, url):
        if self.unit is not None:
            self.unit['sent'].append(url)

    def sent_record(self, url, q, ids):
        u = parse_url(url)
        if u['kind'] != 'tile' and u['layers'] == [self.world.sources[i].base for i in ids]:
            u['layers'] = list(ids)      # the layer names of the URL, as instances of the catalogue
        if u['kind'] == 'tile':
            return {'kind': 'tile', 'm': [u['host']], 'host': u['host'], 'srs': '', 'fmt': '', 'exact': True,
                    'bbox': list(UNKNOWN4), 'size': [0, 0], 'dims': [], 'tile': u['tile'], 'inext': True, 'url': url}
        r = {'kind': u['kind'], 'm': u['layers'], 'host': u['host'], 'srs': u['srs'], 'fmt': u['fmt'], 'exact': q['exact'],
             'dims': sorted(u['dims']), 'tile': [0, 0, 0], 'url': url}
        if not dim_values_ok(u):
            r['dims'] = sorted(k + '=' + ','.join(v) for k, v in u['dims'].items())
        members = [self.world.sources[m] for m in u['layers'] if m in self.world.sources]
        if u['bbox'] and len(u['bbox']) == 4:
            r['inext'] = all(self.oracle.in_extent(c, u['srs'], u['bbox']) for c in members
                             if SRS_CLASS.get(u['srs']) is not None)
        else:
            r['inext'] = False
        if q['exact'] and SRS_CLASS.get(u['srs']) == SRS_CLASS.get(q['srs']):
            ok = u['bbox'] and all(is_int(x) for x in u['bbox'])
            r['bbox'] = [int(x) for x in u['bbox']] if ok else [-7, -7, -7, -7]
            r['size'] = list(u['size'] or [0, 0])
        else:
            r['bbox'] = list(UNKNOWN4)
            r['size'] = [0, 0]
        return r

    def end(self, out):
        unit, self.unit = self.unit, None
        self.cur.append({'ev': 'result', 'out': out, 'sent': [self.sent_record(u, unit['q'], unit['ids']) for u in unit['sent']]})
        if unit['own']:
            self.cur.append({'ev': 'done'})
            self.flush('call')

    def finish_request(self):
        if self.request is not None:
            if self.request['rendered']:
                self.cur.append({'ev': 'done'})
                self.flush('map')
            self.request = None
            self.cur = None

    def flush(self, kind):
        tr, self.cur = self.cur, None
        if tr[0]['q'].get('fuzzy'):
            self.skipped_fuzzy += 1
            return
        self.traces.append(tr)
        self.meta.append(kind)


def strip_trace(tr):
    """the JSON handed to TLC: no floats, no helper fields"""
    out = []
    for e in tr:
        e = dict(e)
        if 'q' in e:
            e['q'] = {k: v for k, v in e['q'].items() if k not in ('fbbox', 'fuzzy')}
        if 'sent' in e:
            e['sent'] = [{k: v for k, v in r.items() if k != 'url'} for r in e['sent']]
        out.append(e)
    return out


def validate_traces(ctx, name, sources, groups, flags, traces, invariants):
    d = ctx.sub('trace-' + name)
    tf = os.path.join(d, 'batch.json')
    with open(tf, 'w') as f:
        json.dump([strip_trace(t) for t in traces], f)
    consts = model_consts(sources, groups, flags, '=<<>>', '=<<>>')
    mp, cp = tlc.write_mc(d, 'Trace_Source', 'MC_Trace', consts, spec='TraceSpec', post='TraceAccepted',
                          invariants=list(invariants))
    r = tlc.run(mp, cp, d, workers=1, coverage=False, env={'TRACE_FILE': tf}, timeout=1800)
    pr = tlc.find_prints(r.out, 'matched')
    matched = None
    if pr:
        mv = pr[-1][1]
        matched = list(mv) if isinstance(mv, tuple) else [mv[k] for k in sorted(mv)]
    return r, matched


# ---------------------------------------------------------------------------------------------
# the world of the trace direction and its random drivers
# ---------------------------------------------------------------------------------------------
def instance(c, ext):
    """the object a cache builds from the configured source c (request format of the cache as image_opts.format)"""
    return Cfg('%s_%s' % (c.sid, ext), kind=c.kind, host=c.host, srs=c.srs, fmts=c.fmts, ofmt=ext, cov=c.cov,
               minres=c.minres, maxres=c.maxres, fwd=c.fwd, opq=c.opq, grid=c.grid, lattice=c.lattice, base=c.sid)


CACHES = {
    'c_t01': dict(source='t01', srs=M, bbox=(0, 0, 640, 640), res=(80, 40, 20), ts=(4, 4)),
    'c_t01b': dict(source='t01', srs=M, bbox=(0, 0, 1280, 1280), res=(80, 40, 20), ts=(4, 4)),
    'c_t01o': dict(source='t01', srs=M, bbox=(-79, -79, 561, 561), res=(80, 20), ts=(4, 4)),
    'c_t02': dict(source='t02', srs=M, bbox=(0, 0, 640, 400), res=(80, 40, 20), ts=(4, 4), ul=True),
    'c_t03': dict(source='t03', srs=M, bbox=(0, 0, 1280, 1280), res=(80, 40, 20), ts=(4, 4)),
    'c_t04': dict(source='t04', srs=M, bbox=(0, 0, 640, 640), res=(80, 40, 20), ts=(4, 4)),
    'c_t05': dict(source='t05', srs=A, bbox=(0, 0, 960, 320), res=(160, 80, 40), ts=(3, 2)),
    'c_w02': dict(source='w02', srs=M, bbox=(0, 0, 640, 640), res=(80, 40, 20), ts=(4, 4), meta=(2, 2), buffer=1),
    'c_w03': dict(source='w03', srs=M, bbox=(0, 0, 640, 640), res=(80, 40, 20, 10), ts=(4, 4)),
    'c_k11': dict(source='k11', srs=A, bbox=(0, 0, 640, 320), res=(160, 80, 40, 20, 10), ts=(4, 4), meta=(2, 1)),
    'c_w07': dict(source='w07', srs=M, bbox=(0, 0, 640, 640), res=(80, 40), ts=(8, 8)),
    # reprojected: cache grid in another SRS than the source supports
    'c_g01': dict(source='g01', srs='EPSG:4326', bbox=(0.0, 40.0, 20.0, 60.0), res=(0.02, 0.01, 0.005, 0.001), ts=(16, 16),
                  meta=(2, 2)),
    'c_g03': dict(source='g03', srs=M, bbox=(600000.0, 5900000.0, 1600000.0, 7300000.0), res=(2000.0, 500.0), ts=(16, 16)),
    'c_g05': dict(source='g05', srs='EPSG:25832', bbox=(200000.0, 5200000.0, 900000.0, 6100000.0), res=(4000.0, 1000.0, 250.0),
                  ts=(16, 16)),
}


def trace_world(ctx, name='tworld'):
    base = lattice_sources() + geo_sources()
    by = {c.sid: c for c in base}
    extra = []
    for cname, cc in sorted(CACHES.items()):
        c = by[cc['source']]
        if c.kind == 'wms' and c.ofmt != 'png' and not any(x.sid == c.sid + '_png' for x in extra):
            if not c.ofmt:
                extra.append(instance(c, 'png'))
    sources = base + extra
    groups = with_singletons(base, GROUPS)
    world = World(ctx.sub(name), sources, groups, caches=CACHES)
    return world, sources, groups


def random_lattice_query(rng):
    k = rng.random()
    rs = [5, 10, 19, 20, 21, 39, 40, 41, 79, 80, 81, 160]
    rx = rng.choice(rs)
    ry = rx if k < 0.8 else rng.choice(rs)
    w, h = rng.randint(2, 9), rng.randint(2, 9)
    x0 = rng.choice([rng.randint(-150, 620), rng.choice([0, 90, 99, 100, 101, 129, 130, 370, 499, 500, 501])])
    y0 = rng.choice([rng.randint(-150, 620), rng.choice([0, 59, 60, 61, 89, 90, 250, 419, 420])])
    if rng.random() < 0.25:
        x0 -= w * rx // 2
        y0 -= h * ry // 2
    dims = [p for p in ('time', 'elevation', 'dim_x', 'foo', 'bar', 'dim_time') if rng.random() < 0.35]
    return {'srs': rng.choice([M, M, A]), 'bbox': [x0, y0, x0 + w * rx, y0 + h * ry], 'size': [w, h],
            'fmt': rng.choice(['png', 'png', 'jpeg']), 'dims': dims}


def random_geo_query(rng, oracle):
    srs = rng.choice(['EPSG:4326', M, A, 'EPSG:25832', 'EPSG:31467'])
    lon = rng.choice([rng.uniform(2.0, 20.0), rng.choice([6.0, 14.0, 10.0]) + rng.uniform(-0.6, 0.6)])
    lat = rng.choice([rng.uniform(44.0, 57.0), rng.choice([47.0, 54.0, 50.0]) + rng.uniform(-0.6, 0.6)])
    res = math.exp(rng.uniform(math.log(15.0), math.log(6000.0)))
    w, h = rng.randint(8, 40), rng.randint(8, 40)
    px, py = oracle.point((lon, lat), 'EPSG:4326', srs)
    if srs in LATLONG:
        res = res / DEG_M
    dims = [p for p in ('time', 'elevation', 'dim_x', 'foo', 'dim_time') if rng.random() < 0.3]
    return {'srs': srs, 'bbox': [px - w * res / 2, py - h * res / 2, px + w * res / 2, py + h * res / 2], 'size': [w, h],
            'fmt': rng.choice(['png', 'jpeg']), 'dims': dims}


def send_map(world, rec, layers, q, direct):
    """one WMS GetMap through the application, recorded"""
    if direct:
        members = [m for g in layers for m in world.groups[g]]
        rec.announce(layers, q, members)
    try:
        urls, status, resp = world.map_request(layers, q)
    finally:
        rec.finish_request()
    return status


def drive(ctx, world, rec, oracle, n_map, n_cached, n_tms, n_geo):
    rng = ctx.rng
    direct = sorted(g for g in world.groups if not g.startswith('sg'))
    geo_direct = sorted(g for g in world.groups if g.startswith('sg'))
    lat_caches = sorted(c for c in world.caches if not c.startswith('c_g'))
    geo_caches = sorted(c for c in world.caches if c.startswith('c_g'))
    reqs = []

    def log(kind, before, **kw):
        for i in range(before, len(rec.traces)):
            reqs.append(dict(kw, kind=kind))
    for _ in range(n_map):
        k = rng.choice([1, 1, 2, 2, 3])
        layers = rng.sample(direct, k)
        q = random_lattice_query(rng)
        b = len(rec.traces)
        send_map(world, rec, layers, q, True)
        log('map', b, layers=layers, q=q)
    for _ in range(n_cached):
        layers = [rng.choice(lat_caches)]
        q = random_lattice_query(rng)
        if rng.random() < 0.5:
            # aligned with the cache grid: exactly the meta tiles are requested upstream
            cc = world.caches[layers[0]]
            r = rng.choice(cc['res'])
            q['bbox'] = [cc['bbox'][0] + rng.randint(-1, 3) * r * cc['ts'][0], cc['bbox'][1] + rng.randint(-1, 3) * r * cc['ts'][1], 0, 0]
            q['size'] = [cc['ts'][0] * rng.randint(1, 2), cc['ts'][1] * rng.randint(1, 2)]
            q['bbox'][2] = q['bbox'][0] + q['size'][0] * r
            q['bbox'][3] = q['bbox'][1] + q['size'][1] * r
        q['srs'] = cc_srs = world.caches[layers[0]]['srs'] if rng.random() < 0.7 else q['srs']
        del cc_srs
        b = len(rec.traces)
        send_map(world, rec, layers, q, False)
        log('cached-map', b, layers=layers, q=q)
    for _ in range(n_tms):
        c = rng.choice(lat_caches + (geo_caches if rng.random() < 0.3 else []))
        cc = world.caches[c]
        z = rng.randrange(len(cc['res']))
        W, H = cc['bbox'][2] - cc['bbox'][0], cc['bbox'][3] - cc['bbox'][1]
        nx = int(-(-W // (cc['res'][z] * cc['ts'][0])))
        ny = int(-(-H // (cc['res'][z] * cc['ts'][1])))
        x, y = rng.randint(0, max(0, nx - 1)), rng.randint(0, max(0, ny - 1))
        path = '/tms/1.0.0/%s/%s/%d/%d/%d.png' % (c, cc['srs'].replace(':', ''), z, x, y)
        b = len(rec.traces)
        world.app.get(path, expect_errors=True)
        log('tms', b, path=path)
    for i in range(n_geo):
        q = random_geo_query(rng, oracle)
        b = len(rec.traces)
        if i % 4 == 3:
            layers = [rng.choice(geo_caches)]
            send_map(world, rec, layers, q, False)
            log('cached-map', b, layers=layers, q=q)
        else:
            layers = rng.sample(geo_direct, rng.choice([1, 1, 2]))
            send_map(world, rec, layers, q, True)
            log('map', b, layers=layers, q=q)
    return reqs


# ---------------------------------------------------------------------------------------------
# violations of the property: signatures, confrontation of model counterexamples with the real code
# ---------------------------------------------------------------------------------------------
EXPECTED_WITH = {   # invariant that the as-is variant of a decision is known to break
    'CombineChecksRes': 'NoContactOutOfRange',
    'BestSrsFromList': 'SrsSupported',
    'CombineChecksCodes': 'SrsSupported',
}


def sent_of_state(st):
    return [tla.jsonable(dict(r)) if isinstance(r, dict) else r for r in st.get('sent', ())]


def violation_signature(inv, sent, srcmap):
    """which kind of request breaks `inv`: a stable description of the failing class"""
    sig = {'kind': 'invariant', 'invariant': inv}
    combined = [r for r in sent if len(r['m']) > 1]
    if inv == 'NoContactOutOfRange' and combined:
        sig.update(path='combined-sources', cause='resolution range of a combined member is ignored')
    elif inv == 'SrsSupported' and any(r['kind'] == 'map' and any(
            srcmap[m].srs and r['srs'] not in srcmap[m].srs for m in r['m'] if m in srcmap) for r in combined):
        sig.update(path='combined-sources', cause='supported_srs lists compared by SRS equality, not by code')
    elif inv == 'SrsSupported':
        bad = [r for r in sent if r['kind'] == 'map' and any(srcmap[m].srs and r['srs'] not in srcmap[m].srs
                                                            for m in r['m'] if m in srcmap)]
        alias = bad and all(any(SRS_CLASS.get(r['srs']) == SRS_CLASS.get(x) for x in srcmap[m].srs)
                            for r in bad for m in r['m'] if m in srcmap)
        if alias:
            sig.update(path='single-source', cause='alias code of a preferred_src_proj rule is sent instead of the supported code')
        else:
            sig.update(path='single-source', source=','.join(sorted({m for r in bad for m in r['m']})))
    else:
        sig.update(path='combined-sources' if combined else 'single-source',
                   source=','.join(sorted({m for r in sent for m in r['m']}))[:60])
    return sig


def case_of_state(st):
    c = st['case']
    q = tla.jsonable(c['q'])
    q['dims'] = sorted(q['dims'])
    return {'kind': str(c['kind']), 's': str(c['s']), 'l': [str(x) for x in c['l']], 'q': q}


def confront(ctx, world, oracle, r, srcmap):
    """TLC found a state of the model (of the code as it is) that violates a property invariant: the violation
    counts if the real code, given the same case, sends what the model says it sends."""
    st = r.trace[-1][1]
    case = case_of_state(st)
    planned = {'sent': [tla.jsonable(x) for x in st['sent']], 'outs': [str(o) for o in st['outs']]}
    q = case_query(case, oracle, world.sources)
    if case['kind'] == 'call':
        urls, out = world.call(case['s'], q)
    else:
        urls, status, resp = world.map_request(case['l'], q)
    parsed = [parse_url(u) for u in urls]
    plan = [norm_planned(x) for x in planned['sent']]
    same = len(plan) <= len(parsed) and all(norm_observed(u, p) == p for u, p in zip(parsed, plan))
    return case, planned, urls, same


def attack(ctx, world, oracle, sources, groups, flag, srcmap, report=True):
    """model of the code as it is for one decision (the other two repaired): does TLC find a violation, and does the
    real code follow the counterexample?  Returns True if the real code behaves like the repaired variant."""
    flags = {f: True for f in FLAGS}
    flags[flag] = False
    flags['MissingSrsListCrashes'] = probe_crash(world)
    call, mp = attack_universe(flag, sources, groups)
    r = run_model(ctx, 'asis-' + flag, model_consts(sources, groups, flags, call, mp), PROPERTY_INVARIANTS, workers=4,
                  timeout=600)
    if r.ok:
        raise tlc.MachineryError('the as-is model of %s satisfies the property: the catalogue does not exercise it' % flag)
    if r.violated != EXPECTED_WITH[flag] or not r.trace:
        raise tlc.MachineryError('as-is model of %s: unexpected result %r\n%s' % (flag, r, r.out[-1500:]))
    case, planned, urls, same = confront(ctx, world, oracle, r, srcmap)
    ctx.cov['replayed_behaviours'] += 1
    ctx.cov['replayed_steps'] += len(r.trace)
    if same:
        sig = violation_signature(r.violated, planned['sent'], srcmap)
        if report:
            ctx.violation(sig, 'TLC counterexample to %s reproduced on the real code: %s -> upstream %s' % (
                r.violated, describe_case(case), urls[:3]), {'case': case, 'expect_sent': planned['sent']})
        ctx.log('as-is %s: counterexample to %s reproduced on the real code' % (flag, r.violated))
        return False
    ctx.log('as-is %s: the real code does not follow the counterexample (%s): repaired variant' % (flag, urls[:2]))
    return True


def probe_crash(world):
    """does combining a source without supported_srs with one that has a list raise (HTTP 500, nothing sent)?"""
    q = {'srs': M, 'bbox': [0, 0, 320, 320], 'size': [8, 8], 'fmt': 'png', 'dims': []}
    urls, status, resp = world.map_request(['p19'], q)
    if status == 500 and not urls:
        return True
    if status == 200 and len(urls) == 2:
        return False
    raise tlc.MachineryError('probe of p19: status %s, upstream %s' % (status, urls))


def real_variant(ctx, world, oracle, sources, groups, srcmap, report=True):
    real = {}
    for flag in FLAGS:
        real[flag] = attack(ctx, world, oracle, sources, groups, flag, srcmap, report)
    real['MissingSrsListCrashes'] = probe_crash(world)
    ctx.log('model variant the real code conforms to: %s' % real)
    return real


def attack_universe(flag, sources, groups):
    geo = [c.sid for c in sources if not c.lattice]
    defs = 'LET GeoIds == %s\n    %s\n    %s\nIN ' % (tla_set(geo), XQ, IQ)
    if flag == 'BestSrsFromList':
        call = ('<<{<<s, IQ(srs, "inside", "in", "png", {})>> : s \\in %s, srs \\in {"EPSG:4326", "EPSG:31467", "%s"}}>>'
                % (tla_set(geo), M))
        return '=' + defs + call, '=<<>>'
    seqs = [(n,) for n in sorted(groups) if n.startswith('p')]
    mp = '<<{<<l, XQ(g, "%s", "png", {})>> : l \\in %s, g \\in %s}>>' % (M, tla_set(seqs), tla_set(map_geos()[:4]))
    return '=<<>>', '=' + defs + mp


# ---------------------------------------------------------------------------------------------
# the check
# ---------------------------------------------------------------------------------------------
def load_table(path):
    with open(path) as f:
        parts = json.load(f)['cases']
    cases = [c for part in parts for c in part]
    cases.sort(key=lambda c: json.dumps([c['kind'], c['s'], c['l'], c['q']], sort_keys=True))
    return cases


def vacuity(stats, need):
    for k in need:
        if not stats.get(k):
            raise tlc.MachineryError('vacuous table: no case of class %r (%s)' % (k, stats))


def judge_traces(ctx, sources, groups, flags, traces, reqs, srcmap, expected):
    """validate the recorded executions; invariant violations and rejected traces are violations on the real code"""
    invariants = PROPERTY_INVARIANTS + ['OracleInExtent']
    guards = ['TypeOK', 'ExactIsExact']
    r = matched = None
    for attempt in range(len(invariants) + 1):
        r, matched = validate_traces(ctx, 'batch%d' % attempt, sources, groups, flags, traces, invariants + guards)
        if r.violated in guards:
            raise tlc.MachineryError('trace validation: the recorder mislabelled an execution (%s): %s' % (
                r.violated, json.dumps(reqs[r.trace[-1][1].get('tid', 1) - 1])[:300] if r.trace else ''))
        if r.violated and r.violated in invariants and r.trace:
            st = r.trace[-1][1]
            tid = st.get('tid', 1)
            sent = [tla.jsonable(x) for x in st['sent']]
            if r.violated == 'OracleInExtent':
                sig = {'kind': 'invariant', 'invariant': 'OracleInExtent', 'path': 'reprojected',
                       'source': ','.join(sorted({m for x in sent for m in x['m']}))[:60]}
            else:
                sig = violation_signature(r.violated, sent, srcmap)
            ctx.violation(sig, 'recorded execution (a behaviour of the model of the code) violates %s: request %s -> upstream %s' % (
                r.violated, json.dumps(reqs[tid - 1])[:300],
                [e.get('url') for ev in traces[tid - 1] if ev['ev'] == 'result' for e in ev['sent']][:3]),
                {'request': reqs[tid - 1]})
            invariants = [i for i in invariants if i != r.violated]
            continue
        break
    if matched is None:
        raise tlc.MachineryError('trace validation: no verdict from TLC: %r\n%s' % (r, r.out[-2000:]))
    if r.error and not r.violated:
        raise tlc.MachineryError('trace validation: %r\n%s' % (r, r.out[-2000:]))
    nrej = 0
    for i, m in enumerate(matched):
        if m < len(traces[i]):
            nrej += 1
            e = traces[i][m]
            sig = {'kind': 'trace-rejected', 'event': e['ev'], 'request': reqs[i]['kind'],
                   'source': ','.join(traces[i][m - 1].get('m', [])) if m and traces[i][m - 1]['ev'] == 'getmap' else
                   ','.join(reqs[i].get('layers', []))[:60]}
            ctx.violation(sig, 'recorded execution is not a behaviour of the model at event %d %s (request %s)' % (
                m, json.dumps({k: v for k, v in e.items()})[:400], json.dumps(reqs[i])[:300]), {'request': reqs[i]})
    ctx.cov['traces_validated_against_impl'] += len(traces)
    ctx.cov['states'] += r.distinct
    ctx.cov['transitions'] += r.generated
    return nrej


def record_and_judge(ctx, flags, srcmap_extra=None):
    thorough = ctx.tier == 'thorough'
    oracle = Oracle()
    world, sources, groups = trace_world(ctx)
    rec = Recorder(world, oracle)
    try:
        n = (1200, 500, 800, 600) if thorough else (260, 120, 200, 160)
        reqs = drive(ctx, world, rec, oracle, *n)
    finally:
        rec.close()
        world.close()
    traces = rec.traces
    if len(traces) < 100:
        raise tlc.MachineryError('only %d executions recorded' % len(traces))
    kinds = {}
    for t in traces:
        for e in t:
            if e['ev'] == 'result':
                k = e['out'] + ('/combined' if any(len(x['m']) > 1 for x in e['sent']) else '') + (
                    '/reprojected' if not t[0]['q']['exact'] else '')
                kinds[k] = kinds.get(k, 0) + 1
    for must in ('ok', 'blank', 'ok/combined', 'ok/reprojected', 'blank/reprojected'):
        if not kinds.get(must):
            raise tlc.MachineryError('recorded executions do not cover %r: %s' % (must, kinds))
    srcmap = {c.sid: c for c in sources}
    nrej = judge_traces(ctx, sources, groups, flags, traces, reqs, srcmap, None)
    for t, rq in zip(traces, reqs):
        ctx.count(('trace', json.dumps(rq, sort_keys=True)))
    ctx.sample({'kind': 'execution recorded from the WSGI application, validated by Trace_Source',
                'request': reqs[0], 'events': strip_trace(traces[0])[:6]})
    ctx.log('traces: %d recorded executions validated (%d rejected, %d skipped near a geometric boundary); outcomes %s' % (
        len(traces), nrej, rec.skipped_fuzzy, dict(sorted(kinds.items()))))


def run(ctx):
    from harness import c17_shared
    WRITES_SHARED[0] = c17_shared.implements() == 'shared'
    c17_shared.run(ctx)
    thorough = ctx.tier == 'thorough'
    tlc.sany(SPEC)
    sources = lattice_sources() + geo_sources()
    srcmap = {c.sid: c for c in sources}
    groups = with_singletons(sources, GROUPS)
    oracle = Oracle()
    world = World(ctx.sub('world'), sources, groups)
    try:
        # (M) the three decisions known to differ from the property: model as it is, TLC's counterexample on the real code
        real = real_variant(ctx, world, oracle, sources, groups, srcmap)
        # (M) the model of the real code, exhaustively, with every invariant it is not already known to break
        call, mp = universe(ctx.tier, sources, groups)
        broken = {EXPECTED_WITH[f] for f in FLAGS if not real[f]}
        table = os.path.join(ctx.sub('table'), 'cases.json')
        r = run_model(ctx, 'real', model_consts(sources, groups, real, call, mp),
                      MODEL_INVARIANTS + [i for i in PROPERTY_INVARIANTS if i not in broken], export=table,
                      timeout=3000 if thorough else 900)
        if r.violated in PROPERTY_INVARIANTS and r.trace:
            case, planned, urls, same = confront(ctx, world, oracle, r, srcmap)
            if not same:
                raise tlc.MachineryError('the model violates %s at %s but the real code does not follow (%s): the model is '
                                         'not faithful' % (r.violated, describe_case(case), urls[:2]))
            ctx.violation(violation_signature(r.violated, planned['sent'], srcmap),
                          'TLC counterexample to %s reproduced on the real code: %s -> upstream %s' % (
                              r.violated, describe_case(case), urls[:3]), {'case': case, 'expect_sent': planned['sent']})
        elif not r.ok:
            raise tlc.MachineryError('Source.tla: %r\n%s' % (r, r.out[-2000:]))
        else:
            ctx.add_tlc('Source/real-code-variant', r)
        if broken:
            # everything else: the repaired model satisfies the whole property
            r2 = run_model(ctx, 'repaired', model_consts(sources, groups, dict(real, **{f: True for f in FLAGS}), call, mp),
                           MODEL_INVARIANTS + PROPERTY_INVARIANTS, timeout=3000 if thorough else 900)
            if not r2.ok:
                raise tlc.MachineryError('Source.tla with the three repairs: %r\n%s' % (r2, r2.out[-2000:]))
            ctx.add_tlc('Source/repaired-variant', r2)
        # vacuity guard: action coverage on a small universe
        _, cm = attack_universe('CombineChecksRes', sources, groups)
        small_call = ('=LET GeoIds == %s\n    %s\n    %s\nIN <<{<<s, XQ(g, "%s", "png", {"time"})>> : s \\in %s, g \\in %s}>>' % (
            tla_set([c.sid for c in sources if not c.lattice]), XQ, IQ, M,
            tla_set([c.sid for c in sources if c.lattice]), tla_set(small_geos() + tile_geos('quick')[::9])))
        rc = run_model(ctx, 'coverage', model_consts(sources, groups, real, small_call, cm), ['TypeOK'], coverage=True,
                       workers=4)
        if not rc.ok:
            raise tlc.MachineryError('coverage run: %r\n%s' % (rc, rc.out[-1500:]))
        for a in ACTIONS:
            if rc.coverage.get(a, (0, 0))[0] == 0:
                raise tlc.MachineryError('vacuous model: action %s has coverage %r' % (a, rc.coverage.get(a)))
        ctx.add_tlc('Source/action-coverage', rc)
        # (R) spec -> code
        if os.path.exists(table):
            cases = load_table(table)
            stats, ndiff = run_table(ctx, world, oracle, cases)
            vacuity(stats, ['ok', 'blank:res', 'blank:cov', 'blank:size', 'error:InvalidSourceQuery', 'error:NoTiles',
                            'error:TypeError', 'map', 'tile', 'combined'] + (
                                ['error:AttributeError'] if real['MissingSrsListCrashes'] else []))
            ctx.log('table: %d cases of the TLC table executed on the real code (%d differ); classes %s' % (
                len(cases), ndiff, dict(sorted(stats.items()))))
            k = len(cases) // 3
            ctx.sample({'kind': 'case of the TLC table executed on the real source', 'case': describe_case(cases[k]),
                        'planned': cases[k]['plan']['results'][:1]})
    finally:
        world.close()
    # (T) code -> spec
    record_and_judge(ctx, real)
    ctx.assumptions += [
        'GetMap and tile requests only: GetFeatureInfo / GetLegendGraphic requests to the upstream are outside the anchored '
        'mechanism (WMSInfoClient keeps the full bbox and the client SRS code of an equal SRS)',
        'exact geometry on integer bboxes in EPSG:3857 / EPSG:900913 with bbox coverages in the same SRS; for requests that '
        'need a reprojection the relation of the bbox to coverage and resolution range and "sent bbox inside the extent" are '
        'facts of a pyproj oracle (extent = bounding box of the densely transformed coverage outline, relative tolerance '
        '1e-6); requests within 3e-4 of a coverage edge or 1e-4 of a resolution limit are not recorded',
        'coverages are bounding boxes (the extent of a polygon coverage is its bounding box); resolution limits are given '
        'as min_res/max_res (not as scales); a request exactly at max_res may be answered either way (documented exclusive, '
        'implemented inclusive)',
        'one WMS layer per source group, transparent sources (no opaque-layer pruning), concurrent_layer_renderer 1, no '
        'authorisation, no srs extents, no error handlers, HTTP GET; tile grids with the default stretch/shrink factors and '
        'no threshold_res',
    ]
    return ctx.finish('model_checking',
                      'TLC: Source.tla exhaustively for the catalogue of source configurations x queries; distinct = distinct '
                      '(source or layer list, query) cases of the TLC table executed on the real code + distinct recorded '
                      'requests validated by the trace spec')


def replay(ctx, data):
    try:
        return _replay(ctx, data)
    finally:
        shutil.rmtree(ctx.workdir, ignore_errors=True)


def _replay(ctx, data):
    case = data.get('case') or {}
    oracle = Oracle()
    if 'case' in case:
        sources = lattice_sources() + geo_sources()
        groups = with_singletons(sources, GROUPS)
        world = World(ctx.sub('world'), sources, groups)
        try:
            c = case['case']
            q = case_query(c, oracle, world.sources)
            if c['kind'] == 'call':
                urls, out = world.call(c['s'], q)
            else:
                urls, status, resp = world.map_request(c['l'], q)
                out = status
            print('replay: %s' % describe_case(c))
            for u in urls:
                print('   upstream:', u)
            print('   outcome:', out)
            if 'plan' in case:
                why = compare_case(case['plan']['results'], urls, [out] if c['kind'] == 'call' else None)
                print('replay: %s' % (why or 'as planned by the model'))
                return 1 if why else 0
            plan = [norm_planned(x) for x in case.get('expect_sent', [])]
            parsed = [parse_url(u) for u in urls]
            same = len(plan) <= len(parsed) and all(norm_observed(u, p) == p for u, p in zip(parsed, plan))
            print('replay: the real code %s the violating requests of the counterexample' % ('sends' if same else 'does not send'))
            return 1 if same else 0
        finally:
            world.close()
    if 'request' in case:
        rq = case['request']
        world, sources, groups = trace_world(ctx, 'replay')
        rec = Recorder(world, oracle)
        try:
            if rq['kind'] == 'tms':
                world.app.get(rq['path'], expect_errors=True)
            else:
                send_map(world, rec, rq['layers'], rq['q'], rq['kind'] == 'map')
        finally:
            rec.close()
            world.close()
        for t in rec.traces:
            for e in strip_trace(t):
                print('  ', json.dumps(e)[:300])
        if not rec.traces:
            print('replay: nothing recorded')
            return 0
        base = lattice_sources() + geo_sources()
        w2 = World(ctx.sub('world'), base, with_singletons(base, GROUPS))
        try:
            real = real_variant(ctx, w2, oracle, base, with_singletons(base, GROUPS), {c.sid: c for c in base}, report=False)
        finally:
            w2.close()
        r, matched = validate_traces(ctx, 'replay', sources, groups, real, rec.traces, PROPERTY_INVARIANTS + ['OracleInExtent'])
        if matched is None:
            raise tlc.MachineryError('replay: no verdict from TLC\n' + r.out[-1500:])
        if r.violated and r.violated != 'postcondition':
            print('replay: the recorded execution violates %s' % r.violated)
            return 1
        if any(m < len(t) for m, t in zip(matched, rec.traces)):
            print('replay: the recorded execution is not a behaviour of the model')
            return 1
        print('replay: accepted, all invariants hold')
        return 0
    print('replay: nothing to replay')
    return 0
