"""C17 - upstream servers are only asked for what they are configured to support.

spec/Source.tla models the way from "a map query reaches a source" (WMS GetMap through WMSServer.map /
LayerRenderer.combined_layers, or get_map of one source called by a tile manager) to the URLs handed to the
HTTP client: resolution gate, coverage gate, format and SRS negotiation (codes of equal SRS, preferred-SRS rules),
sub-query limited to the coverage extent, dimension forwarding, combination of WMS sources, tile lookup in the
source grid.  TLC checks the seven statements of the property on the model for a catalogue of source
configurations x queries on an integer lattice (plus reprojected queries whose geometric relation to the source
is a fact established by a pyproj oracle), and exports the table of all cases with the planned requests; every
case is executed on the real sources (built by the configuration loader) or through the real WSGI application
with a recording HTTP client (spec -> code).  Random requests through the WSGI application (WMS GetMap on direct
and cached layers, TMS tiles; lattice world and a reprojected world) are recorded at LayerRenderer / get_map /
HTTPClient.open and validated by TLC against spec/trace/Trace_Source.tla with all invariants (code -> spec).
"""
import io
import json
import logging
import math
import os
import re
import shutil
from urllib.parse import urlsplit, parse_qsl

from engine import tlc, tla

SPEC = os.path.join(tlc.SPEC_DIR, 'Source.tla')
TRACE_SPEC = os.path.join(tlc.SPEC_DIR, 'trace', 'Trace_Source.tla')

PROPERTY_INVARIANTS = ['SrsSupported', 'FormatSupported', 'BBoxInsideExtent', 'OnlyForwardedDims', 'TileInGrid',
                       'NoContactWhenDisjoint', 'NoContactOutOfRange']
MODEL_INVARIANTS = ['TypeOK', 'ExactIsExact', 'PlanOK']
ACTIONS = ['DoMapRequest', 'DoCall', 'FilterLayers', 'Combine', 'StartUnit', 'TileCheck', 'ResGate', 'CovGate',
           'Negotiate', 'Extent', 'TileGet', 'Done']

SRS_CLASS = {'EPSG:3857': 'merc', 'EPSG:900913': 'merc', 'EPSG:4326': 'll', 'EPSG:25832': 'utm32',
             'EPSG:25833': 'utm33', 'EPSG:31467': 'gk3'}
CANON = {'merc': 'EPSG:3857', 'll': 'EPSG:4326', 'utm32': 'EPSG:25832', 'utm33': 'EPSG:25833', 'gk3': 'EPSG:31467'}
LATLONG = {'EPSG:4326'}
# globals.srs.preferred_src_proj of the test configuration
PREFERRED = {'EPSG:3857': ('EPSG:31467', 'EPSG:4326'),
             'EPSG:4326': ('EPSG:900913', 'EPSG:25832'),
             'EPSG:31467': ('EPSG:25833', 'EPSG:25832')}
DIMLIKE = {'time', 'elevation', 'dim_x'}
WMS_KEYS = {'layers', 'styles', 'srs', 'crs', 'bbox', 'width', 'height', 'format', 'request', 'service', 'version',
            'transparent', 'exceptions', 'bgcolor'}
UNKNOWN4 = [0, 0, 0, 0]

# the model variants: FALSE = the code as it was found
FLAGS = ['CombineChecksRes', 'BestSrsFromList', 'CombineChecksCodes']


# ---------------------------------------------------------------------------------------------
# catalogue of source configurations: described once, rendered as constants of the model and as
# MapProxy configuration
# ---------------------------------------------------------------------------------------------
class Cfg(object):
    def __init__(self, sid, kind='wms', host='h1', srs=(), fmts=(), ofmt='', cov=None, minres=0, maxres=0, fwd=(),
                 opq=False, grid=None, lattice=True, base=None):
        self.sid = sid
        self.kind = kind
        self.host = host
        self.srs = tuple(srs)
        self.fmts = tuple(fmts)
        self.ofmt = ofmt
        self.cov = cov            # (srs code, bbox) or None
        self.minres = minres
        self.maxres = maxres
        self.fwd = frozenset(fwd)
        self.opq = opq
        self.grid = grid          # dict(srs, bbox, res, ts, ul) for tile sources
        self.lattice = lattice
        self.base = base or sid   # name of the configured source this object is an instance of

    def record(self):
        """the constant record of the model"""
        cov = {'on': bool(self.cov), 'srs': self.cov[0] if self.cov else '',
               'bbox': tuple(self.cov[1]) if self.cov and self.lattice else (0, 0, 0, 0)}
        g = self.grid or dict(srs='', bbox=(0, 0, 0, 0), res=(1,), ts=(1, 1), ul=False)
        flag = (lambda v: v) if self.lattice else (lambda v: 1 if v else 0)
        return {'kind': self.kind, 'host': self.host, 'srs': self.srs, 'fmts': self.fmts, 'ofmt': self.ofmt,
                'cov': cov, 'minres': flag(self.minres), 'maxres': flag(self.maxres), 'fwd': set(self.fwd),
                'opq': self.opq, 'lattice': self.lattice,
                'grid': {'srs': g['srs'], 'bbox': tuple(g['bbox']), 'res': tuple(g['res']), 'ts': tuple(g['ts']),
                         'ul': bool(g['ul'])}}

    def conf(self, grid_name=None):
        if self.kind == 'tile':
            c = {'type': 'tile', 'url': 'http://%s/%%(z)s/%%(x)s/%%(y)s.png' % self.host, 'grid': grid_name}
        else:
            req = {'url': 'http://%s/service' % self.host, 'layers': self.base, 'transparent': True}
            if self.ofmt:
                req['format'] = 'image/' + self.ofmt
            c = {'type': 'wms', 'req': req}
            if self.srs:
                c['supported_srs'] = list(self.srs)
            if self.fmts:
                c['supported_formats'] = ['image/' + f for f in self.fmts]
            if self.fwd:
                c['forward_req_params'] = sorted(self.fwd)
            if self.opq:
                c['image'] = {'opacity': 0.5}
        if self.cov:
            c['coverage'] = {'bbox': list(self.cov[1]), 'srs': self.cov[0]}
        if self.minres:
            c['min_res'] = self.minres
        if self.maxres:
            c['max_res'] = self.maxres
        return c


M, A = 'EPSG:3857', 'EPSG:900913'
COV_A = (M, (100, 60, 500, 420))
COV_A2 = (A, (100, 60, 500, 420))
COV_B = (A, (130, 90, 370, 250))
COV_C = (M, (0, 0, 640, 640))
COV_D = (M, (-200, -200, 90, 90))

G_S = dict(srs=M, bbox=(0, 0, 640, 640), res=(80, 40, 20), ts=(4, 4), ul=False)
G_UL = dict(srs=M, bbox=(0, 0, 640, 400), res=(80, 40, 20), ts=(4, 4), ul=True)
G_FLOOR = dict(srs=M, bbox=(0, 0, 650, 650), res=(80, 40, 20), ts=(4, 4), ul=False)
G_ALIAS = dict(srs=A, bbox=(0, 0, 640, 640), res=(80, 40, 20), ts=(4, 4), ul=False)
G_RECT = dict(srs=M, bbox=(0, 0, 960, 320), res=(160, 80, 40), ts=(3, 2), ul=False)


def lattice_sources():
    s = [
        Cfg('w01'),
        Cfg('w02', srs=(M,), fmts=('png',), cov=COV_A, fwd=('time',)),
        Cfg('w03', srs=(A,), fmts=('jpeg', 'png'), cov=COV_B, minres=40, fwd=('time', 'dim_x')),
        Cfg('w04', srs=('EPSG:4326', A), fmts=('jpeg',), ofmt='png', cov=COV_A, maxres=40, fwd=('elevation', 'foo')),
        Cfg('w05', srs=('EPSG:25832', M, A), ofmt='jpeg', minres=80, maxres=20),
        Cfg('w06', srs=('EPSG:25832', 'EPSG:4326'), fmts=('png',), fwd=('time',)),
        Cfg('w07', srs=(M,), fmts=('jpeg', 'png'), ofmt='jpeg', cov=COV_C, minres=80, fwd=('foo',)),
        Cfg('w08', fmts=('jpeg',), cov=COV_B, fwd=('dim_x',)),
        Cfg('w09', srs=(A, M), fmts=('png', 'jpeg'), ofmt='png', cov=COV_D, maxres=20),
        # one upstream server (h2) offering several layers: what combined_layers may merge
        Cfg('k01', host='h2', srs=(M,), minres=40),
        Cfg('k02', host='h2', srs=(M,), maxres=40),
        Cfg('k03', host='h2', srs=(M,)),
        Cfg('k04', host='h2', srs=(A,)),
        Cfg('k05', host='h2', srs=(M,), cov=COV_A),
        Cfg('k06', host='h2', srs=(M,), cov=COV_A, fwd=('time',)),
        Cfg('k07', host='h2', srs=(M,), fmts=('png',)),
        Cfg('k08', host='h2', srs=(M,), opq=True),
        Cfg('k09', host='h3', srs=(M,)),
        Cfg('k10', host='h2', srs=(M,), cov=COV_A2),
        Cfg('k11', host='h2', srs=(M,), minres=80, maxres=20),
        Cfg('k12', host='h2', srs=(M,), fwd=('time',)),
        Cfg('k13', host='h2', srs=(M,), cov=COV_B),
        Cfg('k14', host='h2', srs=(M,), maxres=80),
        # tile upstreams
        Cfg('t01', kind='tile', host='t01', grid=G_S),
        Cfg('t02', kind='tile', host='t02', grid=G_UL, cov=(M, (100, 60, 500, 300))),
        Cfg('t03', kind='tile', host='t03', grid=G_FLOOR, maxres=40),
        Cfg('t04', kind='tile', host='t04', grid=G_ALIAS, minres=40, cov=COV_B),
        Cfg('t05', kind='tile', host='t05', grid=G_RECT),
    ]
    return s


GROUPS = {
    'p01': ('k01', 'k02'), 'p02': ('k02', 'k01'), 'p03': ('k01', 'k03'), 'p04': ('k03', 'k04'), 'p05': ('k04', 'k03'),
    'p06': ('k05', 'k06'), 'p07': ('k05', 'k10'), 'p08': ('k03', 'k07'), 'p09': ('k03', 'k08'), 'p10': ('k03', 'k09'),
    'p11': ('k01', 'k11'), 'p12': ('k03', 'k12'), 'p13': ('k12', 'k06'), 'p14': ('k01', 'k03', 'k02'),
    'p15': ('k03', 'k09', 'k03'), 'p16': ('k05', 'k13'), 'p17': ('k14', 'k11', 'k02'), 'p18': ('w02', 'w03'),
}

# reprojected ("geo") world: real-world coordinates, relations established by the oracle
GEO_COV = ('EPSG:4326', (6.0, 47.0, 14.0, 54.0))
GEO_COV_UTM = ('EPSG:25832', (300000.0, 5300000.0, 800000.0, 5900000.0))


def geo_sources():
    return [
        Cfg('g01', host='h4', srs=(M, 'EPSG:25832'), fmts=('png',), cov=GEO_COV, minres=2000, maxres=50,
            fwd=('time',), lattice=False),
        Cfg('g02', host='h4', srs=('EPSG:4326',), fmts=('jpeg', 'png'), ofmt='jpeg', lattice=False),
        Cfg('g03', host='h4', srs=('EPSG:25832', 'EPSG:31467'), cov=GEO_COV_UTM, fwd=('elevation', 'foo'),
            lattice=False),
        Cfg('g04', host='h4', srs=(A,), fmts=('png',), cov=GEO_COV, lattice=False),
        Cfg('g05', host='h4', srs=('EPSG:25833', 'EPSG:4326', M), minres=2000, lattice=False),
        Cfg('g06', host='h4', cov=GEO_COV_UTM, maxres=50, fwd=('dim_x',), lattice=False),
    ]


def with_singletons(sources, groups):
    g = dict(groups)
    for c in sources:
        if c.kind == 'wms':
            g['s' + c.sid] = (c.sid,)
    return g


# ---------------------------------------------------------------------------------------------
# query universes (rendered as TLA+ set expressions)
# ---------------------------------------------------------------------------------------------
def lattice_geos(tier):
    """<<x0, y0, w, h, rx, ry>>: bbox = x0, y0, x0 + w rx, y0 + h ry; size = w, h"""
    xs = [-80, 0, 93, 100, 127, 260, 417, 500, 560]
    ys = [-40, 60, 91, 250, 417, 430]
    geos = set()
    for rx in (10, 20, 40, 80):
        for x in xs:
            for y in ys:
                geos.add((x, y, 4, 4, rx, rx))
    for x in (-80, 93, 260, 417):
        for y in (-40, 91, 417):
            geos.add((x, y, 7, 5, 20, 20))
            geos.add((x, y, 5, 7, 40, 40))
            geos.add((x, y, 4, 4, 40, 20))      # non-square pixels: the `or` of the resolution gate
            geos.add((x, y, 4, 4, 20, 80))
            geos.add((x, y, 6, 6, 39, 41))
            geos.add((x, y, 3, 3, 81, 81))
            geos.add((x, y, 8, 8, 19, 19))
    # slivers: overlap with a coverage thinner than a pixel
    for g in [(20, 100, 4, 4, 20, 20), (60, 100, 4, 4, 20, 20), (99, 100, 4, 4, 80, 80), (495, 100, 4, 4, 40, 40),
              (120, 415, 4, 4, 40, 40), (120, 20, 4, 4, 10, 10), (85, 75, 4, 4, 5, 5), (-280, -280, 4, 4, 80, 80)]:
        geos.add(g)
    if tier == 'thorough':
        for rx in (10, 20, 40, 80):
            for x in range(-80, 600, 37):
                for y in range(-60, 460, 53):
                    geos.add((x, y, 6, 5, rx, rx))
    return sorted(geos)


def small_geos():
    return [(0, 0, 4, 4, 20, 20), (93, 91, 7, 5, 40, 40), (260, 250, 4, 4, 80, 80), (417, 60, 4, 4, 10, 10),
            (-80, -40, 6, 6, 39, 41), (127, 91, 4, 4, 40, 40)]


def map_geos():
    return [(0, 0, 8, 8, 20, 20), (0, 0, 8, 8, 40, 40), (0, 0, 8, 8, 80, 80), (93, 91, 7, 5, 40, 40),
            (260, 250, 4, 4, 10, 10), (417, 60, 6, 6, 160, 160), (-80, -40, 6, 6, 39, 41), (560, 430, 4, 4, 20, 20),
            (99, 100, 4, 4, 80, 80), (127, 91, 5, 5, 20, 80)]


QUERY_GRIDS = [   # the grids of the caches in front of the tile sources: (bbox, res list, tile size)
    ((0, 0, 640, 640), (80, 40, 20), (4, 4)),
    ((0, 0, 1280, 1280), (80, 40, 20), (4, 4)),
    ((0, 0, 640, 400), (80, 40, 20), (4, 4)),
    ((-79, -79, 561, 561), (80, 20), (4, 4)),
    ((1, 1, 641, 641), (40,), (4, 4)),
    ((0, 0, 640, 640), (30, 22, 19, 10), (4, 4)),
    ((0, 0, 1600, 1600), (400, 200), (4, 4)),
    ((0, 0, 640, 640), (40,), (8, 8)),
    ((0, 0, 960, 320), (160, 80, 40), (3, 2)),
    ((0, 0, 960, 640), (80, 40), (3, 2)),
]


def tile_geos(tier):
    geos = set()
    for bbox, ress, ts in QUERY_GRIDS:
        W, H = bbox[2] - bbox[0], bbox[3] - bbox[1]
        for r in ress:
            nx = -(-W // (r * ts[0]))
            ny = -(-H // (r * ts[1]))
            lim = 6 if tier != 'thorough' else 12
            for x in list(range(min(nx, lim))) + [nx - 1, nx]:
                for y in list(range(min(ny, lim))) + [ny - 1, ny]:
                    geos.add((bbox[0] + x * r * ts[0], bbox[1] + y * r * ts[1], ts[0], ts[1], r, r))
    return sorted(geos)


def tla_set(items):
    return '{' + ', '.join(tla.to_tla(i) for i in items) + '}'


DIMSETS = [(), ('time',), ('time', 'dim_x', 'foo'), ('elevation', 'bar'), ('foo',), ('time', 'elevation', 'dim_x', 'foo', 'bar')]

XQ = ('XQ(g, srs, f, d) == [srs |-> srs, bbox |-> <<g[1], g[2], g[1] + g[3] * g[5], g[2] + g[4] * g[6]>>, '
      'size |-> <<g[3], g[4]>>, fmt |-> f, dims |-> d, exact |-> TRUE, rel |-> <<>>]')
IQ = ('IQ(srs, cr, rr, f, d) == [srs |-> srs, bbox |-> <<0, 0, 0, 0>>, size |-> <<0, 0>>, fmt |-> f, dims |-> d, '
      'exact |-> FALSE, rel |-> [s \\in GeoIds |-> [res |-> rr, cov |-> cr]]]')


def universe(tier, sources, groups):
    """TLA+ text of CallCases and MapCases"""
    lat_wms = [c.sid for c in sources if c.kind == 'wms' and c.lattice]
    tiles = [c.sid for c in sources if c.kind == 'tile']
    geo = [c.sid for c in sources if not c.lattice]
    geo_cov = [c.sid for c in sources if not c.lattice and c.cov]
    geo_nocov = [c.sid for c in sources if not c.lattice and not c.cov]
    dimsets = [set(d) for d in DIMSETS]
    defs = 'LET GeoIds == %s\n    %s\n    %s\nIN ' % (tla_set(geo), XQ, IQ)
    geo_srs = ['EPSG:4326', M, A, 'EPSG:25832', 'EPSG:31467']
    call = [
        '{<<s, XQ(g, srs, "png", {"time", "dim_x", "foo"})>> : s \\in %s, g \\in %s, srs \\in {"%s", "%s"}}' % (
            tla_set(lat_wms), tla_set(lattice_geos(tier)), M, A),
        '{<<s, XQ(g, srs, f, d)>> : s \\in %s, g \\in %s, srs \\in {"%s", "%s"}, f \\in {"png", "jpeg", "gif"}, d \\in %s}' % (
            tla_set(lat_wms), tla_set(small_geos()), M, A, tla_set(dimsets)),
        '{<<s, XQ(g, srs, "png", {})>> : s \\in %s, g \\in %s, srs \\in {"%s", "%s", "EPSG:4326"}}' % (
            tla_set(tiles), tla_set(tile_geos(tier)), M, A),
        '{<<s, IQ(srs, cr, rr, f, d)>> : s \\in %s, srs \\in %s, cr \\in {"inside", "partial", "disjoint"}, '
        'rr \\in {"in", "out"}, f \\in {"png", "jpeg"}, d \\in {{}, {"time", "elevation", "foo"}}}' % (
            tla_set(geo_cov), tla_set(geo_srs)),
        '{<<s, IQ(srs, "inside", rr, f, d)>> : s \\in %s, srs \\in %s, '
        'rr \\in {"in", "out"}, f \\in {"png", "jpeg"}, d \\in {{}, {"time", "elevation", "foo"}}}' % (
            tla_set(geo_nocov), tla_set(geo_srs)),
    ]
    names = sorted(groups)
    pairs = [n for n in names if n.startswith('p')]
    singles = [n for n in names if n.startswith('sk') or n.startswith('sw')]
    seqs = [(n,) for n in names if not n.startswith('sg')]
    seqs += [('sk03', 'sk01'), ('sk01', 'sk02'), ('p01', 'sk03'), ('sk03', 'p02'), ('sk12', 'sk06'), ('sw02', 'sk05'),
             ('sk04', 'sk03'), ('sk11', 'p01'), ('sw05', 'sw07'), ('sk03', 'sk09', 'sk03'), ('sk02', 'sk14', 'sk01')]
    gseqs = [('s' + g,) for g in geo]
    mp = [
        '{<<l, XQ(g, srs, "png", d)>> : l \\in %s, g \\in %s, srs \\in {"%s", "%s"}, d \\in %s}' % (
            tla_set(seqs), tla_set(map_geos()), M, A, tla_set([set(), {'time', 'foo'}, {'elevation', 'dim_x', 'bar'}])),
        '{<<l, IQ(srs, cr, rr, "png", d)>> : l \\in %s, srs \\in {"EPSG:4326", "%s", "EPSG:25832"}, '
        'cr \\in {"inside", "partial", "disjoint"}, rr \\in {"in", "out"}, d \\in {{}, {"time", "foo"}}}' % (
            tla_set([('s' + g,) for g in geo_cov]), M),
        '{<<l, IQ(srs, "inside", rr, "png", d)>> : l \\in %s, srs \\in {"EPSG:4326", "%s", "EPSG:25832"}, '
        'rr \\in {"in", "out"}, d \\in {{}, {"time", "foo"}}}' % (
            tla_set([('s' + g,) for g in geo_nocov]), M),
    ]
    del pairs, singles, gseqs
    # (sequences of sets: TLC's union of large enumerated sets is quadratic)
    return '=' + defs + '<<' + ',\n  '.join(call) + '>>', '=' + defs + '<<' + ',\n  '.join(mp) + '>>'


def model_consts(sources, groups, flags, call_cases, map_cases):
    return {
        'Src': {c.sid: c.record() for c in sources},
        'Groups': {k: tuple(v) for k, v in groups.items()},
        'SrsClass': dict(SRS_CLASS),
        'LatLong': set(LATLONG),
        'Preferred': {k: tuple(v) for k, v in PREFERRED.items()},
        'DimLike': set(DIMLIKE),
        'CombineChecksRes': bool(flags['CombineChecksRes']),
        'BestSrsFromList': bool(flags['BestSrsFromList']),
        'CombineChecksCodes': bool(flags['CombineChecksCodes']),
        'MapCases': map_cases,
        'CallCases': call_cases,
    }


# ---------------------------------------------------------------------------------------------
# TLC runs
# ---------------------------------------------------------------------------------------------
TABLE_DEF = (
    'Table == [i \\in DOMAIN CallCases |-> {[kind |-> "call", s |-> cc[1], l |-> <<>>, q |-> cc[2], plan |-> PlanCall(cc[1], cc[2])] : cc \\in CallCases[i]}]\n'
    '    \\o [i \\in DOMAIN MapCases |-> {[kind |-> "map", s |-> "", l |-> mc[1], q |-> mc[2], plan |-> PlanMap(mc[1], mc[2])] : mc \\in MapCases[i]}]\n')


def run_model(ctx, name, consts, invariants, export=None, timeout=900, workers=16):
    d = ctx.sub('mc-' + name)
    extra = ''
    extends = []
    if export:
        extends = ['Json', 'TLCExt']
        extra = TABLE_DEF + 'ASSUME JsonSerialize("%s", [cases |-> Table])' % export
    mp, cp = tlc.write_mc(d, 'Source', 'MC_' + re.sub(r'\W', '_', name), consts, invariants=list(invariants),
                          extra_defs=extra, extends=extends)
    r = tlc.run(mp, cp, d, timeout=timeout, workers=workers)
    ctx.log('TLC %s: %r' % (name, r))
    return r
