"""OFFLINE - caches with several sources of which some (or all) have no picture for a tile: coverages and `seed_only`
sources, the offline mode of MapProxy (not one of the listed properties; extends coverage).

spec/Offline.tla: the store maps a tile to the set of sources whose pictures are in it; requests while serving (seed_only
sources switched off), seed runs (all sources, cached tiles skipped), removals.  NeverStoresBlank, SeedLeavesNoHole,
OfflineIsReadOnly, OnlyAskedWhatDelivers, AnswerIsStored.  TLC explores all histories for every small configuration
(1-3 sources x coverage patterns x seed_only patterns).

Binding: a real MapProxy application (configuration loader, WMS sources with coverages and seed_only, file cache, TMS
service) and the real seed_task on the same cache directory; source i paints band i of the tile, so an image tells which
sources are in it.  TLC behaviours are executed step by step, random histories are validated by TLC
(spec/trace/Trace_Offline.tla).  Variant "asfound" (with two or more sources a tile no source has a picture for is merged
from nothing and stored as a blank tile) is the code before the repair; its counterexample is run on the real code.
"""
import io
import json
import os
import shutil
import sys
import tempfile

from engine import tlc
from harness.c05 import parse_action

SPEC = os.path.join(tlc.SPEC_DIR, 'Offline.tla')
INVS = ['TypeOK', 'NeverStoresBlank']
PROPS = ['OnlyAskedWhatDelivers', 'SeedLeavesNoHole', 'OfflineIsReadOnly', 'AnswerIsStored']
TILES = ['t0', 't1', 't2', 't3']
TS = 12                # tile size in pixels; band i = rows 3*(i-1) .. 3*i-1
SPAN = 100             # ground units per tile

_state = {'world': None, 'done': False}


def install():
    if _state['done']:
        return
    import mapproxy.client.http as H
    from urllib.parse import urlparse, parse_qs

    def fake_open(self, url, data=None, method=None):
        from PIL import Image
        w = _state['world']
        u = urlparse(url)
        if w is None or not u.netloc.startswith('src'):
            raise H.HTTPClientError('no world for %s' % url, response_code=500)
        i = int(u.netloc[3:].split('.')[0])
        with open(w.logf, 'a') as f:              # (seed workers are processes of their own: the log is a file)
            f.write('%d\n' % i)
        q = {k.lower(): v[0] for k, v in parse_qs(u.query).items()}
        width, height = int(q['width']), int(q['height'])
        bbox = [float(v) for v in q['bbox'].split(',')]
        # the picture of source i: its band (in tile coordinates) opaque, everything else transparent; drawn by ground position
        img = Image.new('RGBA', (width, height), (0, 0, 0, 0))
        px = img.load()
        ry = (bbox[3] - bbox[1]) / height
        for j in range(height):
            y = bbox[3] - (j + 0.5) * ry                      # ground y of the pixel centre
            row = int((SPAN - (y % SPAN)) / (SPAN / float(TS)))   # pixel row inside its tile
            if 3 * (i - 1) <= row < 3 * i:
                for x in range(width):
                    px[x, j] = (40 * i, 200, 10, 255)
        b = io.BytesIO()
        img.save(b, 'PNG')
        b.seek(0)
        b.headers = {'Content-type': 'image/png'}
        b.code = 200
        return b

    H.HTTPClient.open = fake_open
    _state['done'] = True


class World(object):
    def __init__(self, nsrc, delivers, seed_only):
        """delivers: {i: set of tile names}; seed_only: {i: bool}"""
        install()
        self.nsrc, self.delivers, self.seed_only = nsrc, delivers, seed_only
        self.dir = tempfile.mkdtemp(prefix='verif-offline-')
        self.logf = os.path.join(self.dir, 'asked.log')
        open(self.logf, 'w').close()
        sources = {}
        for i in range(1, nsrc + 1):
            s = {'type': 'wms', 'req': {'url': 'http://src%d.invalid/service' % i, 'layers': 'l%d' % i, 'transparent': True},
                 'supported_srs': ['EPSG:3857']}
            d = sorted(int(t[1:]) for t in delivers[i])
            if d != list(range(4)):
                if not d:
                    raise tlc.MachineryError('empty coverage')
                runs, cur = [], [d[0]]
                for k in d[1:]:
                    if k == cur[-1] + 1:
                        cur.append(k)
                    else:
                        runs.append(cur)
                        cur = [k]
                runs.append(cur)
                # strictly inside the runs of tiles (no edge on a tile border); several runs: a union, whose bounding box
                # spans tiles that are not in it
                boxes = [{'bbox': [r[0] * SPAN + 3, -SPAN, (r[-1] + 1) * SPAN - 3, 2 * SPAN], 'srs': 'EPSG:3857'} for r in runs]
                s['coverage'] = boxes[0] if len(boxes) == 1 else {'union': boxes}
            if seed_only[i]:
                s['seed_only'] = True
            sources['s%d' % i] = s
        self.conf = {
            'services': {'tms': {}},
            'grids': {'g': {'srs': 'EPSG:3857', 'bbox': [0, 0, 4 * SPAN, SPAN], 'res': [SPAN / float(TS)], 'tile_size': [TS, TS],
                            'origin': 'nw'}},
            'sources': sources,
            'caches': {'c': {'grids': ['g'], 'sources': ['s%d' % i for i in range(1, nsrc + 1)], 'format': 'image/png',
                             'meta_size': [1, 1], 'meta_buffer': 0, 'image': {'transparent': True},
                             'cache': {'type': 'file', 'directory': os.path.join(self.dir, 'cache')}}},
            'layers': [{'name': 'lay', 'title': 'lay', 'sources': ['c']}],
            'globals': {'image': {'paletted': False, 'resampling_method': 'nearest'},
                        'cache': {'base_dir': os.path.join(self.dir, 'cd'), 'lock_dir': os.path.join(self.dir, 'locks'),
                                  'tile_lock_dir': os.path.join(self.dir, 'tlocks'), 'concurrent_tile_creators': 1}}}
        pc = self.build(False)
        from mapproxy.wsgiapp import MapProxyApp
        from webtest import TestApp
        self.app = TestApp(MapProxyApp(pc.configured_services(), pc.base_config))
        self.cache = pc.caches['c'].caches()[0][2].cache

    def build(self, seed):
        from mapproxy.config.loader import ProxyConfiguration
        _state['world'] = self
        return ProxyConfiguration(json.loads(json.dumps(self.conf)), conf_base_dir=self.dir, seed=seed, renderd=False)

    def close(self):
        if _state['world'] is self:
            _state['world'] = None
        shutil.rmtree(self.dir, ignore_errors=True)

    def bands(self, data):
        """-> sorted list of sources whose band is opaque in the image (a band that is partly opaque is an error)"""
        from PIL import Image
        img = Image.open(io.BytesIO(data)).convert('RGBA')
        if img.size != (TS, TS):
            raise ValueError('image of size %r' % (img.size,))
        px = img.load()
        out = []
        for i in range(1, 4):
            alphas = {px[x, y][3] for x in range(2, TS - 2) for y in range(3 * (i - 1), 3 * i)}
            if alphas == {255}:
                out.append(i)
            elif alphas != {0}:
                raise ValueError('band %d is neither opaque nor clear: %r' % (i, alphas))
        rest = {px[x, y][3] for x in range(TS) for y in range(9, TS)}
        if rest != {0}:
            raise ValueError('rows below the bands are not clear')
        return out

    def store_obs(self):
        from mapproxy.cache.tile import Tile
        out = []
        for k, t in enumerate(TILES):
            tile = Tile((k, 0, 0))
            if self.cache.load_tile(tile) and tile.source is not None:
                out.append([t, self.bands(tile.source.as_buffer().read())])
        return out

    def do(self, op, t=None):
        _state['world'] = self
        open(self.logf, 'w').close()
        ev = {'op': op, 't': t or 'all', 'pic': [], 'asked': []}
        if op == 'request':
            k = int(t[1:])
            r = self.app.get('/tms/1.0.0/lay/EPSG3857/0/%d/0.png' % k, status='*')
            ev['status'] = r.status_int
            if r.status_int != 200:
                ev['error'] = r.text[:200]
            else:
                ev['pic'] = self.bands(r.body)
        elif op == 'seed':
            from mapproxy.seed.config import SeedingConfiguration
            from mapproxy.seed.seeder import seed_task
            pc = self.build(True)
            tasks = SeedingConfiguration({'seeds': {'s': {'caches': ['c'], 'grids': ['g'], 'levels': [0]}}}, mapproxy_conf=pc).seeds(['s'])
            old = sys.stderr
            sys.stderr = io.StringIO()
            try:
                for task in tasks:
                    seed_task(task, concurrency=1, dry_run=False, skip_geoms_for_last_levels=0, progress_logger=None)
                    task.tile_manager.cleanup()
            finally:
                sys.stderr = old
        elif op == 'remove':
            from mapproxy.cache.tile import Tile
            self.cache.remove_tile(Tile((int(t[1:]), 0, 0)))
        with open(self.logf) as f:
            ev['asked'] = sorted({int(x) for x in f.read().split()})
        ev['store'] = self.store_obs()
        return ev


def consts(nsrc, delivers, seed_only, variant):
    return dict(Tiles=set(TILES), NSrc=nsrc, Delivers='=' + '<<' + ', '.join('{' + ', '.join('"%s"' % t for t in sorted(delivers[i])) + '}'
                                                                              for i in range(1, nsrc + 1)) + '>>',
                SeedOnly='=' + '<<' + ', '.join('TRUE' if seed_only[i] else 'FALSE' for i in range(1, nsrc + 1)) + '>>', Variant=variant)


def compare(ev, st):
    rp = st['reply']
    if ev['op'] == 'request':
        if ev.get('status') != 200:
            return 'the request is answered %s %s' % (ev.get('status'), ev.get('error', ''))
        if sorted(rp['pic']) != ev['pic']:
            return 'answered picture: spec sources %s, real %s' % (sorted(rp['pic']), ev['pic'])
    if ev['op'] in ('request', 'seed') and sorted(rp['asked']) != ev['asked']:
        return 'sources asked: spec %s, real %s' % (sorted(rp['asked']), ev['asked'])
    spec_store = sorted([t, sorted(e['srcs'])] for t, e in st['store'].items() if e['cached'])
    if spec_store != sorted(ev['store']):
        return 'cache: spec %s, real %s' % (spec_store, sorted(ev['store']))
    return None


OPS = {'Request': 'request', 'Remove': 'remove', 'Seed': 'seed'}


def replay_behaviour(beh, nsrc, delivers, seed_only):
    w = World(nsrc, delivers, seed_only)
    try:
        n = 0
        for act, st in beh[1:]:
            name, args = parse_action(act)
            n += 1
            try:
                ev = w.do(OPS[name], args[0] if args else None)
            except ValueError as ex:
                return 'diverged', 'step %d %s: %s' % (n, act, ex), None
            what = compare(ev, st)
            if what:
                return 'diverged', 'step %d %s: %s' % (n, act, what), ev
        return 'ok', '', None
    finally:
        w.close()


def random_history(rng, n, nsrc, delivers, seed_only):
    w = World(nsrc, delivers, seed_only)
    try:
        evs = []
        present = set()
        for _ in range(n):
            k = rng.random()
            if k < 0.6:
                evs.append(w.do('request', rng.choice(TILES)))
            elif k < 0.8:
                evs.append(w.do('seed'))
            elif present:
                evs.append(w.do('remove', rng.choice(sorted(present))))
            else:
                continue
            present = {t for t, _ in evs[-1]['store']}
        return evs
    finally:
        w.close()


def detect_variant():
    w = World(2, {1: set(TILES), 2: set(TILES)}, {1: True, 2: True})
    try:
        ev = w.do('request', 't1')
        return ('asfound' if ev['store'] else 'repaired'), ev
    finally:
        w.close()


ALL = set(TILES)
WORLDS = [
    # sources, coverage of each (tiles), seed_only of each
    (1, {1: ALL}, {1: True}),
    (1, {1: {'t1', 't2'}}, {1: False}),
    (2, {1: ALL, 2: ALL}, {1: True, 2: True}),
    (2, {1: {'t0', 't1'}, 2: {'t1', 't2'}}, {1: False, 2: False}),
    (2, {1: ALL, 2: {'t2', 't3'}}, {1: False, 2: True}),
    (2, {1: {'t0', 't1', 't2'}, 2: {'t2', 't3'}}, {1: True, 2: True}),
    (3, {1: {'t0'}, 2: {'t1', 't2'}, 3: ALL}, {1: False, 2: True, 3: True}),
    (3, {1: {'t0', 't1'}, 2: {'t1'}, 3: {'t1', 't2'}}, {1: False, 2: False, 3: False}),
    # coverages that are not rectangles: the bounding box spans tiles that are not covered
    (2, {1: {'t0', 't3'}, 2: {'t1', 't3'}}, {1: False, 2: False}),
    (1, {1: {'t0', 't2', 't3'}}, {1: False}),
]


def run(ctx):
    thorough = ctx.tier == 'thorough'
    tlc.sany(SPEC)
    variant, ev = detect_variant()
    ctx.log('the tree implements Variant=%s (a request in offline mode leaves %s in the cache)' % (variant, ev['store']))
    # the as-found variant violates NeverStoresBlank and SeedLeavesNoHole: counterexamples executed on the real code
    w2 = WORLDS[2]
    for prop, kind in (('NeverStoresBlank', 'inv'), ('SeedLeavesNoHole', 'prop')):
        d = ctx.sub('mc-asfound-' + prop)
        mp, cp = tlc.write_mc(d, 'Offline', 'MC_O', consts(*w2, variant='asfound'), invariants=[prop] if kind == 'inv' else [],
                              properties=[prop] if kind == 'prop' else [])
        r = tlc.run(mp, cp, d, timeout=600, coverage=False, workers=2)
        if r.violated != prop:
            raise tlc.MachineryError('the as-found variant should violate %s: %r %s' % (prop, r, r.out[-600:]))
        status, detail, _ = replay_behaviour(r.trace, *w2)
        ctx.sample({'kind': 'counterexample of Variant=asfound (%s) run on the real application' % prop,
                    'actions': [a for a, _ in r.trace[1:]], 'result': status, 'detail': detail})
        if status == 'ok':
            ctx.violation({'kind': 'blank-stored', 'cause': 'tile-merged-from-no-source-is-stored'},
                          'a cache with two seed_only sources (offline mode): %s - the request for an uncached tile stores a blank '
                          'tile%s' % ([a for a, _ in r.trace[1:]], ', which the seed run then skips' if kind == 'prop' else ''),
                          {'behaviour': [a for a, _ in r.trace]})
    invs = INVS if variant == 'repaired' else ['TypeOK']
    props = PROPS if variant == 'repaired' else [p for p in PROPS if p not in ('SeedLeavesNoHole', 'OfflineIsReadOnly')]
    from harness.c20 import parallel

    def mc(i, wd):
        d = ctx.sub('mc-%d' % i)
        mp, cp = tlc.write_mc(d, 'Offline', 'MC_O', consts(*wd, variant=variant), invariants=invs, properties=props)
        return tlc.run(mp, cp, d, timeout=900, workers=2, coverage=True)

    taken = set()
    for wd, r in zip(WORLDS, parallel([(lambda i=i, wd=wd: mc(i, wd)) for i, wd in enumerate(WORLDS)])):
        if r.violated:
            ctx.violation({'kind': 'model', 'property': r.violated}, 'Offline.tla %r violates %s' % (wd, r.violated),
                          {'trace': [a for a, _ in r.trace]})
        elif not r.ok:
            raise tlc.MachineryError('Offline.tla: %r %s' % (r, r.out[-800:]))
        else:
            ctx.add_tlc('Offline/%d-sources/%s' % (wd[0], ''.join('s' if wd[2][i] else 'r' for i in sorted(wd[2]))), r)
            taken |= {a for a, c in r.coverage.items() if c[0] > 0}
    if not ctx.violations and {'Request', 'Seed', 'Remove'} - taken:
        raise tlc.MachineryError('vacuity: actions never taken: %s' % sorted({'Request', 'Seed', 'Remove'} - taken))
    # (R) spec -> code
    nbeh = 10 if thorough else 4
    seen = set()
    for i, wd in enumerate(WORLDS):
        d = ctx.sub('sim-%d' % i)
        mp, cp = tlc.write_mc(d, 'Offline', 'MC_S', consts(*wd, variant=variant))
        prefix = os.path.join(d, 'beh')
        tlc.run(mp, cp, d, workers=1, simulate='file=%s,num=%d' % (prefix, nbeh), depth=12, seed=ctx.seed * 17 + i + 3, coverage=False,
                timeout=600)
        behs = [b for _f, b in tlc.sim_traces(prefix) if len(b) > 1]
        if not behs:
            raise tlc.MachineryError('no behaviours for world %r' % (wd,))
        for beh in behs:
            status, detail, ev = replay_behaviour(beh, *wd)
            ctx.cov['replayed_behaviours'] += 1
            ctx.cov['replayed_steps'] += len(beh) - 1
            ctx.count(('replay', i, tuple(a for a, _ in beh)))
            for a, st in beh[1:]:
                seen.add(parse_action(a)[0])
                if st and st['reply']['op'] == 'request' and not st['reply']['pic'] and not st['reply']['asked']:
                    seen.add('blank-answer')
                if st and len(st['reply']['pic']) > 1:
                    seen.add('merged')
            if status != 'ok':
                ctx.violation({'kind': 'replay-' + status, 'sources': wd[0]},
                              'world %r: the real application leaves the model: %s' % (wd, detail), {'world': repr(wd), 'behaviour': [a for a, _ in beh]})
                break
    need = {'Request', 'Seed', 'Remove', 'blank-answer', 'merged'}
    if not ctx.violations and need - seen:
        raise tlc.MachineryError('vacuity: replayed behaviours never showed %s' % sorted(need - seen))
    # (T) code -> spec
    import random
    nh, ln = (8, 30) if thorough else (3, 18)
    recorded = []
    for i, wd in enumerate(WORLDS):
        rng = random.Random(ctx.seed * 100 + i)
        try:
            recorded.append([random_history(rng, ln, *wd) for _ in range(nh)])
        except ValueError as ex:
            ctx.violation({'kind': 'picture', 'sources': wd[0]}, 'world %r: %s' % (wd, ex), {'world': repr(wd)})
            recorded.append([])

    def validate(i, wd, traces):
        d = ctx.sub('tr-%d' % i)
        tf = os.path.join(d, 'batch.json')
        with open(tf, 'w') as f:
            json.dump(traces, f)
        mp, cp = tlc.write_mc(d, 'Trace_Offline', 'MC_T', consts(*wd, variant=variant), spec='TraceSpec', invariants=invs, properties=props,
                              post='TraceAccepted')
        return tlc.run(mp, cp, d, workers=1, coverage=False, env={'TRACE_FILE': tf}, timeout=900)

    jobs = [(i, wd, trs) for i, (wd, trs) in enumerate(zip(WORLDS, recorded)) if trs]
    for (i, wd, traces), r in zip(jobs, parallel([(lambda j=j: validate(*j)) for j in jobs])):
        ctx.cov['traces_validated_against_impl'] += len(traces)
        ctx.cov['states'] += r.distinct
        ctx.cov['transitions'] += r.generated
        for t in traces:
            ctx.count(('hist', i, json.dumps([[e['op'], e['t']] for e in t])))
        if r.violated and r.violated != 'postcondition':
            ctx.violation({'kind': 'trace-property', 'property': r.violated, 'sources': wd[0]},
                          'world %r: %s violated in a recorded history' % (wd, r.violated), {'world': repr(wd)})
            continue
        pr = tlc.find_prints(r.out, 'matched')
        if not pr:
            raise tlc.MachineryError('Trace_Offline: no verdict: %s' % r.out[-1200:])
        mv = pr[-1][1]
        matched = list(mv) if isinstance(mv, tuple) else [mv[k2] for k2 in sorted(mv)]
        for k, t in enumerate(traces):
            if matched[k] < len(t):
                e = t[matched[k]]
                ctx.violation({'kind': 'trace-rejected', 'op': e['op'], 'sources': wd[0]},
                              'world %r: recorded history is not a behaviour of Offline.tla at event %d: %s' % (wd, matched[k] + 1, json.dumps(e)[:400]),
                              {'world': repr(wd), 'trace': t[:matched[k] + 1]})
    if recorded and recorded[2]:
        ctx.sample({'kind': 'recorded history (two seed_only sources)', 'events': recorded[2][0][:6]})
    ctx.assumptions += ['one level of four tiles, meta size 1x1, WMS sources whose coverage is a run of whole tiles (edges strictly inside '
                        'the tiles), file cache, TMS requests, seed tasks without refresh rule; every source paints its own band, '
                        'so the bands of an image name the sources merged into it']
    return ctx.finish('model_checking', 'TLC: all histories of requests / seed runs / removals for 10 configurations of 1-3 sources; '
                      'behaviours executed on and histories recorded from a real application and the real seed_task')


def replay(ctx, data):
    return 0
