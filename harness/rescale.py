"""RESCALE - tiles made from other levels: upscale_tiles / downscale_tiles / cache_rescaled_tiles (not one of the listed
properties; extends coverage).

spec/Rescale.tla transcribes TileManager.load_tile_coords / _load_tile_coords / _scaled_tile as recursive operators
over a factor-2 quadtree and states what the documentation promises without the algorithm (BestAvailable: every place
of an answered tile shows the nearest level of the configured range that has it; NoWastedFetch; StoreDiscipline;
CachedServedAsIs; TouchesOnlyRange; NoError).  TLC checks them for every cache filled with originals of a universe of
tiles and every request sequence up to a bound, for all K, cache_rescaled_tiles and source-level variants.

Binding: a real TileManager built by the configuration loader (file cache, tile source with min_res/max_res and a
synthetic upstream, nearest resampling) on a quadtree grid; every original tile is painted in one colour that names it,
so the picture of an answered or stored tile tells, cell by cell, which original was scaled into that place.  TLC
behaviours are executed step by step (pictures, backend loads per tile, upstream requests, stored tiles compared after
every step), random histories are validated by TLC (spec/trace/Trace_Rescale.tla).  The variant StopClamp="levels"
(stop level clamped to grid.levels, one beyond the last level: IndexError for downscaled requests near the last
level) is the code as found; its counterexample is run on the real code.
"""
import io
import json
import os
import re
import shutil
import tempfile

from engine import tlc
from harness.c05 import parse_action

SPEC = os.path.join(tlc.SPEC_DIR, 'Rescale.tla')
PROPS = ['NoError', 'BestAvailable', 'NoWastedFetch', 'StoreDiscipline', 'WroteOnlyIfConfigured', 'CachedServedAsIs',
         'TouchesOnlyRange']
BLANK = (-1, -1, -1, -1)


def tiles_of(maxlevel):
    return [(z, x, y) for z in range(maxlevel + 1) for x in range(2 ** z) for y in range(2 ** z)]


def colour(origin):
    z, x, y, by = origin
    return (50 + 40 * z + 20 * by, 10 + 10 * x, 10 + 10 * y, 255)


def origin_of(rgba):
    r, g, b, a = rgba
    if a == 0:
        return BLANK
    if a != 255 or r < 50 or (r - 50) % 20 or (g - 10) % 10 or (b - 10) % 10 or g < 10 or b < 10:
        return ('bad',) + tuple(rgba)
    return ((r - 50) // 40, (g - 10) // 10, (b - 10) // 10, ((r - 50) % 40) // 20)


_installed = {'world': None, 'done': False}


def install():
    if _installed['done']:
        return
    import mapproxy.client.http as H

    def fake_open(self, url, data=None, method=None):
        w = _installed['world']
        m = re.search(r'/t/(\d+)/(\d+)/(\d+)\.png', url)
        if w is None or not m:
            raise H.HTTPClientError('no world for %s' % url, response_code=500)
        z, x, y = (int(v) for v in m.groups())
        t = w.model_tile((x, y, z))
        w.uplog.append(t)
        r = io.BytesIO(w.png(t + (1,)))
        r.headers = {'Content-type': 'image/png'}
        r.code = 200
        return r

    H.HTTPClient.open = fake_open
    _installed['done'] = True


class World(object):
    """A real TileManager (configuration loader, file cache, tile source) on a quadtree grid."""

    def __init__(self, maxlevel, k, src_levels, cache_rescaled, origin='nw'):
        from mapproxy.config.loader import ProxyConfiguration
        install()
        self.maxlevel, self.k, self.src_levels, self.cr, self.origin = maxlevel, k, sorted(src_levels), cache_rescaled, origin
        self.T = 2 ** maxlevel
        self.tiles = tiles_of(maxlevel)
        self.dir = tempfile.mkdtemp(prefix='verif-rescale-')
        self.uplog = []
        res = [2 ** (maxlevel - z) for z in range(maxlevel + 1)]
        ext = self.T * 2 ** maxlevel
        cache = {'grids': ['g'], 'sources': ['s'] if self.src_levels else [], 'format': 'image/png',
                 'cache': {'type': 'file', 'directory': os.path.join(self.dir, 'cache')},
                 'image': {'resampling_method': 'nearest', 'transparent': True}, 'meta_size': [1, 1], 'meta_buffer': 0}
        if k > 0:
            cache['downscale_tiles'] = k
        elif k < 0:
            cache['upscale_tiles'] = -k
        if cache_rescaled:
            cache['cache_rescaled_tiles'] = True
        src = {'type': 'tile', 'url': 'http://upstream.invalid/t/%(z)s/%(x)s/%(y)s.png', 'grid': 'g', 'transparent': True}
        if self.src_levels:
            lo, hi = self.src_levels[0], self.src_levels[-1]
            if self.src_levels != list(range(lo, hi + 1)):
                raise tlc.MachineryError('source levels must be contiguous')
            src['min_res'] = res[lo] * 1.5
            src['max_res'] = res[hi] * 0.75
        conf = {'globals': {'image': {'paletted': False},
                            'cache': {'base_dir': os.path.join(self.dir, 'cd'), 'lock_dir': os.path.join(self.dir, 'locks'),
                                      'tile_lock_dir': os.path.join(self.dir, 'tlocks')}},
                'services': {'tms': {}},
                'grids': {'g': {'srs': 'EPSG:3857', 'bbox': [0, 0, ext, ext], 'res': res, 'tile_size': [self.T, self.T],
                                'origin': origin}},
                'sources': {'s': src},
                'caches': {'c': cache},
                'layers': [{'name': 'lay', 'title': 'lay', 'sources': ['c']}]}
        _installed['world'] = self
        pc = ProxyConfiguration(conf, conf_base_dir=self.dir, seed=False, renderd=False)
        self.tm = pc.caches['c'].caches()[0][2]
        if list(self.tm.grid.grid_sizes[z] for z in range(maxlevel + 1)) != [(2 ** z, 2 ** z) for z in range(maxlevel + 1)]:
            raise tlc.MachineryError('the grid is not the quadtree of the model: %r' % (self.tm.grid.grid_sizes,))
        self.loads = {}
        self.stores = []
        cache_obj = self.tm.cache
        self._load_tile = cache_obj.load_tile
        self._store_tile = cache_obj.store_tile

        def load_tile(tile, with_metadata=False, dimensions=None):
            if tile.coord is not None and tile.is_missing():
                t = self.model_tile(tile.coord)
                self.loads[t] = self.loads.get(t, 0) + 1
            return self._load_tile(tile, with_metadata, dimensions=dimensions)

        def store_tile(tile, dimensions=None):
            if tile.coord is not None and not tile.stored:
                self.stores.append(self.model_tile(tile.coord))
            return self._store_tile(tile, dimensions=dimensions)

        cache_obj.load_tile = load_tile
        cache_obj.store_tile = store_tile

    def close(self):
        if _installed['world'] is self:
            _installed['world'] = None
        shutil.rmtree(self.dir, ignore_errors=True)

    # ---- coordinates --------------------------------------------------------------------------------
    def model_tile(self, coord):
        x, y, z = coord
        return (z, x, y if self.origin in ('nw', 'ul') else 2 ** z - 1 - y)

    def real_coord(self, t):
        z, x, y = t
        return (x, y if self.origin in ('nw', 'ul') else 2 ** z - 1 - y, z)

    def png(self, origin):
        from PIL import Image
        b = io.BytesIO()
        Image.new('RGBA', (self.T, self.T), colour(origin)).save(b, 'PNG')
        return b.getvalue()

    def cell_seq(self, t):
        z, x, y = t
        n = 2 ** (self.maxlevel - z)
        return [(x * n + (k % n), y * n + (k // n)) for k in range(n * n)]

    def picture(self, source, t):
        """-> list of origins in CellSeq order ([] for no picture), or raises for a picture that is not a mosaic of cells"""
        if source is None:
            return []
        img = source.as_image().convert('RGBA')
        if img.size != (self.T, self.T):
            raise ValueError('tile %r has size %r' % (t, img.size))
        z, x, y = t
        n = 2 ** (self.maxlevel - z)
        p = self.T // n
        px = img.load()
        out = []
        for k in range(n * n):
            cx, cy = k % n, k // n
            cols = {px[cx * p + i, cy * p + j] for i in range(p) for j in range(p)}
            if len(cols) != 1:
                out.append(('mixed',) + tuple(sorted(cols))[:3])
            else:
                out.append(origin_of(cols.pop()))
        return out

    # ---- steps --------------------------------------------------------------------------------------
    def store_obs(self):
        from mapproxy.cache.tile import Tile
        out = []
        for t in self.tiles:
            tile = Tile(self.real_coord(t))
            if self._load_tile(tile) and tile.source is not None:
                out.append([list(t), [list(o) for o in self.picture(tile.source, t)]])
        return out

    def do(self, op, tiles):
        from mapproxy.cache.tile import Tile
        from mapproxy.image import ImageSource
        from mapproxy.image.opts import ImageOptions
        _installed['world'] = self
        ev = {'op': op, 'tiles': [list(t) for t in tiles], 'err': False, 'pics': [], 'loads': [], 'fetched': [], 'wrote': []}
        if op == 'put':
            t = tuple(tiles[0])
            self._store_tile(Tile(self.real_coord(t), ImageSource(io.BytesIO(self.png(t + (0,))),
                                                                  image_opts=ImageOptions(format='image/png', transparent=True))))
        elif op == 'remove':
            self.tm.cache.remove_tile(Tile(self.real_coord(tuple(tiles[0]))))
        else:
            self.loads, self.stores, self.uplog = {}, [], []
            try:
                with self.tm.session():
                    coll = self.tm.load_tile_coords([self.real_coord(tuple(t)) for t in tiles])
                    ev['pics'] = [[list(o) for o in self.picture(tile.source, tuple(t))] for tile, t in zip(coll, tiles)]
            except Exception as ex:
                ev['err'] = True
                ev['raised'] = '%s: %s' % (type(ex).__name__, ex)
            ev['loads'] = [[list(t), n] for t, n in sorted(self.loads.items())]
            ev['fetched'] = [list(t) for t in self.uplog]
            ev['wrote'] = [list(t) for t in self.stores if t not in self.uplog]
        ev['store'] = self.store_obs()
        return ev


# -------------------------------------------------------------------------------------------------------------
def requests_for(maxlevel):
    ts = tiles_of(maxlevel)
    rs = {(t,) for t in ts}
    for z in range(1, maxlevel + 1):
        n = 2 ** z
        for x in range(0, n, 2):
            for y in range(0, n, 2):
                rs.add(((z, x, y), (z, x + 1, y), (z, x, y + 1), (z, x + 1, y + 1)))
        if n >= 4:
            rs.add(((z, 1, 1), (z, 2, 1), (z, 1, 2), (z, 2, 2)))
            rs.add(((z, 1, 0), (z, 2, 0)))
            rs.add(tuple((z, x, 1) for x in range(n)))
    return rs


def consts(w_or_none, maxlevel, k, src, cr, clamp, universe=None, requests=None):
    return dict(MaxLevel=maxlevel, K=k, SrcLevels=set(src), CacheRescaled=bool(cr), StopClamp=clamp,
                Universe=set(universe if universe is not None else tiles_of(maxlevel)),
                Requests=set(requests if requests is not None else requests_for(maxlevel)))


def _canon_pics(p):
    return [[tuple(o) for o in pic] for pic in p]


def compare(ev, st):
    """real step vs model state after the step -> None or text"""
    rp = st['reply']
    if bool(rp['err']) != ev['err']:
        return 'error: spec %s, real %s %s' % (rp['err'], ev['err'], ev.get('raised', ''))
    if not ev['err'] and ev['op'] == 'request':
        want = [[tuple(o) for o in pic] for pic in rp['pics']]
        if _canon_pics(ev['pics']) != want:
            return 'pictures: spec %s, real %s' % (want, _canon_pics(ev['pics']))
        loads = {tuple(t): n for t, n in (rp['loads'].items() if isinstance(rp['loads'], dict) else [])}
        if loads != {tuple(t): n for t, n in ev['loads']}:
            return 'backend loads: spec %s, real %s' % (sorted(loads.items()), ev['loads'])
        if sorted(tuple(t) for t in ev['fetched']) != sorted(rp['fetched']):
            return 'upstream requests: spec %s, real %s' % (sorted(rp['fetched']), ev['fetched'])
        if sorted(tuple(t) for t in ev['wrote']) != sorted(rp['wrote']):
            return 'rescaled tiles stored: spec %s, real %s' % (sorted(rp['wrote']), ev['wrote'])
    if not ev['err']:
        spec_store = {}
        for t, pic in st['store'].items():
            if not pic['none']:
                spec_store[tuple(t)] = pic['px']
        real_store = {tuple(t): pics for t, pics in ev['store']}
        if set(spec_store) != set(real_store):
            return 'stored tiles: spec %s, real %s' % (sorted(spec_store), sorted(real_store))
    return None


def store_pictures_match(w, ev, st):
    for t, pics in ev['store']:
        t = tuple(t)
        px = st['store'][t]['px']
        want = [tuple(px[c]) for c in w.cell_seq(t)]
        if [tuple(o) for o in pics] != want:
            return 'stored picture of %s: spec %s, real %s' % (t, want, pics)
    return None


OPS = {'Request': 'request', 'Put': 'put', 'Remove': 'remove'}


def replay_behaviour(beh, maxlevel, k, src, cr, origin='nw'):
    w = World(maxlevel, k, src, cr, origin)
    try:
        n = 0
        for act, st in beh[1:]:
            name, args = parse_action(act)
            n += 1
            tiles = list(args[0]) if name == 'Request' else [args[0]]
            ev = w.do(OPS[name], tiles)
            what = compare(ev, st) or (None if ev['err'] else store_pictures_match(w, ev, st))
            if what:
                return 'diverged', 'step %d %s: %s' % (n, act, what), ev
        return 'ok', '', None
    finally:
        w.close()


def random_history(rng, n, maxlevel, k, src, cr, origin):
    w = World(maxlevel, k, src, cr, origin)
    ts = w.tiles
    try:
        evs = []
        present = set()
        for _ in range(n):
            r = rng.random()
            if r < 0.35:
                t = rng.choice(ts)
                if t in present:
                    continue
                evs.append(w.do('put', [t]))
            elif r < 0.45 and present:
                t = rng.choice(sorted(present))
                evs.append(w.do('remove', [t]))
            else:
                z = rng.randrange(maxlevel + 1)
                m = 2 ** z
                x0, y0 = rng.randrange(m), rng.randrange(m)
                wd, ht = rng.choice((1, 1, 2, 3)), rng.choice((1, 1, 2))
                tiles = [(z, x, y) for y in range(y0, min(m, y0 + ht)) for x in range(x0, min(m, x0 + wd))]
                evs.append(w.do('request', tiles))
            present = {tuple(t) for t, _ in evs[-1]['store']}
        return evs
    finally:
        w.close()


def detect_variant():
    """which stop-level clamp does the tree implement?"""
    w = World(2, 1, [], False)
    try:
        ev = w.do('request', [(2, 0, 0)])
        return ('levels' if ev['err'] else 'last'), ev
    finally:
        w.close()


WORLDS_QUICK = [
    # maxlevel, K, source levels, cache_rescaled, origin
    (2, 1, [], False, 'nw'), (2, 1, [2], True, 'nw'), (2, 2, [2], True, 'sw'), (2, 2, [], True, 'nw'),
    (2, -1, [], False, 'sw'), (2, -1, [0], True, 'nw'), (2, -2, [0], True, 'nw'), (2, -2, [0, 1], False, 'sw'),
    (2, 0, [1], False, 'nw'), (2, 1, [0], True, 'nw'), (2, -2, [2], True, 'nw'),
]
WORLDS_MORE = [
    (3, 2, [3], True, 'nw'), (3, -2, [0], True, 'sw'), (3, 3, [2, 3], False, 'nw'), (3, -3, [0, 1], True, 'nw'),
    (3, 1, [], True, 'sw'), (3, -1, [], False, 'nw'), (2, 2, [1, 2], False, 'nw'), (2, -1, [1], True, 'sw'),
]


def run(ctx):
    thorough = ctx.tier == 'thorough'
    tlc.sany(SPEC)
    variant, ev = detect_variant()
    ctx.log('the tree implements StopClamp=%s (%s)' % (variant, ev.get('raised') or 'no error'))
    # (M) the as-found clamp violates NoError: counterexample executed on the real code
    U = {(0, 0, 0), (1, 0, 0), (1, 1, 0), (2, 0, 0), (2, 1, 0), (2, 0, 1), (2, 2, 0), (2, 3, 1)}
    R = {(t,) for t in [(0, 0, 0), (1, 0, 0), (1, 1, 0), (1, 1, 1), (2, 0, 0), (2, 1, 1), (2, 2, 0), (2, 3, 3)]} | {
        ((2, 0, 0), (2, 1, 0)), ((1, 0, 0), (1, 1, 0))}
    d = ctx.sub('mc-asfound')
    mp, cp = tlc.write_mc(d, 'Rescale', 'MC_R', consts(None, 2, 1, [], False, 'levels', U, R), spec='Spec', properties=['NoError'],
                          constraint='Bound', extra_defs='Bound == TLCGet("level") <= 3')
    r = tlc.run(mp, cp, d, timeout=900, coverage=False, workers=4)
    if r.violated != 'NoError':
        raise tlc.MachineryError('the as-found variant should violate NoError: %r %s' % (r, r.out[-800:]))
    status, detail, _ = replay_behaviour(r.trace, 2, 1, [], False)
    ctx.sample({'kind': 'counterexample of StopClamp=levels run on the real TileManager', 'actions': [a for a, _ in r.trace[1:]],
                'result': status, 'detail': detail})
    if status == 'ok':
        ctx.violation({'kind': 'raises', 'cause': 'downscale-stop-level-beyond-last-level'},
                      'downscale_tiles: a request for an uncached tile near the last level raises IndexError instead of answering '
                      'a transparent tile: %s' % [a for a, _ in r.trace[1:]], {'behaviour': [a for a, _ in r.trace]})
    clamp = variant
    props = PROPS if clamp == 'last' else [p for p in PROPS if p != 'NoError']
    # (M) exhaustive: every cache of originals of the universe, every request sequence up to the bound
    jobs = []
    for k in (1, 2, -1, -2, 0):
        for cr in (True, False):
            for src in ([], [0], [2], [1]) if thorough else ([], [2] if k >= 0 else [0]):
                jobs.append((k, cr, src))
    from harness.c20 import parallel as _parallel

    def parallel(jobs, width=8):
        out = []
        for i in range(0, len(jobs), width):          # at most `width` JVMs at a time
            out += _parallel(jobs[i:i + width])
        return out

    def mc(k, cr, src):
        d = ctx.sub('mc-k%d-%s-%s' % (k, cr, ''.join(map(str, src))))
        mp, cp = tlc.write_mc(d, 'Rescale', 'MC_R', consts(None, 2, k, src, cr, clamp, U, R), spec='SpecAny', invariants=['TypeOK'],
                              properties=props, constraint='Bound',
                              extra_defs='Bound == TLCGet("level") <= %d' % (3 if cr else 2))
        return tlc.run(mp, cp, d, timeout=1800, workers=2, coverage=False)

    for (k, cr, src), r in zip(jobs, parallel([(lambda j=j: mc(*j)) for j in jobs])):
        if r.violated:
            ctx.violation({'kind': 'model', 'property': r.violated, 'k': k}, 'Rescale.tla (K=%d cache_rescaled=%s sources=%s) violates %s' % (
                k, cr, src, r.violated), {'trace': [a for a, _ in r.trace]})
        elif not r.ok:
            raise tlc.MachineryError('Rescale.tla: %r %s' % (r, r.out[-800:]))
        else:
            ctx.add_tlc('Rescale/K=%d/cr=%s/src=%s' % (k, cr, src), r)
    # the observation: rescaled tiles stored by a request from farther away are cut to that request's range
    d = ctx.sub('mc-observation')
    U3 = {(1, 0, 0), (2, 0, 0), (2, 1, 0), (3, 0, 0), (3, 2, 1), (3, 1, 1)}
    R3 = {((0, 0, 0),), ((1, 0, 0),), ((2, 0, 0),), ((2, 1, 0),)}
    mp, cp = tlc.write_mc(d, 'Rescale', 'MC_R', consts(None, 3, 2, [], True, clamp, U3, R3), spec='SpecAny',
                          properties=['StoredWithinOwnRange'], constraint='Bound', extra_defs='Bound == TLCGet("level") <= 2')
    r = tlc.run(mp, cp, d, timeout=900, coverage=False, workers=4)
    if r.violated != 'StoredWithinOwnRange':
        raise tlc.MachineryError('the observation StoredWithinOwnRange is expected to fail for K=2 with cache_rescaled_tiles: %r' % r)
    status, detail, _ = replay_from_any(r.trace, 3, 2, [], True)
    ctx.sample({'kind': 'observation (not a listed property): with cache_rescaled_tiles and downscale_tiles 2 a tile stored on behalf '
                        'of a request two levels up has holes that a direct request would have filled', 'actions': [a for a, _ in r.trace[1:]],
                'the real TileManager follows the model': status, 'detail': detail})
    if status != 'ok':
        ctx.violation({'kind': 'replay-' + status, 'world': 'observation'}, detail, {'behaviour': [a for a, _ in r.trace]})
    # (R) spec -> code
    worlds = WORLDS_QUICK + (WORLDS_MORE if thorough else WORLDS_MORE[:2])
    nbeh = 12 if thorough else 4
    acts = set()

    def sim(i, wd):
        maxlevel, k, src, cr, origin = wd
        d = ctx.sub('sim-%d' % i)
        mp, cp = tlc.write_mc(d, 'Rescale', 'MC_S', consts(None, maxlevel, k, src, cr, clamp), spec='Spec')
        prefix = os.path.join(d, 'beh')
        tlc.run(mp, cp, d, workers=1, simulate='file=%s,num=%d' % (prefix, nbeh), depth=14, seed=ctx.seed * 31 + i + 5, coverage=False,
                timeout=900)
        return [beh for _f, beh in tlc.sim_traces(prefix) if len(beh) > 1]

    allb = parallel([(lambda i=i, wd=wd: sim(i, wd)) for i, wd in enumerate(worlds)])
    for wd, behs in zip(worlds, allb):
        if not behs:
            raise tlc.MachineryError('no behaviours for world %r' % (wd,))
        for beh in behs:
            status, detail, ev = replay_behaviour(beh, *wd)
            ctx.cov['replayed_behaviours'] += 1
            ctx.cov['replayed_steps'] += len(beh) - 1
            ctx.count(('replay', wd[0], wd[1], tuple(wd[2]), wd[3], wd[4], tuple(a for a, _ in beh)))
            for a, st in beh[1:]:
                acts.add(parse_action(a)[0])
                if st and st['reply']['op'] == 'request':
                    if st['reply']['wrote']:
                        acts.add('wrote')
                    if st['reply']['fetched']:
                        acts.add('fetched')
                    if any(len({tuple(o) for o in pic}) > 1 for pic in st['reply']['pics']):
                        acts.add('mosaic')
            if status != 'ok':
                ctx.violation({'kind': 'replay-' + status, 'k': wd[1], 'cache_rescaled': wd[3]},
                              'world %r: the real TileManager leaves the model: %s' % (wd, detail), {'world': list(wd), 'behaviour': [a for a, _ in beh]})
                break
    need = {'Request', 'Put', 'Remove', 'wrote', 'fetched', 'mosaic'}
    if not ctx.violations and need - acts:
        raise tlc.MachineryError('vacuity: replayed behaviours never showed %s' % sorted(need - acts))
    # (T) code -> spec
    nh, ln = (10, 30) if thorough else (4, 22)

    import random
    recorded = []
    for i, wd in enumerate(worlds):
        rng = random.Random(ctx.seed * 1000 + i)
        recorded.append([random_history(rng, ln, *wd) for _ in range(nh)])      # sequential: the synthetic upstream is global

    def validate(i, wd, traces):
        maxlevel, k, src, cr, origin = wd
        d = ctx.sub('tr-%d' % i)
        tf = os.path.join(d, 'batch.json')
        with open(tf, 'w') as f:
            json.dump([[{kk: v for kk, v in e.items() if kk != 'raised'} for e in t] for t in traces], f)
        mp, cp = tlc.write_mc(d, 'Trace_Rescale', 'MC_T', consts(None, maxlevel, k, src, cr, clamp, set(), set()), spec='TraceSpec',
                              properties=props, post='TraceAccepted')
        r = tlc.run(mp, cp, d, workers=1, coverage=False, env={'TRACE_FILE': tf}, timeout=1800)
        return traces, r

    results = parallel([(lambda i=i, wd=wd, trs=trs: validate(i, wd, trs)) for i, (wd, trs) in enumerate(zip(worlds, recorded))])
    for wd, (traces, r) in zip(worlds, results):
        ctx.cov['traces_validated_against_impl'] += len(traces)
        ctx.cov['states'] += r.distinct
        ctx.cov['transitions'] += r.generated
        for t in traces:
            ctx.count(('hist', wd[0], wd[1], tuple(wd[2]), wd[3], wd[4], json.dumps([[e['op'], e['tiles']] for e in t])))
        if r.violated and r.violated != 'postcondition':
            ctx.violation({'kind': 'trace-property', 'property': r.violated, 'k': wd[1]},
                          'world %r: %s violated in a recorded history' % (wd, r.violated), {'world': list(wd)})
            continue
        pr = tlc.find_prints(r.out, 'matched')
        if not pr:
            raise tlc.MachineryError('Trace_Rescale: no verdict: %s' % r.out[-1200:])
        mv = pr[-1][1]
        matched = list(mv) if isinstance(mv, tuple) else [mv[k2] for k2 in sorted(mv)]
        for i, t in enumerate(traces):
            if matched[i] < len(t):
                e = t[matched[i]]
                ctx.violation({'kind': 'trace-rejected', 'op': e['op'], 'k': wd[1], 'cache_rescaled': wd[3]},
                              'world %r: recorded history is not a behaviour of Rescale.tla at event %d: %s' % (
                                  wd, matched[i] + 1, json.dumps({kk: v for kk, v in e.items() if kk != 'store'})[:600]),
                              {'world': list(wd), 'trace': t[:matched[i] + 1]})
    ctx.sample({'kind': 'recorded history (world %r)' % (worlds[1],),
                'events': [{kk: v for kk, v in e.items() if kk != 'store'} for e in results[1][0][0][:6]]})
    ctx.assumptions += ['factor-2 quadtree grids (2-3 levels below the root), tile source with a contiguous range of levels, meta size 1x1, '
                        'nearest resampling, file cache, no refresh rule, sequential requests at the TileManager (load_tile_coords); '
                        'every original tile is of one colour (pictures are read cell by cell, a cell with more than one colour is a '
                        'divergence); the HTTP services on top are not part of this check']
    return ctx.finish('model_checking', 'TLC: all caches of originals of an 8-tile universe x all request sequences up to the bound for '
                      'K in {-2..2}, cache_rescaled_tiles on/off, source levels; behaviours executed on and histories recorded from a '
                      'real TileManager built by the configuration loader')


def replay_from_any(trace, maxlevel, k, src, cr):
    """counterexample of SpecAny: the initial cache is put tile by tile first"""
    w = World(maxlevel, k, src, cr)
    try:
        init = trace[0][1]
        for t, pic in sorted(init['store'].items()):
            if not pic['none']:
                w.do('put', [tuple(t)])
        n = 0
        for act, st in trace[1:]:
            name, args = parse_action(act)
            n += 1
            ev = w.do('request', list(args[0]))
            what = compare(ev, st) or store_pictures_match(w, ev, st)
            if what:
                return 'diverged', 'step %d %s: %s' % (n, act, what), ev
        return 'ok', '', None
    finally:
        w.close()


def replay(ctx, data):
    return 0
