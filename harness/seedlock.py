"""SEEDLOCK - one seeding process per cache (not one of the listed properties; extends coverage).

spec/SeedLock.tla models mapproxy.seed.cachelock.CacheLocker (ticket queue in a SQLite table) together with the
task loop of mapproxy.seed.seeder.seed(); TLC explores all interleavings of 3 processes x 2 caches with a crash
(Mutex, HolderIsFirst, NoOvertaking, NoTicketLeak, NoStuck, Termination under fairness).  Binding: the real seed()
loop with the real CacheLocker on a real SQLite file runs once per "process" in a thread under the baton scheduler
(os.getpid / is_running of the module are interposed so that every thread is its own process and a crashed one is
dead); yield points are the SQLite transactions and seed_task.  TLC behaviours are forced step by step with the
table compared after every step; random schedules (with crashes) are recorded and validated by TLC
(spec/trace/Trace_SeedLock.tla).  The counterexample of a broken _poll is forced on the real code as well.
"""
import contextlib
import io
import json
import os
import shutil
import sqlite3
import tempfile
import threading

from engine import tlc
from engine.sched import Baton, Deadlock
from harness.c05 import parse_action

SPEC = os.path.join(tlc.SPEC_DIR, 'SeedLock.tla')
INVS = ['Mutex', 'HolderIsFirst', 'TicketsBelong', 'NoDuplicateTickets', 'NoTicketLeak', 'NoStuck']
PIDS = {'p1': 101, 'p2': 102, 'p3': 103}
NAME_OF = {v: k for k, v in PIDS.items()}


class _Task(object):
    def __init__(self, cache):
        self.md = {'cache_name': cache, 'name': 't-' + cache, 'grid_name': 'g'}
        self.id = ('t-' + cache, cache, 'g')
        self.coverage = None


class World(object):
    def __init__(self, tasks):
        import mapproxy.seed.cachelock as CL
        import mapproxy.seed.seeder as S
        self.CL, self.S = CL, S
        self.dir = tempfile.mkdtemp(prefix='verif-seedlock-')
        self.file = os.path.join(self.dir, 'locks.sqlite')
        self.tasks = tasks
        self.sched = Baton()
        self.dead = set()
        self.inside = {}           # process -> cache while in seed_task
        self.problems = []
        w = self

        class OsProxy(object):
            def __getattr__(self, name):
                return getattr(os, name)

            def getpid(self):
                return PIDS[w.sched.current()]

        class TimeProxy(object):
            def __getattr__(self, name):
                import time
                return getattr(time, name)

            def sleep(self, s):
                pass               # the next transaction is a yield point anyway

        def is_running(pid):
            return NAME_OF.get(pid) not in w.dead

        real_cursor = CL.CacheLocker._exclusive_db_cursor

        @contextlib.contextmanager
        def cursor(locker):
            w.sched.point('txn')
            with real_cursor(locker) as cur:
                yield cur

        def seed_task(task, *a, **kw):
            me = w.sched.current()
            c = task.md['cache_name']
            w.sched.emit('got', cache=c)
            others = [p for p, cc in w.inside.items() if cc == c and p not in w.dead]
            if others:
                w.problems.append('%s seeds %s while %s does' % (me, c, others))
            w.inside[me] = c
            w.sched.point('work')
            w.sched.emit('work', cache=c)
            w.inside.pop(me, None)

        self.saved = [(CL, 'os', CL.os), (CL, 'time', CL.time), (CL, 'is_running', CL.is_running),
                      (CL.CacheLocker, '_exclusive_db_cursor', real_cursor), (S, 'seed_task', S.seed_task),
                      (S, 'format_seed_task', S.format_seed_task)]
        CL.os, CL.time, CL.is_running = OsProxy(), TimeProxy(), is_running
        CL.CacheLocker._exclusive_db_cursor = cursor
        S.seed_task = seed_task
        S.format_seed_task = lambda task: ''
        S.print = lambda *a, **kw: None          # (sys.stdout is not thread-local: silence the module's prints instead)
        for p in sorted(tasks):
            self.sched.spawn(p, self._driver(p))
        for p in sorted(tasks):
            self.sched.step(p)

    def _driver(self, p):
        def run():
            locker = self.CL.CacheLocker(self.file, polltime=0)
            self.S.seed([_Task(c) for c in self.tasks[p]], concurrency=1, cache_locker=locker)
            self.sched.emit('done')
        return run

    def close(self):
        for obj, name, val in self.saved:
            setattr(obj, name, val)
        if 'print' in vars(self.S):
            del self.S.print
        shutil.rmtree(self.dir, ignore_errors=True)

    def rows(self):
        if not os.path.exists(self.file):
            return []
        db = sqlite3.connect(self.file)
        try:
            return [[c, NAME_OF[pid]] for c, pid in db.execute('SELECT cache_name, pid FROM cache_locks ORDER BY created, rowid')]
        except sqlite3.OperationalError:
            return []
        finally:
            db.close()

    def pending(self, p):
        if p in self.dead:
            return 'dead'
        x = self.sched.pending(p)
        return x[0] if x else None

    def step(self, p):
        """one spec action of process p; returns the list of events [{'p','ev',...,'rows'}]"""
        evs = self.sched.step(p)
        t = self.sched.ts[p]
        if t.finished and t.exc is not None:
            self.problems.append('%s raised %r' % (p, t.exc))
        out = []
        for e in evs:
            e = dict(e)
            e['p'] = e.pop('c')
            out.append(e)
        return out

    def crash(self, p):
        self.dead.add(p)
        self.inside.pop(p, None)


def classify(w, p, before, evs):
    """the spec action that the step of p was: (name, observation)"""
    kinds = [e['ev'] for e in evs]
    if before == 'txn':
        if 'got' in kinds:
            return 'attempt', {'got': True}
        if w.pending(p) == 'txn' and 'work' not in kinds and 'done' not in kinds:
            # either a failed attempt or ... a release is always followed by another attempt or the end
            return 'txn', {}
        return 'txn', {}
    return before, {}


class Stepper(object):
    """drives one World and translates steps into events of the trace specification"""

    def __init__(self, tasks):
        self.w = World(tasks)
        self.phase = {p: 'pick' for p in tasks}      # what the next transaction of p is: pick | release
        self.events = []

    def step(self, p):
        w = self.w
        before = w.pending(p)
        evs = w.step(p)
        kinds = [e['ev'] for e in evs]
        if before == 'txn' and self.phase[p] == 'pick':
            got = 'got' in kinds
            c = [e for e in evs if e['ev'] == 'got'][0]['cache'] if got else None
            ev = {'ev': 'attempt', 'p': p, 'got': got, 'cache': c or '?'}
            if got:
                self.phase[p] = 'working'
        elif before == 'work':
            ev = {'ev': 'work', 'p': p}
            self.phase[p] = 'release'
        elif before == 'txn' and self.phase[p] == 'release':
            ev = {'ev': 'release', 'p': p}
            self.phase[p] = 'pick'
        elif before == 'start':
            return None
        else:
            raise tlc.MachineryError('unexpected step of %s: pending %r, phase %r, events %r' % (p, before, self.phase[p], kinds))
        ev['rows'] = w.rows()
        ev['done'] = 'done' in kinds
        self.events.append(ev)
        return ev

    def crash(self, p):
        self.w.crash(p)
        ev = {'ev': 'crash', 'p': p, 'rows': self.w.rows(), 'done': False, 'got': False, 'cache': '?'}
        self.events.append(ev)
        return ev

    def live(self):
        return [p for p in self.w.sched.runnable() if p not in self.w.dead]

    def close(self):
        self.w.close()


SCEN = {
    'three-two': {'p1': ('x', 'y'), 'p2': ('x', 'y'), 'p3': ('y', 'x')},
    'one-cache': {'p1': ('x',), 'p2': ('x',), 'p3': ('x',)},
    'chain': {'p1': ('x', 'y', 'z'), 'p2': ('z', 'x')},
}


def replay_behaviour(tasks, beh, lenient=False):
    st = Stepper(tasks)
    try:
        n = 0
        for act, state in beh[1:]:
            name, args = parse_action(act)
            p = args[0]
            n += 1
            if name == 'Crash':
                st.crash(p)
            else:
                want = {'Attempt': ('txn', 'pick'), 'Work': ('work', 'working'), 'Release': ('txn', 'release')}[name]
                got = (st.w.pending(p), st.phase[p])
                if got != want:
                    return ('not-executable' if lenient else 'diverged'), 'step %d %s: the code is at %r' % (n, act, got), st
                ev = st.step(p)
                if name == 'Attempt' and state and ev['got'] != bool(state['last']['got']):
                    return ('not-executable' if lenient else 'diverged'), 'step %d %s: spec got=%s, code got=%s' % (
                        n, act, state['last']['got'], ev['got']), st
            if st.w.problems:
                return 'problem', '; '.join(st.w.problems), st
            if state:
                spec_rows = [[str(r['cache']), str(r['pid'])] for r in state['rows']]
                if st.w.rows() != spec_rows:
                    return 'diverged', 'step %d %s: spec table %s, real table %s' % (n, act, spec_rows, st.w.rows()), st
        return 'ok', '', st
    except Deadlock as ex:
        return 'problem', 'scheduler: %s' % ex, st
    finally:
        st.close()


def random_schedule(rng, tasks, crashes):
    st = Stepper(tasks)
    try:
        left = crashes
        for _ in range(400):
            live = st.live()
            if not live:
                break
            p = rng.choice(sorted(live))
            if left and rng.random() < 0.05 and st.w.pending(p) != 'start':
                st.crash(p)
                left -= 1
                continue
            st.step(p)
        problems = list(st.w.problems)
        if st.live():
            problems.append('schedule did not finish: %s still running' % st.live())
        return st.events, problems
    except Deadlock as ex:
        return st.events, ['scheduler: %s' % ex]
    finally:
        st.close()


def run(ctx):
    thorough = ctx.tier == 'thorough'
    tlc.sany(SPEC)
    for name, tasks in SCEN.items():
        consts = dict(Proc=set(tasks), Tasks=tasks, MaxCrashes=1, Variant='code')
        d = ctx.sub('mc-' + name)
        mp, cp = tlc.write_mc(d, 'SeedLock', 'MC_SL', consts, invariants=INVS, properties=['NoOvertaking'])
        r = tlc.run(mp, cp, d, timeout=1200)
        ctx.log('SeedLock.tla %s: %r' % (name, r))
        if r.violated:
            ctx.violation({'kind': 'model', 'scenario': name, 'property': r.violated}, 'SeedLock.tla (%s) violates %s' % (name, r.violated),
                          {'trace': [a for a, _ in r.trace]})
            continue
        if not r.ok:
            raise tlc.MachineryError('SeedLock.tla: %r %s' % (r, r.out[-800:]))
        ctx.add_tlc('SeedLock/' + name, r)
        for a in ('Attempt', 'Work', 'Release', 'Crash'):
            if r.coverage.get(a, (0, 0))[0] == 0:
                raise tlc.MachineryError('vacuity: %s never taken in %s' % (a, name))
        mp, cp = tlc.write_mc(d, 'SeedLock', 'MC_SLL', consts, spec='FairSpec', properties=['Termination'])
        r = tlc.run(mp, cp, d, timeout=1200, coverage=False)
        if r.violated:
            ctx.violation({'kind': 'model-liveness', 'scenario': name}, 'SeedLock.tla (%s): Termination fails' % name,
                          {'trace': [a for a, _ in r.trace]})
        elif not r.ok:
            raise tlc.MachineryError('SeedLock.tla liveness: %r %s' % (r, r.out[-800:]))
        else:
            ctx.add_tlc('SeedLock/%s/liveness' % name, r)

        # spec -> code
        d = ctx.sub('sim-' + name)
        mp, cp = tlc.write_mc(d, 'SeedLock', 'MC_Sim', consts)
        prefix = os.path.join(d, 'beh')
        tlc.run(mp, cp, d, workers=1, simulate='file=%s,num=%d' % (prefix, 60 if thorough else 20), depth=60, seed=ctx.seed + 5,
                coverage=False, timeout=600)
        k = 0
        for f, beh in tlc.sim_traces(prefix):
            if len(beh) < 2:
                continue
            k += 1
            status, detail, st = replay_behaviour(tasks, beh)
            ctx.cov['replayed_behaviours'] += 1
            ctx.cov['replayed_steps'] += len(beh) - 1
            ctx.count(('replay', name, tuple(a for a, _ in beh)))
            if k == 1:
                ctx.sample({'kind': 'TLC behaviour forced on the real seed() loop + CacheLocker', 'scenario': name,
                            'actions': [a for a, _ in beh[1:]][:24], 'result': status})
            if status != 'ok':
                ctx.violation({'kind': 'replay-' + status, 'scenario': name}, '%s: %s' % (name, detail),
                              {'scenario': name, 'behaviour': [a for a, _ in beh]})
                break
        if k == 0:
            raise tlc.MachineryError('no behaviours for %s' % name)

        # code -> spec
        traces = []
        for i in range(120 if thorough else 30):
            evs, problems = random_schedule(ctx.rng, tasks, crashes=i % 2)
            ctx.count(('sched', name, json.dumps([[e['p'], e['ev']] for e in evs])))
            if problems:
                ctx.violation({'kind': 'outcome', 'scenario': name}, '%s: random schedule of the real code: %s' % (name, '; '.join(problems)),
                              {'scenario': name, 'trace': evs})
            traces.append(evs)
        d = ctx.sub('tr-' + name)
        tf = os.path.join(d, 'batch.json')
        with open(tf, 'w') as f:
            json.dump(traces, f)
        mp, cp = tlc.write_mc(d, 'Trace_SeedLock', 'MC_TSL', dict(consts, MaxCrashes=9), spec='TraceSpec', invariants=INVS,
                              properties=['NoOvertaking'], post='TraceAccepted')
        r = tlc.run(mp, cp, d, workers=1, coverage=False, env={'TRACE_FILE': tf}, timeout=1800)
        ctx.cov['traces_validated_against_impl'] += len(traces)
        ctx.cov['states'] += r.distinct
        ctx.cov['transitions'] += r.generated
        if r.violated and r.violated != 'postcondition':
            ctx.violation({'kind': 'trace-invariant', 'scenario': name, 'invariant': r.violated},
                          '%s: %s violated in a recorded schedule' % (name, r.violated), {'scenario': name})
        else:
            pr = tlc.find_prints(r.out, 'matched')
            if not pr:
                raise tlc.MachineryError('Trace_SeedLock: no verdict: %s' % r.out[-1200:])
            mv = pr[-1][1]
            matched = list(mv) if isinstance(mv, tuple) else [mv[k2] for k2 in sorted(mv)]
            nrej = 0
            for i, t in enumerate(traces):
                if matched[i] < len(t):
                    nrej += 1
                    e = t[matched[i]]
                    ctx.violation({'kind': 'trace-rejected', 'scenario': name, 'event': e['ev']},
                                  '%s: recorded schedule is not a behaviour of SeedLock.tla at event %d: %s' % (name, matched[i], e),
                                  {'scenario': name, 'trace': t[:matched[i] + 1]})
            ctx.log('%s: replayed %d behaviours, validated %d schedules (%d rejected)' % (name, k, len(traces), nrej))

    # broken variants of _poll (one of them is the code as found before the repair): TLC's counterexample to Mutex must
    # not be executable on the real code
    tasks = SCEN['one-cache']
    for variant, crashes in (('own-anywhere', 0), ('delete-ends-scan', 1)):
        consts = dict(Proc=set(tasks), Tasks=tasks, MaxCrashes=crashes, Variant=variant)
        d = ctx.sub('attack')
        mp, cp = tlc.write_mc(d, 'SeedLock', 'MC_SL', consts, invariants=['Mutex'])
        r = tlc.run(mp, cp, d, timeout=600, coverage=False, workers=4)
        if r.violated != 'Mutex':
            raise tlc.MachineryError('variant %s should violate Mutex: %r' % (variant, r))
        status, detail, st = replay_behaviour(tasks, r.trace, lenient=True)
        ctx.count(('attack', variant))
        ctx.log('counterexample of variant %s forced on the real code: %s %s' % (variant, status, detail))
        ctx.sample({'kind': 'counterexample of a broken _poll forced on the real code', 'variant': variant,
                    'actions': [a for a, _ in r.trace[1:]], 'result': status, 'detail': detail})
        if status in ('ok', 'problem'):
            ctx.violation({'kind': 'mutex', 'variant': variant},
                          'two processes seed one cache at the same time (schedule of variant %s reproduced): %s' % (variant, detail),
                          {'behaviour': [a for a, _ in r.trace]})
    ctx.assumptions += ['processes are threads with their own pid (os.getpid / is_running of mapproxy.seed.cachelock interposed); '
                        'a crash happens between SQLite transactions (inside one, SQLite rolls back); no pid reuse']
    return ctx.finish('model_checking', 'TLC: all interleavings of 3 seeding processes over 1-3 caches with one crash; behaviours '
                      'forced on and schedules recorded from the real seed() loop with the real CacheLocker on SQLite')


def replay(ctx, data):
    return 0
