"""ERRPOLICY - what is answered and stored when the upstream fails: on_error handlers (fill image, cache, authorize_stale)
and the SourceError path, single tile vs meta tile creation, tiles absent / up to date / stale (not one of the listed
properties; extends coverage).

spec/ErrPolicy.tla; TLC explores all histories of requests, expiry, failure and recovery for every combination of path,
handler and authorize_stale (StaleAuthorised, FailedRefreshKeepsOld, AuthorisedStaleNeverOverwritten, FreshFromCache,
FillOnlyIfCacheable, AnswerIsStored).  Binding: a real MapProxy application (configuration loader, WMS source with
on_error, file cache with refresh_before: mtime, TMS requests); every upstream answer paints its number, the fill image is
red; tile files get their time stamps from the harness so that "stale" is exact.  TLC behaviours are executed step by
step, random histories are validated by TLC (spec/trace/Trace_ErrPolicy.tla).  Variant "asfound" (the meta tile path
ignores authorize_stale) is the code before the repair; its counterexample is run on the real code.
"""
import io
import json
import os
import shutil
import tempfile

from engine import tlc
from harness.c05 import parse_action

SPEC = os.path.join(tlc.SPEC_DIR, 'ErrPolicy.tla')
INVS = ['TypeOK', 'FillOnlyIfCacheable']
PROPS = ['StaleAuthorised', 'FailedRefreshKeepsOld', 'AuthorisedStaleNeverOverwritten', 'FreshFromCache', 'AnswerIsStored']
TILES = ['t0', 't1', 't2', 't3']
META = {'t0': {'t0', 't1'}, 't1': {'t0', 't1'}, 't2': {'t2', 't3'}, 't3': {'t2', 't3'}}
POS = {'t0': 0, 't1': 1, 't2': 0, 't3': 1}
TS, SPAN = 8, 100
BASE = 1600000000

_state = {'world': None, 'done': False}


def install():
    if _state['done']:
        return
    import mapproxy.client.http as H
    from urllib.parse import urlparse, parse_qs

    def fake_open(self, url, data=None, method=None):
        from PIL import Image
        w = _state['world']
        if w is None:
            raise H.HTTPClientError('no world', response_code=500)
        w.asked += 1
        if not w.up:
            raise H.HTTPClientError('HTTP Error "%s": 503' % url, response_code=503)
        q = {k.lower(): v[0] for k, v in parse_qs(urlparse(url).query).items()}
        v = w.nextver
        w.nextver += 1
        w.last_answer = v
        b = io.BytesIO()
        Image.new('RGB', (int(q.get('width', TS)), int(q.get('height', TS))), (10 + v, 100, 200)).save(b, 'PNG')
        b.seek(0)
        b.headers = {'Content-type': 'image/png'}
        b.code = 200
        return b

    H.HTTPClient.open = fake_open
    _state['done'] = True


class World(object):
    def __init__(self, path, handler, auth_stale):
        from mapproxy.config.loader import ProxyConfiguration
        from mapproxy.wsgiapp import MapProxyApp
        from webtest import TestApp
        install()
        self.path, self.handler, self.auth_stale = path, handler, auth_stale
        self.dir = tempfile.mkdtemp(prefix='verif-errpolicy-')
        self.up, self.nextver, self.asked, self.stamp = True, 1, 0, 0
        self.marker = os.path.join(self.dir, 'marker')
        open(self.marker, 'w').close()
        os.utime(self.marker, (BASE, BASE))
        src = {'type': 'wms', 'req': {'url': 'http://up.invalid/service', 'layers': 'x'}, 'supported_srs': ['EPSG:3857']}
        if path == 'bulk':
            src = {'type': 'tile', 'url': 'http://up.invalid/t/%(z)s/%(x)s/%(y)s.png', 'grid': 'g'}
        if handler != 'none':
            h = {'response': [255, 0, 0], 'cache': handler == 'fillcache'}
            if auth_stale:
                h['authorize_stale'] = True
            src['on_error'] = {503: h}
        conf = {
            'services': {'tms': {}},
            'grids': {'g': {'srs': 'EPSG:3857', 'bbox': [0, 0, 4 * SPAN, SPAN], 'res': [SPAN / float(TS)], 'tile_size': [TS, TS],
                            'origin': 'nw'}},
            'sources': {'s': src},
            'caches': {'c': {'grids': ['g'], 'sources': ['s'], 'format': 'image/png', 'refresh_before': {'mtime': self.marker},
                             'meta_size': [1, 1] if path == 'single' else [2, 1], 'meta_buffer': 0,
                             'bulk_meta_tiles': path == 'bulk',
                             'cache': {'type': 'file', 'directory': os.path.join(self.dir, 'cache')}}},
            'layers': [{'name': 'lay', 'title': 'lay', 'sources': ['c']}],
            'globals': {'image': {'paletted': False},
                        'cache': {'base_dir': os.path.join(self.dir, 'cd'), 'lock_dir': os.path.join(self.dir, 'locks'),
                                  'tile_lock_dir': os.path.join(self.dir, 'tlocks'), 'concurrent_tile_creators': 1}}}
        _state['world'] = self
        pc = ProxyConfiguration(conf, conf_base_dir=self.dir, seed=False, renderd=False)
        self.app = TestApp(MapProxyApp(pc.configured_services(), pc.base_config))
        self.cache = pc.caches['c'].caches()[0][2].cache
        self.mtimes = {}

    def close(self):
        if _state['world'] is self:
            _state['world'] = None
        shutil.rmtree(self.dir, ignore_errors=True)

    @staticmethod
    def version(data):
        from PIL import Image
        img = Image.open(io.BytesIO(data)).convert('RGB')
        cols = {img.getpixel((x, y)) for x in range(img.size[0]) for y in range(img.size[1])}
        if len(cols) != 1:
            raise ValueError('picture of %d colours' % len(cols))
        r, g, b = cols.pop()
        if (r, g, b) == (255, 0, 0):
            return 0
        if (g, b) != (100, 200) or r <= 10:
            raise ValueError('unknown picture colour %r' % ((r, g, b),))
        return r - 10

    def _loc(self, k):
        from mapproxy.cache.tile import Tile
        return self.cache.tile_location(Tile((k, 0, 0)))

    def settle(self):
        """tiles written by the last step get a time stamp of the harness' own clock (newer than the marker)"""
        for k in range(4):
            p = self._loc(k)
            if os.path.exists(p):
                st = os.stat(p)
                if self.mtimes.get(k) != (st.st_mtime, st.st_ino):
                    self.stamp += 10
                    os.utime(p, (BASE + self.stamp, BASE + self.stamp))
                    st = os.stat(p)
                    self.mtimes[k] = (st.st_mtime, st.st_ino)

    def store_obs(self):
        from mapproxy.cache.tile import Tile
        marker = os.stat(self.marker).st_mtime
        out = []
        for k, t in enumerate(TILES):
            tile = Tile((k, 0, 0))
            if self.cache.load_tile(tile, with_metadata=True) and tile.source is not None:
                out.append([t, self.version(tile.source.as_buffer().read()), bool(int(tile.timestamp) <= marker)])
        return out

    def do(self, op, t=None):
        _state['world'] = self
        self.asked = 0
        ev = {'op': op, 't': t or 'none', 'status': 'ok', 'ver': 0, 'asked': False}
        if op == 'request':
            r = self.app.get('/tms/1.0.0/lay/EPSG3857/0/%d/0.png' % int(t[1:]), status='*')
            if r.status_int != 200 or not r.content_type.startswith('image/'):
                ev['status'] = 'error'
                ev['http'] = r.status_int
            else:
                ev['ver'] = self.version(r.body)
            ev['asked'] = self.asked > 0
            if self.asked > (2 if self.path == 'bulk' else 1):
                ev['asked_n'] = self.asked
            self.settle()
        elif op == 'remove':
            from mapproxy.cache.tile import Tile
            k = int(t[1:])
            self.cache.remove_tile(Tile((k, 0, 0)))
            self.mtimes.pop(k, None)
        elif op == 'expire':
            self.stamp += 10
            os.utime(self.marker, (BASE + self.stamp, BASE + self.stamp))
        elif op == 'fail':
            self.up = False
        elif op == 'recover':
            self.up = True
        ev['store'] = self.store_obs()
        return ev


def consts(path, handler, auth_stale, variant, maxver=4):
    return dict(Tiles=set(TILES), MetaOf={t: set(v) for t, v in META.items()}, Pos=dict(POS), Path=path, Handler=handler, AuthStale=bool(auth_stale),
                Variant=variant, MaxVer=maxver)


def compare(ev, st):
    rp = st['reply']
    if ev['op'] == 'request':
        if ev['status'] != str(rp['status']):
            return 'status: spec %s, real %s (HTTP %s)' % (rp['status'], ev['status'], ev.get('http'))
        if ev['status'] == 'ok' and ev['ver'] != int(rp['ver']):
            return 'picture answered: spec version %s, real %s' % (rp['ver'], ev['ver'])
        if ev['asked'] != bool(rp['asked']):
            return 'upstream asked: spec %s, real %s' % (rp['asked'], ev['asked'])
        if ev.get('asked_n'):
            return 'upstream asked %d times for one request' % ev['asked_n']
    spec_store = sorted([t, int(e['ver']), bool(e['stale'])] for t, e in st['store'].items() if e['there'])
    if spec_store != sorted(ev['store']):
        return 'cache (tile, version, stale): spec %s, real %s' % (spec_store, sorted(ev['store']))
    return None


OPS = {'Request': 'request', 'ExpireAll': 'expire', 'Fail': 'fail', 'Recover': 'recover', 'Remove': 'remove'}


def replay_behaviour(beh, path, handler, auth_stale):
    w = World(path, handler, auth_stale)
    try:
        n = 0
        for act, st in beh[1:]:
            name, args = parse_action(act)
            n += 1
            try:
                ev = w.do(OPS[name], args[0] if args else None)
            except ValueError as ex:
                return 'diverged', 'step %d %s: %s' % (n, act, ex), None
            what = compare(ev, st)
            if what:
                return 'diverged', 'step %d %s: %s' % (n, act, what), ev
        return 'ok', '', None
    finally:
        w.close()


def random_history(rng, n, path, handler, auth_stale):
    w = World(path, handler, auth_stale)
    try:
        evs = []
        fresh = False
        for _ in range(n):
            k = rng.random()
            if k < 0.55:
                evs.append(w.do('request', rng.choice(TILES)))
            elif k < 0.65:
                there = [t for t, _v, _s in (evs[-1]['store'] if evs else [])]
                if not there:
                    continue
                evs.append(w.do('remove', rng.choice(there)))
            elif k < 0.78:
                if not any(not s for _t, _v, s in (evs[-1]['store'] if evs else [])):
                    continue
                evs.append(w.do('expire'))
            else:
                evs.append(w.do('recover' if not w.up else 'fail'))
        return evs
    finally:
        w.close()


def detect_variant():
    w = World('meta', 'fill', True)
    try:
        w.do('request', 't0')
        w.do('expire')
        w.do('fail')
        ev = w.do('request', 't0')
        return ('asfound' if ev['ver'] == 0 else 'repaired'), ev
    finally:
        w.close()


WORLDS = [(p, h, a) for p in ('single', 'meta', 'bulk') for h, a in (('none', False), ('fill', False), ('fill', True), ('fillcache', False),
                                                             ('fillcache', True))]


def run(ctx):
    import logging
    logging.disable(logging.CRITICAL)        # the application logs every failed upstream request
    thorough = ctx.tier == 'thorough'
    tlc.sany(SPEC)
    variant, ev = detect_variant()
    ctx.log('the tree implements Variant=%s (stale tile, outage, authorize_stale on the meta tile path: version %s answered)' % (variant, ev['ver']))
    wd = ('meta', 'fill', True)
    d = ctx.sub('mc-asfound')
    mp, cp = tlc.write_mc(d, 'ErrPolicy', 'MC_E', consts(*wd, variant='asfound', maxver=2), properties=['StaleAuthorised'])
    r = tlc.run(mp, cp, d, timeout=600, coverage=False, workers=2)
    if r.violated != 'StaleAuthorised':
        raise tlc.MachineryError('the as-found variant should violate StaleAuthorised: %r %s' % (r, r.out[-600:]))
    status, detail, _ = replay_behaviour(r.trace, *wd)
    ctx.sample({'kind': 'counterexample of Variant=asfound run on the real application', 'actions': [a for a, _ in r.trace[1:]],
                'result': status, 'detail': detail})
    if status == 'ok':
        ctx.violation({'kind': 'stale-not-served', 'cause': 'authorize-stale-ignored-on-the-meta-tile-path'},
                      'authorize_stale with meta tiles (the default for WMS sources): %s - the fill image is answered although the stale '
                      'tile is still in the cache' % [a for a, _ in r.trace[1:]], {'behaviour': [a for a, _ in r.trace]})
    # the observation
    d = ctx.sub('mc-observation')
    mp, cp = tlc.write_mc(d, 'ErrPolicy', 'MC_E', consts('meta', 'none', False, variant=variant, maxver=2), properties=['StaleOnSourceError'])
    r = tlc.run(mp, cp, d, timeout=600, coverage=False, workers=2)
    if r.violated != 'StaleOnSourceError':
        raise tlc.MachineryError('the observation StaleOnSourceError is expected to fail on the meta tile path: %r' % r)
    status, detail, _ = replay_behaviour(r.trace, 'meta', 'none', False)
    ctx.sample({'kind': 'observation (not a listed property): without a handler a failed refresh is answered with the stale tile on the '
                        'single tile path only; on the meta tile path the request fails', 'actions': [a for a, _ in r.trace[1:]],
                'the real application follows the model': status, 'detail': detail})
    if status != 'ok':
        ctx.violation({'kind': 'replay-' + status, 'world': 'observation'}, detail, {'behaviour': [a for a, _ in r.trace]})
    props = PROPS if variant == 'repaired' else [p for p in PROPS if p not in ('StaleAuthorised', 'AuthorisedStaleNeverOverwritten')]
    from harness.c20 import parallel

    def mc(i, wd):
        d = ctx.sub('mc-%d' % i)
        mp, cp = tlc.write_mc(d, 'ErrPolicy', 'MC_E', consts(*wd, variant=variant, maxver=4 if thorough else 3), invariants=INVS, properties=props)
        return tlc.run(mp, cp, d, timeout=1200, workers=2, coverage=True)

    taken = set()
    res = []
    for k in range(0, len(WORLDS), 8):
        res += parallel([(lambda i=i, wd=wd: mc(i, wd)) for i, wd in list(enumerate(WORLDS))[k:k + 8]])
    for wd, r in zip(WORLDS, res):
        if r.violated:
            ctx.violation({'kind': 'model', 'property': r.violated}, 'ErrPolicy.tla %r violates %s' % (wd, r.violated),
                          {'trace': [a for a, _ in r.trace]})
        elif not r.ok:
            raise tlc.MachineryError('ErrPolicy.tla: %r %s' % (r, r.out[-800:]))
        else:
            ctx.add_tlc('ErrPolicy/%s/%s/%s' % wd, r)
            taken |= {a for a, c in r.coverage.items() if c[0] > 0}
    if not ctx.violations and {'Request', 'ExpireAll', 'Fail', 'Recover', 'Remove'} - taken:
        raise tlc.MachineryError('vacuity: actions never taken: %s' % sorted({'Request', 'ExpireAll', 'Fail', 'Recover', 'Remove'} - taken))
    # (R) spec -> code
    nbeh = 10 if thorough else 4
    seen = set()
    for i, wd in enumerate(WORLDS):
        d = ctx.sub('sim-%d' % i)
        mp, cp = tlc.write_mc(d, 'ErrPolicy', 'MC_S', consts(*wd, variant=variant, maxver=9))
        prefix = os.path.join(d, 'beh')
        tlc.run(mp, cp, d, workers=1, simulate='file=%s,num=%d' % (prefix, nbeh), depth=14, seed=ctx.seed * 13 + i + 1, coverage=False,
                timeout=600)
        behs = [b for _f, b in tlc.sim_traces(prefix) if len(b) > 1]
        if not behs:
            raise tlc.MachineryError('no behaviours for world %r' % (wd,))
        for beh in behs:
            status, detail, ev = replay_behaviour(beh, *wd)
            ctx.cov['replayed_behaviours'] += 1
            ctx.cov['replayed_steps'] += len(beh) - 1
            ctx.count(('replay', i, tuple(a for a, _ in beh)))
            prev = None
            for a, st in beh[1:]:
                seen.add(parse_action(a)[0])
                if st and st['reply']['op'] == 'request':
                    if not st['up'] and st['reply']['status'] == 'ok' and int(st['reply']['ver']) > 0 and st['reply']['asked']:
                        seen.add('stale-served')
                    if not st['up'] and st['reply']['status'] == 'ok' and int(st['reply']['ver']) == 0:
                        seen.add('fill-served')
                    if st['reply']['status'] == 'error':
                        seen.add('error')
            if status != 'ok':
                ctx.violation({'kind': 'replay-' + status, 'path': wd[0], 'handler': wd[1]},
                              'world %r: the real application leaves the model: %s' % (wd, detail), {'world': list(wd), 'behaviour': [a for a, _ in beh]})
                break
    need = {'Request', 'ExpireAll', 'Fail', 'Recover', 'Remove', 'stale-served', 'fill-served', 'error'}
    if not ctx.violations and need - seen:
        raise tlc.MachineryError('vacuity: replayed behaviours never showed %s' % sorted(need - seen))
    # (T) code -> spec
    import random
    nh, ln = (8, 36) if thorough else (3, 24)
    recorded = []
    for i, wd in enumerate(WORLDS):
        rng = random.Random(ctx.seed * 100 + i + 7)
        try:
            recorded.append([random_history(rng, ln, *wd) for _ in range(nh)])
        except ValueError as ex:
            ctx.violation({'kind': 'picture', 'path': wd[0]}, 'world %r: %s' % (wd, ex), {'world': list(wd)})
            recorded.append([])

    def validate(i, wd, traces):
        d = ctx.sub('tr-%d' % i)
        tf = os.path.join(d, 'batch.json')
        with open(tf, 'w') as f:
            json.dump(traces, f)
        mp, cp = tlc.write_mc(d, 'Trace_ErrPolicy', 'MC_T', consts(*wd, variant=variant, maxver=1000), spec='TraceSpec', invariants=INVS,
                              properties=props, post='TraceAccepted')
        return tlc.run(mp, cp, d, workers=1, coverage=False, env={'TRACE_FILE': tf}, timeout=900)

    jobs = [(i, wd, trs) for i, (wd, trs) in enumerate(zip(WORLDS, recorded)) if trs]
    res = []
    for k in range(0, len(jobs), 8):
        res += parallel([(lambda j=j: validate(*j)) for j in jobs[k:k + 8]])
    for (i, wd, traces), r in zip(jobs, res):
        ctx.cov['traces_validated_against_impl'] += len(traces)
        ctx.cov['states'] += r.distinct
        ctx.cov['transitions'] += r.generated
        for t in traces:
            ctx.count(('hist', i, json.dumps([[e['op'], e['t']] for e in t])))
        if r.violated and r.violated != 'postcondition':
            ctx.violation({'kind': 'trace-property', 'property': r.violated, 'path': wd[0], 'handler': wd[1]},
                          'world %r: %s violated in a recorded history' % (wd, r.violated), {'world': list(wd)})
            continue
        pr = tlc.find_prints(r.out, 'matched')
        if not pr:
            raise tlc.MachineryError('Trace_ErrPolicy: no verdict: %s' % r.out[-1200:])
        mv = pr[-1][1]
        matched = list(mv) if isinstance(mv, tuple) else [mv[k2] for k2 in sorted(mv)]
        for k, t in enumerate(traces):
            if matched[k] < len(t):
                e = t[matched[k]]
                ctx.violation({'kind': 'trace-rejected', 'op': e['op'], 'path': wd[0], 'handler': wd[1]},
                              'world %r: recorded history is not a behaviour of ErrPolicy.tla at event %d: %s' % (wd, matched[k] + 1, json.dumps(e)[:400]),
                              {'world': list(wd), 'trace': t[:matched[k] + 1]})
    if recorded and recorded[7]:
        ctx.sample({'kind': 'recorded history (meta tiles, fill image, authorize_stale)', 'events': recorded[7][0][:8]})
    ctx.assumptions += ['one level of four tiles (two meta tiles of 2x1), WMS source, one handled error code (503), file cache with '
                        'refresh_before: mtime; tile files get their time stamps from the harness (10 s apart, the threshold between '
                        'them) so that "stale" is exact; sequential requests']
    return ctx.finish('model_checking', 'TLC: all histories of requests / expiry / failure / recovery for 15 configurations (path x handler x '
                      'authorize_stale) up to 3-4 upstream answers; behaviours executed on and histories recorded from a real application')


def replay(ctx, data):
    return 0
