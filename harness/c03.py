"""C03 - tile grids tile the plane: exact, gap-free and consistent coordinate arithmetic.

spec/Lattice.tla transcribes TileGrid's arithmetic (tile, tile_bbox, grid sizes, flip, origin compatibility,
affected tiles with the 1/10-pixel inset, closest_level) over exact integers and states C03 declaratively.
For every grid of the lattice catalogue TLC checks, on a window of points / rectangles / resolutions placed on
and next to every tile edge, that the transcription meets the declarative statement AND that the results
the real TileGrid returned for the very same cases (exact regime and an awkward floating-point similarity
regime) equal the transcription (spec/trace/Trace_Lattice.tla).  Random grids are validated the same way.
"""
import json
import os

from engine import tlc
from engine import lattice as L

SPEC = os.path.join(tlc.SPEC_DIR, 'Lattice.tla')
TRACE = os.path.join(tlc.SPEC_DIR, 'trace', 'Trace_Lattice.tla')


# ---- pure-python copy of the lattice arithmetic needed to generate cases (NOT used as an oracle) -----------
def fdiv(a, b):
    return a // b


def grid_size(g, l):
    w, h = g['bbox'][2] - g['bbox'][0], g['bbox'][3] - g['bbox'][1]
    r = g['res'][l]
    return (max(-((-(w // r)) // g['tw']), 1), max(-((-(h // r)) // g['th']), 1))


def gen_cases(g, rng, n_rect, n_pt):
    bx0, by0, bx1, by1 = g['bbox']
    pts, tiles, rects, ress = [], [], [], []
    for l, r in enumerate(g['res']):
        gx, gy = grid_size(g, l)
        sx, sy = r * g['tw'], r * g['th']
        d = r // 10
        ex = [bx0 + i * sx for i in range(-1, gx + 2)]
        ey = ([by1 - j * sy for j in range(-1, gy + 2)] if g['ul'] else [by0 + j * sy for j in range(-1, gy + 2)])
        offs = (0, 1, -1, d - 1, d, d + 1, -d + 1, -d, -d - 1, r // 2, sx // 2)
        vx = sorted({e + o for e in ex for o in offs} | {bx0, bx1, bx1 - 1, bx1 + 1, bx0 - 1})
        vy = sorted({e + o for e in ey for o in offs} | {by0, by1, by1 - 1, by1 + 1, by0 - 1})
        # points: every combination of the special coordinates (sampled)
        cand = [(x, y) for x in vx for y in vy]
        rng.shuffle(cand)
        for x, y in cand[:n_pt]:
            pts.append([x, y, l])
        for x in range(-1, gx + 1):
            for y in range(-1, gy + 1):
                tiles.append([x, y, l])
        # rectangles: full set of special values on one axis x a small set on the other
        small_x = [ex[1] + d, ex[2] - d, ex[2], ex[-2] - 1]
        small_y = [ey[1], ey[2] + (d if not g['ul'] else -d), ey[-2]]
        cr = []
        for (a, b, sa, sb) in ((vx, vy, small_x, small_y),):
            for x0 in vx:
                for x1 in vx:
                    if x1 - x0 >= r:
                        for y0 in sorted(small_y):
                            for y1 in sorted(small_y):
                                if y1 - y0 >= r:
                                    cr.append([x0, y0, x1, y1])
            for y0 in vy:
                for y1 in vy:
                    if y1 - y0 >= r:
                        for x0 in sorted(small_x):
                            for x1 in sorted(small_x):
                                if x1 - x0 >= r:
                                    cr.append([x0, y0, x1, y1])
        rng.shuffle(cr)
        for b in cr[:n_rect]:
            rects.append((b, l))
    # resolution ladder: exact level resolutions, stretch ties, neighbours of both, thresholds
    rs = set()
    for r in list(g['res']) + list(g.get('thr', [])):
        for num, den in ((r, 1), (r * L.SD, L.SN), (r * 10 + 1, 10), (r * 10 - 1, 10), (r * L.SD * 10 + 1, L.SN * 10),
                         (r * L.SD * 10 - 1, L.SN * 10), (r * 3, 2), (r * 2, 3)):
            rs.add((num, den))
    rs |= {(g['res'][0] * 8, 1), (1, 1), (g['res'][-1], 3)}
    for num, den in sorted(rs):
        ress.append((num, den))
    # request rectangles with an output size (get_affected_bbox_and_level): every resolution of the ladder, and the
    # max_shrink cut-off of EVERY level (it applies to the first level only), on rectangles inside, across and beside the grid
    bbls = []
    rs2 = set(rs)
    for r in g['res']:
        for num, den in ((r * L.MS, 1), (r * L.MS * 10 + 1, 10), (r * L.MS * 10 - 1, 10), (r * (L.MS + 1), 1), (r * L.MS * 2, 1),
                         (r * L.MS * L.SD * 10 - 1, L.SN * 10), (r * L.MS * L.SD * 10 + 1, L.SN * 10)):
            rs2.add((num, den))
    bx0, by0, bx1, by1 = g['bbox']
    for num, den in sorted(rs2):
        for k in range(3):
            m = rng.randint(1, 3)
            w, h = den * m, den * rng.randint(1, 3)
            kind = rng.random()
            if kind < 0.75:
                x0 = rng.randint(bx0 - num * m // 2, bx1 - 1)
                y0 = rng.randint(by0 - num * (h // den) // 2, by1 - 1)
            else:
                x0 = rng.choice((bx1, bx1 + 7, bx0 - num * m, bx0 - num * m - 3, rng.randint(bx0, bx1)))
                y0 = rng.choice((by1, by0 - num * (h // den), rng.randint(by0, by1)))
            bbls.append(([x0, y0, x0 + num * m, y0 + num * (h // den)], [w, h], num, den))
    return pts, tiles, rects, ress, bbls


def ambiguous_rect(g, b, l):
    """in the awkward regime a shrunk corner exactly on a tile edge may fall on either side"""
    r = g['res'][l]
    d = r // 10
    sx, sy = r * g['tw'], r * g['th']
    bx0, by0, bx1, by1 = g['bbox']
    ys = (lambda y: by1 - y) if g['ul'] else (lambda y: y - by0)
    return ((b[0] + d - bx0) % sx == 0 or (b[2] - d - bx0) % sx == 0 or
            ys(b[1] + d) % sy == 0 or ys(b[3] - d) % sy == 0)


def observe(name_or_grid, g, cases, regime_grids, regime_b=None):
    """run the real TileGrid on every case in both regimes; returns the JSON document for Trace_Lattice"""
    from mapproxy.grid import GridError
    pts, tiles, rects, ress, bbls = cases
    ga, gb = regime_grids
    A, Bm = L.EXACT, (regime_b or L.AWK)
    problems = []

    def back_bbox(reg, bb):
        out = [reg.back(v) for v in bb]
        if any(v is None for v in out):
            problems.append('bbox %r is not on the lattice' % (bb,))
            return [0, 0, 0, 0]
        return out

    doc = {'grid': g, 'sizes': [list(ga.grid_sizes[l]) for l in range(len(g['res']))],
           'supports_ll': bool(ga.supports_access_with_origin('ll')), 'supports_ul': bool(ga.supports_access_with_origin('ul')),
           'points': [], 'tiles': [], 'rects': [], 'ress': [], 'bbls': []}
    skip_b = False
    for l in range(len(g['res'])):
        if tuple(gb.grid_sizes[l]) != tuple(ga.grid_sizes[l]):
            # `width // res` on doubles: when the extent is an exact whole number n of pixels, rounding may yield
            # n-1; that changes the tile count only if n = 1 (mod tile size).  The uncovered strip is then exactly
            # one pixel - the boundary of the tolerance C03 grants - so either size is accepted there.
            w, h, r = g['bbox'][2] - g['bbox'][0], g['bbox'][3] - g['bbox'][1], g['res'][l]
            boundary = (w % r == 0 and (w // r) % g['tw'] == 1 % g['tw']) or (h % r == 0 and (h // r) % g['th'] == 1 % g['th'])
            if boundary:
                skip_b = True
            else:
                problems.append('grid size of level %d differs between regimes: %s vs %s' % (l, ga.grid_sizes[l], gb.grid_sizes[l]))
    if skip_b:
        gb, Bm = ga, A
        doc['awkward_regime_skipped'] = True
    if not skip_b and bool(gb.supports_access_with_origin('ll')) != doc['supports_ll'] or bool(gb.supports_access_with_origin('ul')) != doc['supports_ul']:
        problems.append('supports_access_with_origin differs between regimes')
    for x, y, l in pts:
        doc['points'].append({'p': [x, y, l], 'a': list(ga.tile(A.fwd(x), A.fwd(y), l)),
                              'b': list(gb.tile(Bm.fwd(x), Bm.fwd(y), l))})
    for x, y, l in tiles:
        doc['tiles'].append({'t': [x, y, l], 'a': back_bbox(A, ga.tile_bbox((x, y, l))),
                             'b': back_bbox(Bm, gb.tile_bbox((x, y, l))), 'fa': list(ga.flip_tile_coord((x, y, l)))})

    def aff(grid, reg, b, l):
        try:
            abbox, (nx, ny), it = grid.get_affected_level_tiles(tuple(reg.fwd(v) for v in b), l)
            ts = [list(t) if t is not None else [-1, -1, -1] for t in it]
            return {'bbox': back_bbox(reg, abbox), 'nx': nx, 'ny': ny, 'tiles': ts}
        except GridError:
            return {'bbox': [0, 0, 0, 0], 'nx': 0, 'ny': 0, 'tiles': []}
    for b, l in rects:
        skip = ambiguous_rect(g, b, l)
        a = aff(ga, A, b, l)
        doc['rects'].append({'r': b, 'l': l, 'a': a, 'bskip': skip, 'b': a if skip else aff(gb, Bm, b, l)})
    for rn, rd in ress:
        tie = any(r * rd == rn or r * rd * L.SD == rn * L.SN for r in list(g['res']) + list(g.get('thr', [])))
        doc['ress'].append({'rn': rn, 'rd': rd, 'a': ga.closest_level(rn / float(rd)),
                            'b': -1 if tie else gb.closest_level(Bm.fwd_len(rn / float(rd)))})

    def bbl(grid, reg, b, size):
        from mapproxy.grid import NoTiles
        try:
            return grid.get_affected_bbox_and_level(tuple(reg.fwd(v) for v in b), tuple(size))[1]
        except NoTiles:
            return -1
    for b, size, rn, rd in bbls:
        tie = any(r * rd == rn or r * rd * L.SD == rn * L.SN for r in list(g['res']) + list(g.get('thr', []))) or \
            rn == g['res'][0] * L.MS * rd
        touch = b[0] == g['bbox'][2] or b[2] == g['bbox'][0] or b[1] == g['bbox'][3] or b[3] == g['bbox'][1]
        doc['bbls'].append({'r': b, 'size': size, 'rn': rn, 'rd': rd, 'a': bbl(ga, A, b, size),
                            'b': -2 if (tie or touch) else bbl(gb, Bm, b, size)})
    return doc, problems


def validate(ctx, name, doc):
    d = ctx.sub('tr-' + name)
    tf = os.path.join(d, 'cases.json')
    with open(tf, 'w') as f:
        json.dump(doc, f)
    mp, cp = tlc.write_mc(d, 'Trace_Lattice', 'MC_TL', {}, spec='TraceSpec')
    r = tlc.run(mp, cp, d, workers=1, coverage=False, env={'TRACE_FILE': tf}, timeout=3000, heap='6g')
    pr = tlc.find_prints(r.out, 'verdict')
    if not pr:
        raise tlc.MachineryError('Trace_Lattice gave no verdict for %s: %s' % (name, r.out[-1500:]))
    return r, pr[-1][1]


def report(ctx, name, g, doc, verdict, kindsig):
    ok = True
    if not verdict['grid']:
        ok = False
        ctx.violation(dict(kindsig, what='grid-level'),
                      '%s: grid sizes / edge sharing / coverage / flip / origin support disagree with the statement or the '
                      'transcription (real sizes %s, supports ll/ul %s/%s)' % (name, doc['sizes'], doc['supports_ll'], doc['supports_ul']),
                      {'grid': g})
    for key, coll, label in (('point', 'points', 'tile() for a point'), ('tile', 'tiles', 'tile_bbox / flip'),
                             ('rect', 'rects', 'get_affected_level_tiles'), ('res', 'ress', 'closest_level'),
                             ('bbl', 'bbls', 'get_affected_bbox_and_level')):
        i = verdict[key]
        if i:
            ok = False
            c = doc[coll][i - 1]
            ctx.violation(dict(kindsig, what=key),
                          '%s: %s: case %s - real result differs from the model or the declarative statement fails' % (
                              name, label, json.dumps(c)[:400]), {'grid': g, 'case': c})
    return ok


def run(ctx):
    thorough = ctx.tier == 'thorough'
    tlc.sany(SPEC)
    names = list(L.CATALOGUE) if thorough else ['G2', 'Gpartul', 'Gneg', 'Grect', 'Grectul', 'G15', 'Gnear', 'Gthr', 'Gunal', 'G1', 'Gcust', 'Gsparse']
    n_rect, n_pt = (6000, 3000) if thorough else (700, 500)
    total = 0
    for name in names:
        g = L.spec_grid(name)
        cases = gen_cases(g, ctx.rng, n_rect, n_pt)
        doc, problems = observe(name, g, cases, (L.real_grid(name, L.EXACT), L.real_grid(name, L.AWK)))
        for p in problems[:1]:
            ctx.violation({'kind': 'lattice', 'grid': name, 'what': 'off-lattice'}, '%s: %s' % (name, p), {'grid': g})
        r, verdict = validate(ctx, name, doc)
        n = len(doc['points']) + len(doc['tiles']) + len(doc['rects']) + len(doc['ress']) + len(doc['bbls'])
        total += n
        for coll in ('points', 'tiles', 'rects', 'ress'):
            for c in doc[coll]:
                ctx.count((name, coll, json.dumps(c.get('p') or c.get('t') or [c.get('r'), c.get('l')] if coll != 'ress' else [c['rn'], c['rd']])))
        for c in doc['bbls']:
            ctx.count((name, 'bbls', json.dumps([c['r'], c['size']])))
        ctx.cov['states'] += max(r.distinct, 1)
        ctx.cov['transitions'] += n
        ctx.cov['traces_validated_against_impl'] += 1
        ok = report(ctx, name, g, doc, verdict, {'kind': 'lattice', 'grid': name})
        if doc.get('awkward_regime_skipped'):
            ctx.notes.append('%s: awkward regime skipped (extent is an exact number of pixels = 1 mod tile size: float floor division boundary)' % name)
        if name == names[0]:
            ctx.sample({'grid': name, 'point case': doc['points'][0], 'rect case': doc['rects'][0], 'res case': doc['ress'][0]})
        ctx.log('%s: %d cases (%d points, %d tiles, %d rects, %d resolutions, %d sized requests) %s in %.1fs' % (
            name, n, len(doc['points']), len(doc['tiles']), len(doc['rects']), len(doc['ress']), len(doc['bbls']),
            'ok' if ok else 'FAILED', r.wall))

    # the same catalogue grids far from the origin of their SRS (third regime)
    for name in (['G2', 'Gpartul', 'Grectul', 'Gunal', 'Gcust', 'G15'] if thorough else ['G2', 'Grectul', 'Gunal']):
        g = L.spec_grid(name)
        cases = gen_cases(g, ctx.rng, 400 if thorough else 150, 300 if thorough else 120)
        doc, problems = observe(name + '/far', g, cases, (L.real_grid(name, L.EXACT), L.real_grid(name, L.FAR)), regime_b=L.FAR)
        for p in problems[:1]:
            ctx.violation({'kind': 'lattice', 'grid': name, 'what': 'far-regime'}, '%s far from the origin: %s' % (name, p), {'grid': g})
        r, verdict = validate(ctx, name + '-far', doc)
        n = len(doc['points']) + len(doc['tiles']) + len(doc['rects']) + len(doc['ress']) + len(doc['bbls'])
        total += n
        ctx.cov['transitions'] += n
        ctx.cov['traces_validated_against_impl'] += 1
        ctx.count(('far', name), n=n)
        ok = report(ctx, name + ' far from the origin', g, doc, verdict, {'kind': 'lattice', 'grid': name, 'regime': 'far'})
        ctx.log('%s/far: %d cases %s' % (name, n, 'ok' if ok else 'FAILED'))
    # random grids (code -> spec): random origins, tile sizes, resolution lists (multiples of 10 u), stretch 5/4
    from mapproxy.grid import TileGrid
    from mapproxy.srs import SRS
    nrand = 40 if thorough else 8
    for k in range(nrand):
        rng = ctx.rng
        nl = rng.randint(1, 4)
        res = sorted({10 * rng.randint(1, 24) for _ in range(nl)}, reverse=True)
        tw, th = rng.randint(1, 5), rng.randint(1, 5)
        bx0, by0 = rng.randint(-500, 500), rng.randint(-500, 500)
        w, h = rng.randint(res[-1] * tw, 1500), rng.randint(res[-1] * th, 1500)
        g = dict(ul=rng.random() < 0.5, bbox=[bx0, by0, bx0 + w, by0 + h], tw=tw, th=th, res=res, sn=L.SN, sd=L.SD, ms=L.MS, thr=[])
        grids = []
        for reg in (L.EXACT, L.AWK):
            grids.append(TileGrid(SRS(3857), bbox=tuple(reg.fwd(v) for v in g['bbox']), tile_size=(tw, th),
                                  res=[reg.fwd_len(r) for r in res], origin='ul' if g['ul'] else 'll',
                                  stretch_factor=L.SN / float(L.SD), max_shrink_factor=float(L.MS)))
        cases = gen_cases(g, rng, 150, 150)
        doc, problems = observe('rand%d' % k, g, cases, grids)
        for p in problems[:1]:
            ctx.violation({'kind': 'lattice', 'grid': 'random', 'what': 'off-lattice'}, 'random grid %s: %s' % (g, p), {'grid': g})
        r, verdict = validate(ctx, 'rand%d' % k, doc)
        ctx.cov['traces_validated_against_impl'] += 1
        n = len(doc['points']) + len(doc['tiles']) + len(doc['rects']) + len(doc['ress']) + len(doc['bbls'])
        total += n
        ctx.cov['transitions'] += n
        ctx.count(('random-grid', json.dumps(g)), n=n)
        report(ctx, 'random grid %s' % json.dumps(g), g, doc, verdict, {'kind': 'lattice', 'grid': 'random'})
    ctx.log('%d cases in total' % total)
    ctx.assumptions += [
        'lattice world: grid corners, resolutions (multiples of 10 units) and query coordinates are integers; doubles are '
        'exercised through the exact regime and one awkward similarity regime (scale 20037508.34/2^15, offset -20037508.34)',
        'in the awkward regime cases that sit exactly on a decision boundary (point on a tile edge, inset corner on a tile '
        'edge, resolution tie) accept either neighbour / are skipped',
        'stretch factor 1.25, catalogue of 13 grids + random grids; threshold_res only declaratively covered through the transcription',
    ]
    return ctx.finish('model_checking',
                      'TLC evaluates the declarative C03 statements against the transcription and the transcription against the real '
                      'TileGrid results for every generated case (points/rectangles/resolutions on and next to every tile edge of '
                      'every level); distinct = distinct (grid, case) pairs')


def replay(ctx, data):
    case = data.get('case') or {}
    print('C03 replay: grid %s case %s - rerun ./check C03 (cases are regenerated deterministically from the seed)' % (
        case.get('grid'), case.get('case')))
    return 0
