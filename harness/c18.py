"""C18 - every request gets a well-formed answer and cannot inject markup.

spec/Dispatch.tla follows one request through wsgiapp -> OWS dispatch -> request parsing -> validation -> handler ->
exception handler selection -> catch-all -> response assembly, over vectors of per-parameter classes, with a taint
model of request text (where it lands, how it is encoded).  The constant Defects selects the variant of the code: {} is
the code with the candidate repairs, AS_FOUND the code as found.  TLC enumerates the vectors (all vectors with at most
MaxDev parameters off the baseline), checks AlwaysResponds / MarkupFixed / NoLeak / ImageOK on the repaired variant,
shows that they fail on every one-defect variant, and prints for every vector the response classes of both variants.

spec -> code: every vector is concretised (one harmless reference string set, several seeded hostile ones: markup,
non-latin-1, control characters, CR LF, ...) and sent through the real WSGI callable; the observed class
(raised?, status, content type, body kind, decoded image size, XML skeleton and exception code, where request text
came back) must be one of the classes TLC printed, the element structure must equal the reference's, and the strict
checks on the observation itself (header syntax, image decodes as declared, a body that is an image is declared with an
image media type, XML well-formed, no unescaped request text, no traceback / server path) must hold.  The counterexamples TLC finds for the one-defect variants are replayed on the
real application: a reproduced counterexample is a violation.

code -> spec: random vectors with many parameters off the baseline are executed, recorded and validated by TLC
against spec/trace/Trace_Dispatch.tla (the observation must be a terminal state of the machine started with the
recorded vector; the property is evaluated on every recorded observation)."""
import json
import logging
import os
import random
import shutil
import tempfile
import time

from engine import tlc, tla
from harness import c18_world as W

SPEC = os.path.join(tlc.SPEC_DIR, 'Dispatch.tla')
TRACE_SPEC = os.path.join(tlc.SPEC_DIR, 'trace', 'Trace_Dispatch.tla')
INVARIANTS = ['TypeOK', 'AlwaysResponds', 'MarkupFixed', 'NoLeak', 'ImageOK', 'NoStuck']
ACTIONS = ['WsgiApp', 'OwsDispatch', 'Parse', 'Validate', 'Handle', 'RenderError', 'CatchAll', 'Send']
AS_FOUND = ('raw_host', 'raw_header', 'xml_ctrl', 'legend_png', 'bare_ct')   # deviations of the code as found from the repaired model
HYPOTHETICAL = ('no_escape', 'no_catch_all')           # the invariants must be able to fail
TLC_WORKERS = 4


# ---------------------------------------------------------------------------------------------------------------
# running one abstract request on the real application

def pkey(op, p):
    return op, tuple(sorted((k, str(v)) for k, v in p.items()))


def execute(world, op, p, mode, seed):
    """-> observation dict (see c18_world.observe) + 'req' description for replay"""
    st = W.Strings(random.Random('%s|%s|%s' % (op, sorted(p.items()), seed)), mode)
    path, q, hdr = W.concretise(op, p, st)
    if '@etag' in hdr.values():
        r0 = world.call(path, q, {k: v for k, v in hdr.items() if v != '@etag'})
        et = dict((k.lower(), v) for k, v in (r0.get('headers') or [])).get('etag', '"none"')
        hdr = {k: (et if v == '@etag' else v) for k, v in hdr.items()}
    if p.get('legendcache') == 'cold':
        world.clear_legend_cache()
    elif p.get('legendcache') == 'warm':
        world.call(path, q, hdr)
    raw = world.call(path, q, hdr)
    o = W.observe(world, raw, st.needles, st.full)
    o['request'] = {'path': path, 'query': raw['qs'], 'headers': hdr}
    if o['kind'] == 'xml' and o['skel'] == 'unparseable':
        o['xmlfix'] = W.xml_without_illegal_chars(raw)
    o['size'] = size_symbol(o)
    if any(tok in o['ctype'].lower() for tok in st.needles.values()):
        o['ctype_raw'], o['ctype'] = o['ctype'], 'tainted'
    return o


def size_symbol(o):
    if o['kind'] != 'image':
        return 'none'
    wh = (o['w'], o['h'])
    return {(W.REQ_W, W.REQ_H): 'req', (W.TILE, W.TILE): 't256', (20, 10): 'legend'}.get(wh, '%dx%d' % wh)


def bad_flags(o, ref):
    """property-relevant defects visible in one observation (ref: observation of the harmless reference strings)"""
    bad = set()
    hdr = [x for x in o['problems'] if 'control character in' in x or 'is not latin-1' in x]
    if hdr:
        bad.add('header')
    img = [x for x in o['problems'] if x.startswith('declared ')]
    if img:
        bad.add('image')
    cty = [x for x in o['problems'] if x.startswith('Content-type ') and 'is not an image media type' in x]
    if cty:
        bad.add('ctype')
    if o['raised'] == 'yes' or [x for x in o['problems'] if x not in hdr and x not in img and x not in cty]:
        bad.add('response')
    if o['leak']:
        bad.add('leak')
    if o['skel'] == 'unparseable':
        fix = o.get('xmlfix')
        if fix and ref is not None and fix == (ref['skel'], ref['code'], ref['struct']):
            bad.add('xml')              # only characters that XML cannot carry; the structure is the reference's
        else:
            bad.add('markup')
    elif o['markup']:
        bad.add('markup')
    elif ref is not None and o['kind'] in ('xml', 'html') and ref['kind'] == o['kind'] and ref['skel'] == o['skel'] \
            and ref['code'] == o['code'] and ref['struct'] != o['struct']:
        bad.add('markup')               # the element structure depends on the request text
    return bad


def obs_class(o, ref):
    """what is compared with the spec"""
    c = {'raised': o['raised'], 'st': o['status'], 'ct': o['ctype'], 'kind': o['kind'], 'skel': o['skel'], 'code': o['code'],
         'size': o['size'], 'echo': sorted(set((s, p) for s, p in o['echo'])), 'bad': sorted(bad_flags(o, ref))}
    if o['skel'] == 'unparseable' and ref is not None:   # classified as the document it was meant to be
        c['skel'], c['code'] = ref['skel'], ref['code']
    return c


def matches(c, resp):
    """observed class c is the response class resp of the spec"""
    if c['raised'] != str(resp['raised']):
        return False
    if c['raised'] == 'yes':
        return True
    for k in ('st', 'ct', 'kind', 'skel', 'code', 'size'):
        if str(c[k]) != str(resp[k]):
            return False
    slots = {(str(s[0]), str(s[2])) for s in resp['slots']}
    if not set(map(tuple, c['echo'])) <= slots:
        return False
    return set(c['bad']) == {str(b) for b in resp['bad']}


def signature(op, p, c):
    """which invariant fails / what differs - matched against known_findings.json"""
    svc = op.split('_')[0]
    bad = set(c['bad'])
    text = sorted(k for k, v in p.items() if v in ('hostile', 'unicode', 'ctrl', 'latin1', 'opt_hostile', 'opt_unicode', 'opt_ctrl', 'word'))
    via = 'host-header' if set(text) & {'h_host', 'h_proto'} else ('+'.join(text) or 'none')
    if 'response' in bad:
        return {'invariant': 'AlwaysResponds', 'what': 'raised' if c['raised'] == 'yes' else 'malformed-response', 'service': svc}
    if 'header' in bad:
        return {'invariant': 'AlwaysResponds', 'what': 'request-text-breaks-response-header', 'service': svc}
    if 'leak' in bad:
        return {'invariant': 'NoLeak', 'what': 'traceback-or-server-path', 'service': svc}
    if 'image' in bad:
        return {'invariant': 'ImageOK', 'what': 'image-bytes-are-not-of-the-declared-type', 'service': svc}
    if 'ctype' in bad:
        return {'invariant': 'ImageOK', 'what': 'declared-content-type-of-image-is-not-a-media-type', 'service': svc}
    if 'markup' in bad:
        return {'invariant': 'MarkupFixed', 'what': 'structure-depends-on-request-text', 'via': via}
    if 'xml' in bad:
        return {'invariant': 'MarkupFixed', 'what': 'xml-not-well-formed-control-characters'}
    return {'invariant': 'conformance', 'what': 'response-class-not-allowed-by-spec', 'operation': op,
            'observed': '%s %s %s %s %s' % (c['st'], c['ct'], c['kind'], c['skel'], c['code'])}


# ---------------------------------------------------------------------------------------------------------------
# TLC

def model_check(ctx, name, ops, maxdev, defects=(), emit=False, invariants=INVARIANTS, timeout=1500, workers=TLC_WORKERS):
    d = ctx.sub('mc-' + name)
    consts = dict(Defects=set(defects), MaxDev=maxdev, Ops=('=AllOps' if ops is None else set(ops)))
    mp, cp = tlc.write_mc(d, 'Dispatch', 'MC_Dispatch', consts, invariants=list(invariants) + (['Emit'] if emit else []))
    r = tlc.run(mp, cp, d, workers=workers, timeout=timeout)
    ctx.log('TLC %s: MaxDev=%d defects=%s -> %d states, %s  [%.0fs]' % (name, maxdev, sorted(defects) or '{}', r.distinct,
                                                                   'violates ' + r.violated if r.violated else ('ok' if r.ok else r.error), r.wall))
    return r


def cases_of(r):
    """printed terminal states -> {(op, params): [response class, ...]}"""
    table = {}
    for pr in tlc.find_prints(r.out, 'case'):
        _, op, p, resp = pr
        p = {str(k): str(v) for k, v in p.items()}
        table.setdefault(pkey(str(op), p), (str(op), p, []))[2].append(resp)
    return table


def vacuity_guard(name, r):
    for a in ACTIONS:
        if r.coverage.get(a, (0, 0))[0] == 0:
            raise tlc.MachineryError('%s: action %s was never taken (coverage %r)' % (name, a, r.coverage))


# ---------------------------------------------------------------------------------------------------------------

class Checker(object):
    def __init__(self, ctx):
        self.ctx = ctx
        self.dir = tempfile.mkdtemp(prefix='c18-', dir=ctx.sub('world'))
        logging.disable(logging.CRITICAL)      # the catch-all logs every internal error with its traceback
        self.world = W.World(self.dir)
        self.nreq = 0
        self.bare = {'error-image': 0, 'map-1.0.0': 0}     # vacuity guard: bare FORMAT names reached both paths

    def close(self):
        logging.disable(logging.NOTSET)
        self.world.close()
        shutil.rmtree(self.dir, ignore_errors=True)

    def run_vector(self, op, p, allowed, nhostile, seed0, record=None):
        """reference run + hostile runs of one vector; reports violations; returns observed classes"""
        ctx = self.ctx
        ref = execute(self.world, op, p, 'benign', 0)
        self.nreq += 1
        out = []
        for i in range(nhostile + 1):
            o = ref if i == 0 else execute(self.world, op, p, 'hostile', seed0 + i)
            self.nreq += i and 1
            c = obs_class(o, None if i == 0 else ref)
            out.append(c)
            if record is not None:
                record.append({'op': op, 'p': p, 'obs': c})
            ctx.count(('vec', pkey(op, p), c['st'], c['ct'], c['skel'], c['code'], tuple(c['bad'])))
            if str(p.get('format', '')).startswith('bare_') and c['kind'] == 'image' and c['st'] == 200:
                if p.get('exceptions') in ('inimage', 'blank') and p.get('bbox') == 'inverted':
                    self.bare['error-image'] += 1      # WMSImageExceptionHandler with FORMAT as sent
                elif p.get('version') == 'v100' and p.get('exceptions') == 'absent':
                    self.bare['map-1.0.0'] += 1        # WMS100MapRequest.validate_format accepted the name
            ok = allowed is None or any(matches(c, r) for r in allowed)
            if ok and not c['bad']:
                continue
            sig = signature(op, p, c)
            what = '%s %s: %s -> %s %s %s %s %s size=%s echo=%s %s' % (
                op, {k: v for k, v in p.items() if v != 'absent'}, sig['what'], c['st'], c['ct'], c['kind'], c['skel'], c['code'],
                c['size'], c['echo'], '; '.join(o['problems'] + o['markup'] + o['leak'])[:300])
            ctx.violation(sig, what, {'op': op, 'p': p, 'mode': 'benign' if i == 0 else 'hostile', 'seed': seed0 + i,
                                      'request': o['request'], 'observed': c,
                                      'allowed': [tla_py(r) for r in (allowed or [])][:6]})
        return out


def tla_py(v):
    if isinstance(v, dict):
        return {str(k): tla_py(x) for k, x in v.items()}
    if isinstance(v, (set, frozenset)):
        return sorted((tla_py(x) for x in v), key=repr)
    if isinstance(v, (tuple, list)):
        return [tla_py(x) for x in v]
    return v if isinstance(v, (int, bool)) else str(v)


ATTACKS = {   # defect variant -> (operations, MaxDev) where TLC finds its counterexample
    'raw_host': (['wms_caps', 'tms_caps', 'rest_caps'], 1), 'raw_header': (['wms_mapx'], 1), 'xml_ctrl': (['wms_map', 'tms_tile'], 1),
    'legend_png': (['wms_legend'], 1), 'bare_ct': (['wms_mapx'], 1), 'no_escape': (['wms_map', 'wmts_tile'], 1), 'no_catch_all': (['wms_map'], 1)}


def attack_model(ctx, defect):
    ops, k = ATTACKS[defect]
    return model_check(ctx, 'attack-' + defect, ops, k, defects=[defect], invariants=['AlwaysResponds', 'MarkupFixed', 'ImageOK'],
                       timeout=900, workers=2)


def attack(ctx, chk, defect, r):
    """TLC counterexample r for a one-defect variant of the model, replayed on the real application."""
    if isinstance(r, Exception):
        raise r
    if not r.violated or not r.trace:
        raise tlc.MachineryError('the %s variant of Dispatch.tla violates nothing - vacuous invariants? %r' % (defect, r))
    st = r.trace[0][1]
    op, p = str(st['req']['op']), {str(k_): str(v) for k_, v in st['req']['p'].items()}
    final = r.trace[-1][1]['resp']
    ref = execute(chk.world, op, p, 'benign', 0)
    hit = None
    for i in range(1, 13):
        o = execute(chk.world, op, p, 'hostile', 7000 + i)
        c = obs_class(o, ref)
        chk.nreq += 1
        ctx.count(('attack', defect, i))
        if (c['bad'] or c['raised'] == 'yes') and matches(c, final):
            hit = (o, c)
            break
    ctx.cov['replayed_behaviours'] += 1
    ctx.cov['replayed_steps'] += len(r.trace)
    ctx.log('model variant {%s} violates %s on %s %s: %s on the real application' % (
        defect, r.violated, op, {k_: v for k_, v in p.items() if v not in ('absent', 'valid')},
        'REPRODUCED' if hit else 'not reproduced'))
    if hit:
        o, c = hit
        ctx.violation(signature(op, p, c), 'counterexample of model variant {%s} (%s) reproduced on the real application: %s %s -> %s %s %s; %s' % (
            defect, r.violated, op, {k_: v for k_, v in p.items() if v != 'absent'}, c['st'], c['ct'], c['bad'],
            '; '.join(o['problems'] + o['markup'])[:300]),
            {'op': op, 'p': p, 'mode': 'hostile', 'seed': 7000, 'request': o['request'], 'observed': c, 'variant': defect})
    return r, hit is not None


def random_vector(rng, catalogue, op):
    dom = catalogue[op]
    p = {k: v[0] for k, v in dom.items()}
    ks = sorted(dom)
    n = rng.choice([1, 2, 3, 3, 4, 5, 6, len(ks)])
    for k in rng.sample(ks, min(n, len(ks))):
        p[k] = rng.choice(dom[k])
    return p


def validate_traces(ctx, events, name='trace'):
    """events: [{'op', 'p', 'obs'}] -> (TLC results, indices rejected by every model variant, indices whose observation
    violates the property)"""
    d = ctx.sub(name)
    tf = os.path.join(d, 'batch.json')
    batch = []
    for e in events:
        o = e['obs']
        batch.append({'op': e['op'], 'p': e['p'],
                      'obs': {'raised': o['raised'], 'st': int(o['st']), 'ct': o['ct'], 'kind': o['kind'], 'skel': o['skel'],
                              'code': o['code'], 'size': o['size'], 'echo': [[s, p] for s, p in o['echo']], 'bad': list(o['bad'])}})
    with open(tf, 'w') as f:
        json.dump(batch, f)
    accepted, obsbad, results = set(), set(), []
    for vname, defects in (('repaired', ()), ('asfound', AS_FOUND)):
        dv = ctx.sub(name + '-' + vname)
        mp, cp = tlc.write_mc(dv, 'Trace_Dispatch', 'MC_Trace', dict(Defects=set(defects), MaxDev=0, Ops=set()),
                              spec='TraceSpec', post='TraceAccepted')
        r = tlc.run(mp, cp, dv, workers=1, coverage=False, env={'TRACE_FILE': tf}, timeout=3000)
        pa, pb = tlc.find_prints(r.out, 'accepted'), tlc.find_prints(r.out, 'obsbad')
        if not pa or not pb:
            raise tlc.MachineryError('trace validation: no verdict from TLC\n' + r.out[-2500:])
        accepted |= {int(x) for x in pa[-1][1]}
        obsbad |= {int(x) for x in pb[-1][1]}
        results.append(r)
    rejected = [i for i in range(len(events)) if (i + 1) not in accepted]
    return results, rejected, sorted(i - 1 for i in obsbad)


def catalogue_from_tlc(ctx):
    d = ctx.sub('catalogue')
    mp, cp = tlc.write_mc(d, 'Dispatch', 'MC_Cat', dict(Defects=set(), MaxDev=0, Ops=set()), spec='CatSpec',
                          extra_defs='ASSUME PrintT(<<"catalogue", Dom>>)\nVARIABLE dummy\n'
                                     'CatSpec == dummy = 0 /\\ [][UNCHANGED dummy]_dummy')
    r = tlc.run(mp, cp, d, workers=1, coverage=False, timeout=300)
    pr = tlc.find_prints(r.out, 'catalogue')
    if not pr:
        raise tlc.MachineryError('no catalogue from TLC: ' + r.out[-1500:])
    return {str(op): {str(k): [str(c) for c in v] for k, v in dom.items()} for op, dom in pr[-1][1].items()}


def tables(ctx, jobs, timeout=2400, attacks=(), guard=True, model_only=()):
    """jobs: [(name, ops, maxdev)].  Per job - repaired variant: model-checked with all invariants; as-found variant: its
    terminal states (the property fails on it, see attack()).  The TLC runs go in parallel.
    -> [(merged table {(op, params): (op, params, [response classes])}, TLC result repaired, TLC result as found)]"""
    import threading
    res = {}

    def work(key, name, ops, maxdev, defects, invs):
        try:
            res[key] = model_check(ctx, name, ops, maxdev, defects=defects, emit=True, invariants=invs, timeout=timeout)
        except Exception as ex:  # pragma: no cover
            res[key] = ex
    th = []
    for name, ops, maxdev in jobs:
        th.append(threading.Thread(target=work, args=((name, 0), name, ops, maxdev, (), INVARIANTS)))
        th.append(threading.Thread(target=work, args=((name, 1), name + '-asfound', ops, maxdev, AS_FOUND, ['TypeOK', 'NoStuck'])))

    def awork(dfc):
        try:
            res[('attack', dfc)] = attack_model(ctx, dfc)
        except Exception as ex:  # pragma: no cover
            res[('attack', dfc)] = ex
    for dfc in attacks:
        th.append(threading.Thread(target=awork, args=(dfc,)))

    def mwork(name, ops, maxdev):
        try:
            res[('model', name)] = model_check(ctx, name, ops, maxdev, timeout=timeout, workers=2)
        except Exception as ex:  # pragma: no cover
            res[('model', name)] = ex
    for name, ops, maxdev in model_only:
        th.append(threading.Thread(target=mwork, args=(name, ops, maxdev)))
    for t in th:
        t.start()
    for t in th:
        t.join()
    out = []
    for name, ops, maxdev in jobs:
        r, rf = res[(name, 0)], res[(name, 1)]
        for x in (r, rf):
            if isinstance(x, Exception):
                raise x
        if not r.ok:
            raise tlc.MachineryError('Dispatch.tla (repaired variant, %s): %r\n%s' % (name, r, r.out[-1500:]))
        if guard:
            vacuity_guard('Dispatch ' + name, r)
        if not rf.ok:
            raise tlc.MachineryError('Dispatch.tla (as-found variant, %s): %r\n%s' % (name, rf, rf.out[-1500:]))
        table = cases_of(r)
        for key, (op, p, resps) in cases_of(rf).items():
            table.setdefault(key, (op, p, []))[2].extend(resps)
        out.append((table, r, rf))
    if attacks:
        out.append({dfc: res[('attack', dfc)] for dfc in attacks})
    for name, ops, maxdev in model_only:
        r = res[('model', name)]
        if isinstance(r, Exception):
            raise r
        if not r.ok:
            raise tlc.MachineryError('Dispatch.tla (repaired variant, %s): %r\n%s' % (name, r, r.out[-1500:]))
        ctx.add_tlc('Dispatch MaxDev=%d, %s' % (maxdev, ','.join(ops)), r)
    return out


def empty_tile_sequences(ctx, world):
    """The same answer several times: empty tiles (a tile layer whose source covers one square degree) through every tile
    service, three times each - every other call with wsgi.file_wrapper and the iterable closed afterwards, as servers do -
    and two answers handed out before the first body is read.  Every one of them is a complete response of its own:
    200, image/png of 256 x 256 that decodes, Content-length = the bytes sent, the application does not raise."""
    paths = ['/tms/1.0.0/tcov/EPSG900913/2/0/0.png', '/tiles/tcov/EPSG900913/2/0/0.png', '/kml/tcov/EPSG900913/2/0/0.png',
             '/wmts/tcov/GLOBAL_MERCATOR/2/0/0.png', '/tms/1.0.0/tcov/EPSG900913/2/3/3.png']
    raws = []
    for path in paths:
        for _ in range(3):
            raws.append(('one after the other', world.call(path, [], {})))
    for a, b in ((paths[0], paths[0]), (paths[1], paths[3])):
        raws += [('two answers before the first body is read', r) for r in world.call_overlapped([a, b])]
    n_empty = 0
    for how, raw in raws:
        o = W.observe(world, raw, {}, {})
        bad = list(o['problems'])
        if o['raised'] == 'no' and not bad and (o['status'], o['kind'], o['w'], o['h']) != (200, 'image', 256, 256):
            bad.append('answer is %s %s %sx%s' % (o['status'], o['kind'], o['w'], o['h']))
        ctx.count(('empty-tile', how, raw['path'], len(raws)))
        n_empty += 1
        if bad:
            ctx.violation({'invariant': 'complete-response', 'what': 'repeated-empty-tile', 'how': how},
                          'empty tile %s, %s: %s' % (raw['path'], how, '; '.join(bad)[:300]),
                          {'op': 'empty-tile', 'p': {'path': raw['path'], 'how': how}})
            break
    return n_empty


def run(ctx):
    thorough = ctx.tier == 'thorough'
    tlc.sany(SPEC)
    t0 = time.time()
    catalogue = catalogue_from_tlc(ctx)
    # every class of the catalogue must be concretisable
    for op, dom in catalogue.items():
        for k, classes in dom.items():
            for c in classes:
                p = {kk: vv[0] for kk, vv in dom.items()}
                p[k] = c
                try:
                    W.concretise(op, p, W.Strings(random.Random(0), 'hostile'))
                except W.Unknown as ex:
                    raise tlc.MachineryError('catalogue class without concretisation: %s' % ex)

    # (M) the model: the repaired variant satisfies the property for all vectors with <= MaxDev deviations
    deep_ops = None if thorough else ['wms_mapx', 'wms_fi', 'wms_legend', 'wmts_tile', 'rest_tile', 'tms_tile', 'kml_doc', 'wms_caps']
    k3 = [('k3-' + o, [o], 3) for o in ('wms_mapx', 'wmts_tile', 'wms_legend', 'tms_tile', 'rest_tile', 'rest_fi', 'kml_doc', 'wms_caps', 'demo_caps')] if thorough else []
    (table, r1, r1f), (table2, r2, r2f), attack_runs = tables(ctx, [('k1', None, 1), ('k2', deep_ops, 2)],
                                                              attacks=AS_FOUND + HYPOTHETICAL, model_only=k3)
    ctx.add_tlc('Dispatch MaxDev=1, all operations', r1)
    ctx.add_tlc('Dispatch as found MaxDev=1, all operations (terminal states only)', r1f)
    ctx.add_tlc('Dispatch MaxDev=2, %s' % ('all operations' if thorough else ','.join(deep_ops)), r2)
    ctx.add_tlc('Dispatch as found MaxDev=2 (terminal states only)', r2f)
    ctx.log('model: repaired variant satisfies the property on %d + %d vectors  [%.0fs]' % (len(table), len(table2), time.time() - t0))

    chk = Checker(ctx)
    try:
        # counterexamples of the one-defect variants of the model, on the real application
        for dfc in AS_FOUND + HYPOTHETICAL:
            attack(ctx, chk, dfc, attack_runs[dfc])

        # (R) spec -> code: every printed vector on the real application
        nh = 5 if thorough else 2
        t1 = time.time()
        for key, (op, p, allowed) in sorted(table.items()):
            chk.run_vector(op, p, allowed, nh, 100)
            ctx.cov['replayed_behaviours'] += 1
            ctx.cov['replayed_steps'] += nh + 1
        ctx.log('replayed %d vectors (MaxDev=1), %d requests so far  [%.0fs]' % (len(table), chk.nreq, time.time() - t1))
        keys2 = sorted(k for k in table2 if k not in table)
        if not thorough:
            ctx.rng.shuffle(keys2)
            keys2 = keys2[:6000]
        t1 = time.time()
        for key in keys2:
            op, p, allowed = table2[key]
            chk.run_vector(op, p, allowed, 2 if thorough else 1, 200)
            ctx.cov['replayed_behaviours'] += 1
            ctx.cov['replayed_steps'] += 3 if thorough else 2
        ctx.log('replayed %d vectors (MaxDev=2), %d requests so far  [%.0fs]' % (len(keys2), chk.nreq, time.time() - t1))
        if not all(chk.bare.values()):
            raise tlc.MachineryError('bare FORMAT names did not reach the image exception handler / the 1.0.0 map: %r' % chk.bare)
        some = sorted(table.items())[len(table) // 3]
        ctx.sample({'kind': 'vector enumerated by TLC with the response classes of the spec', 'op': some[1][0],
                    'params': {k: v for k, v in some[1][1].items() if v != 'absent'}, 'allowed': [tla_py(r) for r in some[1][2]][:2]})

        # request text inside a script of the demo pages is inside a string literal: the value that ends in a backslash
        # (it would swallow the closing quote) is sent for certain - the seed that picks it is looked up
        for op in ('demo_wms', 'demo_tms', 'demo_wmts'):
            p = {k: v[0] for k, v in catalogue[op].items()}
            p['format'] = 'hostile'
            for seed in range(1, 4000):
                st = W.Strings(random.Random('%s|%s|%s' % (op, sorted(p.items()), seed)), 'hostile')
                W.concretise(op, p, st)
                if st.full.get('format', '').endswith('\\'):
                    break
            else:
                raise tlc.MachineryError('no seed sends a FORMAT value that ends in a backslash to %s' % op)
            allowed = (table.get(pkey(op, p)) or table2.get(pkey(op, p)) or (op, p, None))[2]
            chk.run_vector(op, p, allowed, 1, seed - 1)
            ctx.cov['replayed_behaviours'] += 1

        # (T) code -> spec: random vectors far from the baseline, recorded and validated by TLC
        events = []
        nrand = 12000 if thorough else 1500
        ops = sorted(catalogue)
        for i in range(nrand):
            op = ctx.rng.choice(ops)
            p = random_vector(ctx.rng, catalogue, op)
            chk.run_vector(op, p, None, 1, 300 + i, record=events)
        # the exception-in-image handlers: every combination of the parameters they read (format, transparent, bgcolor, size),
        # for several kinds of failing request
        dom = catalogue['wms_mapx']
        base = {k: v[0] for k, v in dom.items()}
        nim = 0
        for exc in ('inimage', 'blank'):
            for fmt in [c for c in dom['format'] if c in ('png', 'jpeg', 'gif', 'dup', 'absent')]:
                for tr in [c for c in dom.get('transparent', ['absent']) if c in ('absent', 'true', 'false')]:
                    for bg in [c for c in dom.get('bgcolor', ['absent']) if c in ('absent', 'valid')]:
                        for fail in ({'layers': 'empty'}, {'bbox': 'inverted'}, {'srs': 'unconfigured'}):
                            if any(v not in dom.get(k, ()) for k, v in fail.items()):
                                continue
                            p = dict(base, exceptions=exc, format=fmt, **fail)
                            if 'transparent' in dom:
                                p['transparent'] = tr
                            if 'bgcolor' in dom:
                                p['bgcolor'] = bg
                            chk.run_vector('wms_mapx', p, None, 1, 70000 + nim, record=events)
                            nim += 1
        if nim < 20:
            raise tlc.MachineryError('only %d in-image exception vectors' % nim)
        results, rejected, obsbad = validate_traces(ctx, events)
        ctx.cov['traces_validated_against_impl'] += len(events)
        for rt in results:
            ctx.cov['states'] += rt.distinct
            ctx.cov['transitions'] += rt.generated
        ctx.sample({'kind': 'recorded request validated by Trace_Dispatch', 'event': events[1]})
        for i in obsbad:
            e = events[i]
            if not e['obs']['bad'] and e['obs']['raised'] == 'no':
                ctx.violation({'invariant': 'ObsOK', 'what': 'observation-violates-property', 'operation': e['op']},
                              'TLC: the recorded observation violates the property: %s %s -> %s' % (e['op'], e['p'], e['obs']),
                              {'op': e['op'], 'p': e['p'], 'observed': e['obs'], 'events': [e]})
        for i in rejected[:60]:
            e = events[i]
            c = e['obs']
            sig = signature(e['op'], e['p'], c) if c['bad'] else {
                'invariant': 'conformance', 'what': 'recorded-response-is-no-behaviour-of-the-spec', 'operation': e['op'],
                'observed': '%s %s %s %s %s' % (c['st'], c['ct'], c['kind'], c['skel'], c['code'])}
            ctx.violation(sig, 'recorded response is not a terminal state of Dispatch.tla for its request: %s %s -> %s %s %s %s %s size=%s echo=%s bad=%s' % (
                e['op'], {k: v for k, v in e['p'].items() if v != 'absent'}, c['st'], c['ct'], c['kind'], c['skel'], c['code'],
                c['size'], c['echo'], c['bad']), {'op': e['op'], 'p': e['p'], 'observed': c, 'events': [e]})
        ctx.log('validated %d recorded requests with TLC (%d rejected, %d violate the property); %d requests in total' % (
            len(events), len(rejected), len(obsbad), chk.nreq))
        n = empty_tile_sequences(ctx, chk.world)
        ctx.log('%d answers with empty tiles (repeated, with and without wsgi.file_wrapper, overlapped)' % n)
    finally:
        chk.close()
    ctx.assumptions += [
        'requests reach the application through a PEP 3333 server: PATH_INFO and header values are latin-1 strings, header '
        'values contain no CR/LF/NUL; the query string is percent-encoded',
        'the synthetic upstream answers every GetMap/GetLegendGraphic with an image of the requested size and format and '
        'GetFeatureInfo with a small document of the requested type; failing upstreams are not part of this check',
        'image sizes between the configured max_output_pixels and absurd values are not requested (cost is C16)',
        'request text in JavaScript string context of the demo pages is only checked for HTML structure, not for script syntax',
        'the spec is permissive (several response classes) where the outcome depends on data below the class level; the '
        'checks on the observed response itself are strict',
        'tile caches are filled before the runs (cold/warm tile state is C20); the legend cache state is a request class',
        'every other request comes from a server that offers wsgi.file_wrapper and closes the iterable after sending; '
        'answers that are handed out before an earlier body was read are exercised for empty tiles only',
    ]
    return ctx.finish('exploration',
                      'TLC: all request class vectors with at most MaxDev parameters off the baseline for the stated operations '
                      '(exhaustive for that bound); distinct = distinct (vector, observed response class) pairs on the real '
                      'application')


def replay(ctx, data):
    case = data.get('case') or {}
    chk = Checker(ctx)
    try:
        op, p = case['op'], case['p']
        if 'events' in case:
            results, rejected, obsbad = validate_traces(ctx, case['events'])
            print('trace validation of the stored event:', 'rejected' if rejected else 'accepted',
                  '- observation violates the property' if obsbad else '')
        catalogue = catalogue_from_tlc(ctx)
        ndev = sum(1 for k, v in p.items() if catalogue[op][k][0] != v)
        allowed = None
        if ndev <= 3:
            (table, _, _), = tables(ctx, [('replay', [op], ndev)], guard=False)
            allowed = table.get(pkey(op, p), (op, p, None))[2]
        ref = execute(chk.world, op, p, 'benign', 0)
        rc = 0
        seeds = [case.get('seed', 1)] + list(range(9000, 9006))
        for n, seed in enumerate(seeds):
            o = ref if case.get('mode') == 'benign' else execute(chk.world, op, p, 'hostile', seed)
            c = obs_class(o, None if o is ref else ref)
            ok = allowed is None or any(matches(c, a) for a in allowed)
            if n == 0 or not ok or c['bad']:
                print('request :', json.dumps(o['request'])[:500])
                print('observed:', c, (o['problems'] + o['markup'] + o['leak'])[:3])
                print('allowed by Dispatch.tla:', 'yes' if ok else 'no', '' if allowed is not None else '(not computed: more than 3 deviations)')
            if not ok or c['bad']:
                rc = 1
                break
        return rc
    finally:
        chk.close()
        shutil.rmtree(ctx.workdir, ignore_errors=True)
