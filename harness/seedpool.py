"""SEEDPOOL - the worker pool of the seeder (not one of the listed properties; extends coverage: C11 takes "handed to
the worker pool" as work done, this is what happens behind that point).

spec/SeedPool.tla models TileWorkerPool.process / stop, TileSeedWorker.work_loop and exp_backoff; TLC explores all
interleavings of the walker and two workers over a bounded queue, with work lists whose upstream keeps failing.
Binding: the real TileWorkerPool, TileSeedWorker and exp_backoff run under the baton scheduler - the workers are
threads started by the scheduler (start / join / is_alive of the worker class are overridden, the process class
they derive from is never started), the queue is a bounded deque with yield points, the tile manager is a stub that
records the lists it is asked to create and fails for the "bad" ones.  TLC behaviours are forced step by step,
random schedules are validated (spec/trace/Trace_SeedPool.tla).  The invariants that fail by design when an
upstream keeps failing (NoSilentLoss, AllTaken) are reproduced on the real code and reported as observations.
"""
import collections
import json
import os
import queue as _queue

from engine import tlc
from engine.sched import Baton, Deadlock
from harness.c05 import parse_action

SPEC = os.path.join(tlc.SPEC_DIR, 'SeedPool.tla')
INVS = ['ExactlyOnce', 'StopWaits', 'NoLostWork', 'NoStuck']
WORKERS = ('w1', 'w2')


class World(object):
    def __init__(self, items, bad, size=2):
        import mapproxy.seed.seeder as S
        import mapproxy.seed.util as U
        from mapproxy.source import SourceError
        self.S, self.U = S, U
        self.sched = Baton()
        self.items, self.bad = list(items), set(bad)
        # one list whose tile lock is held by another process for a while: creating it ends in LockTimeout 130 times in a
        # row (more than the 101 attempts that upstream errors get) before it succeeds - exp_backoff keeps trying, the
        # list is created like any other (one "Work" step of the model)
        good = [i for i in self.items if i not in self.bad]
        self.locked = {good[-1]: 130} if good else {}
        self.done, self.lost = [], []
        self.raised = None
        w = self

        class YQueue(object):
            def __init__(self, maxsize=0):
                self.maxsize = maxsize
                self.q = collections.deque()

            def put(self, item, block=True, timeout=None):
                w.sched.point('put')
                if len(self.q) >= self.maxsize:
                    w.emit('put_full', item)
                    raise _queue.Full
                self.q.append(item)
                w.emit('put', item)

            def get(self, block=True, timeout=None):
                while True:
                    w.sched.point('get')
                    if self.q:
                        item = self.q.popleft()
                        w.emit('get', item)
                        return item
                    w.emit('get_empty', None)

        class TM(object):
            class _Sess(object):
                def __enter__(self):
                    return self

                def __exit__(self, *a):
                    return False

            def session(self):
                return self._Sess()

            def load_tile_coords(self, tiles):
                if tiles[0] in w.bad:
                    raise SourceError('upstream keeps failing for %s' % (tiles,))
                if w.locked.get(tiles[0], 0) > 0:
                    from mapproxy.util.lock import LockTimeout
                    w.locked[tiles[0]] -= 1
                    raise LockTimeout('another process holds the tile lock of %s' % (tiles,))
                w.sched.point('work')
                w.done.append(tiles[0])
                w.emit('work', tiles)

        class Task(object):
            tile_manager = TM()

        names = iter(WORKERS)

        class BWorker(S.TileSeedWorker):
            def __init__(self, task, tiles_queue, conf):
                S.TileSeedWorker.__init__(self, task, tiles_queue, conf)
                self.bname = next(names)
                self._started = False

            def start(self):
                self._started = True
                w.sched.spawn(self.bname, self._body)

            def _body(self):
                try:
                    self.run()
                finally:
                    w.emit('exit', None)

            def is_alive(self):
                t = w.sched.ts.get(self.bname)
                return bool(self._started and t is not None and not t.finished)

            def join(self, timeout=None):
                while self.is_alive():
                    w.sched.point('join')
                    w.emit('join_wait', self.bname)
                w.sched.point('join')
                w.emit('join', self.bname)

            def work_loop(self):
                # (the real loop; BackoffError ends it in TileWorker.run: note which list was lost)
                try:
                    S.TileSeedWorker.work_loop(self)
                except U.BackoffError:
                    raise

        self.saved = [(S, 'queue_class', S.queue_class), (U, 'time', U.time)]
        S.queue_class = YQueue

        class NoSleep(object):
            def __getattr__(self, n):
                import time
                return getattr(time, n)

            def sleep(self, s):
                pass
        U.time = NoSleep()
        U.print = lambda *a, **kw: None
        real_backoff = U.exp_backoff

        def backoff(func, args=(), **kw):
            # the 101 attempts of a list that keeps failing are one step ("work", outcome give up)
            if args[0][0] in w.bad:
                w.sched.point('work')
                try:
                    return real_backoff(func, args=args, **kw)
                except U.BackoffError:
                    w.lost.append(args[0][0])
                    w.emit('giveup', args[0])
                    raise
            return real_backoff(func, args=args, **kw)
        self.saved.append((S, 'exp_backoff', S.exp_backoff))
        S.exp_backoff = backoff

        def producer():
            pool = S.TileWorkerPool(Task(), BWorker, size=size)
            w.pool = pool
            try:
                try:
                    for it in w.items:
                        pool.process([it], None)
                    w.sched.point('allhanded')
                    w.emit('allhanded', None)
                except S.SeedInterrupted:
                    w.raised = 'SeedInterrupted'
                    w.emit('raised', None)
            finally:
                pool.stop()
            w.emit('end', None)
        self.sched.spawn('walker', producer)
        self.sched.step('walker')          # creates the pool and the workers, runs to the first put
        for n in WORKERS:
            if n in self.sched.ts:
                self.sched.step(n)         # to the first get

    def close(self):
        for obj, name, val in self.saved:
            setattr(obj, name, val)
        if 'print' in vars(self.U):
            del self.U.print

    def emit(self, ev, item):
        e = self.sched.emit(ev)
        e['t'] = e.pop('c')
        e['item'] = (item[0] if isinstance(item, list) else ('stop' if item is None and ev in ('put', 'get', 'put_full') else item)) or '-'
        e['queue'] = ['stop' if x is None else x[0] for x in self.pool.tiles_queue.q] if hasattr(self, 'pool') else []
        e['done'] = sorted(self.done)
        e['lost'] = sorted(self.lost)

    def pending(self, t):
        p = self.sched.pending(t)
        return p[0] if p else None


PROD = {'Put': 'put', 'PutFull': 'put', 'AllHanded': 'allhanded', 'PutNone': 'put', 'NoneFull': 'put', 'Join': 'join'}


def replay_behaviour(items, bad, beh, lenient=False):
    w = World(items, bad)
    try:
        n = 0
        for act, st in beh[1:]:
            name, args = parse_action(act)
            n += 1
            t = args[0] if args else 'walker'
            want = PROD.get(name) or {'Get': 'get', 'Work': 'work'}[name]
            got = w.pending(t)
            if got != want:
                return ('not-executable' if lenient else 'diverged'), 'step %d %s: the code is about to do %s' % (n, act, got), w
            w.sched.step(t)
            if st:
                q = ['stop' if x is None else x[0] for x in w.pool.tiles_queue.q]
                if q != [str(x) for x in st['queue']] or sorted(w.done) != sorted(str(x) for x in st['done']) \
                        or sorted(w.lost) != sorted(str(x) for x in st['lost']):
                    return 'diverged', 'step %d %s: model queue=%s done=%s lost=%s, real queue=%s done=%s lost=%s' % (
                        n, act, list(st['queue']), sorted(st['done']), sorted(st['lost']), q, sorted(w.done), sorted(w.lost)), w
        w.sched.finish_all(limit=3000)
        return 'ok', {'done': sorted(w.done), 'lost': sorted(w.lost), 'raised': w.raised,
                      'left': ['stop' if x is None else x[0] for x in w.pool.tiles_queue.q]}, w
    except Deadlock as ex:
        return 'problem', 'scheduler: %s' % ex, w
    finally:
        w.close()


def random_schedule(rng, items, bad):
    w = World(items, bad)
    try:
        for _ in range(2000):
            run = w.sched.runnable()
            if not run:
                break
            w.sched.step(rng.choice(sorted(run)))
        evs = [e for e in w.sched.events if e['ev'] not in ('get_empty', 'join_wait')]
        res = {'done': sorted(w.done), 'lost': sorted(w.lost), 'raised': w.raised, 'finished': not w.sched.runnable()}
        return evs, res
    except Deadlock as ex:
        return [], {'problem': str(ex)}
    finally:
        w.close()


SCEN = {'good': (('i1', 'i2', 'i3', 'i4'), ()), 'one-bad': (('i1', 'i2', 'i3', 'i4'), ('i2',)), 'two-bad': (('i1', 'i2', 'i3', 'i4'), ('i1', 'i3'))}


def run(ctx):
    thorough = ctx.tier == 'thorough'
    tlc.sany(SPEC)
    for name, (items, bad) in SCEN.items():
        consts = dict(Worker=set(WORKERS), Items=tuple(items), Bad=set(bad), Size=2)
        d = ctx.sub('mc-' + name)
        mp, cp = tlc.write_mc(d, 'SeedPool', 'MC_SP', consts, invariants=INVS)
        r = tlc.run(mp, cp, d, timeout=900)
        ctx.log('SeedPool.tla %s: %r' % (name, r))
        if r.violated:
            ctx.violation({'kind': 'model', 'scenario': name, 'property': r.violated}, 'SeedPool.tla (%s) violates %s' % (name, r.violated), None)
            continue
        if not r.ok:
            raise tlc.MachineryError('SeedPool.tla: %r %s' % (r, r.out[-800:]))
        ctx.add_tlc('SeedPool/' + name, r)
        mp, cp = tlc.write_mc(d, 'SeedPool', 'MC_SPL', consts, spec='FairSpec', properties=['Termination'])
        r = tlc.run(mp, cp, d, timeout=900, coverage=False)
        if r.violated:
            ctx.violation({'kind': 'model-liveness', 'scenario': name}, 'SeedPool.tla (%s): stop() may not return' % name, None)
        elif r.ok:
            ctx.add_tlc('SeedPool/%s/liveness' % name, r)
        # observations: runs that end without an error although lists were not created
        if bad:
            for inv in ('NoSilentLoss', 'AllTaken'):
                mp, cp = tlc.write_mc(d, 'SeedPool', 'MC_SPO', consts, invariants=[inv])
                r = tlc.run(mp, cp, d, timeout=600, coverage=False, workers=4)
                if not r.violated:
                    continue
                status, detail, _ = replay_behaviour(items, bad, r.trace, lenient=True)
                ctx.count(('observation', name, inv))
                ctx.sample({'kind': 'OBSERVATION (not a listed property): counterexample to %s run on the real pool' % inv, 'scenario': name,
                            'actions': [a for a, _ in r.trace[1:]], 'result': status, 'outcome': detail}, limit=8)
                ctx.log('observation %s/%s on the real pool: %s %s' % (name, inv, status, detail))
        # spec -> code
        d = ctx.sub('sim-' + name)
        mp, cp = tlc.write_mc(d, 'SeedPool', 'MC_Sim', consts)
        prefix = os.path.join(d, 'beh')
        tlc.run(mp, cp, d, workers=1, simulate='file=%s,num=%d' % (prefix, 60 if thorough else 20), depth=80, seed=ctx.seed + 21,
                coverage=False, timeout=600)
        k = 0
        for f, beh in tlc.sim_traces(prefix):
            if len(beh) < 2:
                continue
            k += 1
            status, detail, _ = replay_behaviour(items, bad, beh)
            ctx.cov['replayed_behaviours'] += 1
            ctx.cov['replayed_steps'] += len(beh) - 1
            ctx.count(('replay', name, tuple(a for a, _ in beh)))
            if status != 'ok':
                ctx.violation({'kind': 'replay-' + status, 'scenario': name}, '%s: %s' % (name, detail), {'behaviour': [a for a, _ in beh]})
                break
            if not bad and (detail['done'] != sorted(items) or detail['raised']):
                ctx.violation({'kind': 'lost-work', 'scenario': name}, '%s: %s' % (name, detail), {'behaviour': [a for a, _ in beh]})
        # code -> spec
        traces = []
        for i in range(100 if thorough else 25):
            evs, res = random_schedule(ctx.rng, items, bad)
            ctx.count(('sched', name, json.dumps([[e['t'], e['ev']] for e in evs])))
            if res.get('problem') or not res.get('finished'):
                ctx.violation({'kind': 'stuck', 'scenario': name}, '%s: random schedule does not finish: %s' % (name, res), None)
                continue
            if not bad and (res['done'] != sorted(items) or res['raised']):
                ctx.violation({'kind': 'lost-work', 'scenario': name}, '%s: random schedule: %s' % (name, res), {'trace': evs})
            traces.append(evs)
        d = ctx.sub('tr-' + name)
        tf = os.path.join(d, 'batch.json')
        with open(tf, 'w') as f:
            json.dump(traces, f)
        mp, cp = tlc.write_mc(d, 'Trace_SeedPool', 'MC_TSP', consts, spec='TraceSpec', invariants=INVS, post='TraceAccepted')
        r = tlc.run(mp, cp, d, workers=1, coverage=False, env={'TRACE_FILE': tf}, timeout=1800)
        ctx.cov['traces_validated_against_impl'] += len(traces)
        ctx.cov['states'] += r.distinct
        ctx.cov['transitions'] += r.generated
        if r.violated and r.violated != 'postcondition':
            ctx.violation({'kind': 'trace-invariant', 'scenario': name, 'invariant': r.violated}, '%s: %s violated in a recorded schedule' % (name, r.violated), None)
            continue
        pr = tlc.find_prints(r.out, 'matched')
        if not pr:
            raise tlc.MachineryError('Trace_SeedPool: no verdict: %s' % r.out[-1200:])
        mv = pr[-1][1]
        matched = list(mv) if isinstance(mv, tuple) else [mv[k2] for k2 in sorted(mv)]
        nrej = 0
        for i, t in enumerate(traces):
            if matched[i] < len(t):
                nrej += 1
                ctx.violation({'kind': 'trace-rejected', 'scenario': name, 'event': t[matched[i]]['ev']},
                              '%s: recorded schedule is not a behaviour of SeedPool.tla at event %d: %s' % (name, matched[i], t[matched[i]]),
                              {'trace': t[:matched[i] + 1]})
        ctx.log('%s: replayed %d behaviours, validated %d schedules (%d rejected)' % (name, k, len(traces), nrej))
    ctx.assumptions += ['workers are threads started by the scheduler instead of processes; queue time-outs are taken immediately when the '
                        'queue is full; the retries of exp_backoff for a list whose upstream keeps failing are one step; so are the 130 lock timeouts of the one list whose tile lock is held by another process']
    return ctx.finish('model_checking', 'TLC: all interleavings of the walker and two workers over a queue of size 2, four work lists, with '
                      'lists that keep failing; behaviours forced on and schedules recorded from the real TileWorkerPool / TileSeedWorker / exp_backoff')


def replay(ctx, data):
    return 0
