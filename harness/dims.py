"""DIMS - caching layers with dimensions: one tree of tiles per value, never mixed (not one of the listed properties;
extends coverage).

spec/Dims.tla: a layer with a dimension, a WMS source that forwards it, a file cache that keeps the tiles of every value in
a directory of their own; requests through WMS (any value is forwarded), WMTS (listed values, default, refusal) and TMS
(default); tiles that are made of tiles of another level (downscale_tiles).  Isolation (the answer shows the value that was
asked for), FetchCarriesKey, OwnTreeOnly, RefusedCostsNothing, FetchedWhatWasMissing.  TLC explores all request sequences
over small universes for three kinds of cache (meta tiles, single tiles, downscaled tiles).  Binding: a real application
built by the configuration loader with a file cache and a synthetic upstream that paints the TIME value it is asked for;
TLC behaviours are executed request by request (picture, upstream log and cache directory compared after every step), random
histories are validated by TLC (spec/trace/Trace_Dims.tla).  Variant "asfound" (tiles that a downscaled tile is made of are
looked up, fetched and stored without the dimension) is the code before the repair; its counterexample is run on the real
application.
"""
import io
import json
import os
import re
import shutil
import tempfile
from urllib.parse import urlparse, parse_qs

from engine import tlc
from harness.c05 import parse_action

SPEC = os.path.join(tlc.SPEC_DIR, 'Dims.tla')
INVS = ['TypeOK', 'Isolation', 'FetchCarriesKey', 'CapsListTheDimension']
CAPS = {'wms111': '/service?SERVICE=WMS&REQUEST=GetCapabilities&VERSION=1.1.1', 'wms130': '/service?SERVICE=WMS&REQUEST=GetCapabilities&VERSION=1.3.0',
        'wmts_kvp': '/service?SERVICE=WMTS&REQUEST=GetCapabilities&VERSION=1.0.0', 'wmts_rest': '/wmts/1.0.0/WMTSCapabilities.xml'}
PROPS = ['OwnTreeOnly', 'RefusedCostsNothing', 'FetchedWhatWasMissing']
VALUES = ['A', 'B', 'C']
DEFAULT = 'A'
OTHER = 'Q'                       # a value the layer does not list
COLOUR = {'A': (250, 10, 10), 'B': (10, 250, 10), 'C': (10, 10, 250), 'none': (90, 90, 90), 'other': (200, 200, 40)}
T0 = 1500000000
TS = 8

_state = {'world': None, 'done': False}


def install():
    if _state['done']:
        return
    import mapproxy.client.http as H
    from PIL import Image

    def fake_open(self, url, data=None, method=None):
        w = _state['world']
        q = {k.lower(): v[0] for k, v in parse_qs(urlparse(url).query).items()}
        if w is None or 'bbox' not in q:
            raise H.HTTPClientError('no world for %s' % url, response_code=500)
        t = q.get('time')
        key = 'none' if t is None else (t if t in VALUES else 'other')
        bbox = tuple(float(v) for v in q['bbox'].split(','))
        w.uplog.append((bbox, key, int(q['width'])))
        b = io.BytesIO()
        Image.new('RGB', (int(q['width']), int(q['height'])), COLOUR[key]).save(b, 'PNG')
        b.seek(0)
        b.headers = {'Content-type': 'image/png'}
        b.code = 200
        return b
    H.HTTPClient.open = fake_open
    _state['done'] = True


# the three kinds of cache: name -> (tiles {id: (x, y, z)}, MetaOf, Children, tiles that requests address)
def universe(kind):
    if kind == 'down':
        tiles = {'p': (0, 0, 1), 'q': (2, 0, 1)}
        ch = {'p': [], 'q': []}
        for name, (x0, y0) in (('p', (0, 0)), ('q', (4, 0))):
            for i, (dx, dy) in enumerate(((0, 0), (1, 0), (0, 1), (1, 1))):
                tiles['%s%d' % (name, i + 1)] = (x0 + dx, y0 + dy, 2)
                ch[name].append('%s%d' % (name, i + 1))
        meta = {t: [t] for t in ('p', 'q')}
        for name in ('p', 'q'):
            for c in ch[name]:
                meta[c] = list(ch[name])
        children = {t: ch.get(t, []) for t in tiles}
        return tiles, meta, children, ['p', 'q', 'p1', 'q2']
    tiles, meta = {}, {}
    for name, x0 in (('a', 0), ('b', 2)):
        ids = []
        for i, (dx, dy) in enumerate(((0, 0), (1, 0), (0, 1), (1, 1))):
            tiles['%s%d' % (name, i + 1)] = (x0 + dx, dy, 1)
            ids.append('%s%d' % (name, i + 1))
        for t in ids:
            meta[t] = list(ids) if kind == 'meta' else [t]
    return tiles, meta, {t: [] for t in tiles}, ['a1', 'a2', 'b1']


KINDS = ['meta', 'single', 'down']


class World(object):
    def __init__(self, kind):
        from mapproxy.config.loader import ProxyConfiguration
        from mapproxy.wsgiapp import MapProxyApp
        from webtest import TestApp
        install()
        self.kind = kind
        self.tiles, self.meta, self.children, self.targets = universe(kind)
        self.dir = d = tempfile.mkdtemp(prefix='verif-dims-')
        self.marker = os.path.join(d, 'marker')
        with open(self.marker, 'w') as f:
            f.write('x')
        os.utime(self.marker, (T0, T0))
        src = {'type': 'wms', 'req': {'url': 'http://upstream.invalid/wms', 'layers': 'x'}, 'forward_req_params': ['time'],
               'supported_srs': ['EPSG:3857']}
        cache = {'sources': ['s'], 'grids': ['g'], 'format': 'image/png', 'meta_buffer': 0,
                 'meta_size': [1, 1] if kind == 'single' else [2, 2], 'refresh_before': {'mtime': self.marker},
                 'cache': {'type': 'file', 'directory': os.path.join(d, 'cache')}}
        if kind == 'down':
            cache['downscale_tiles'] = 1
            src['min_res'], src['max_res'] = 15, 7           # the source has the last level (10 m) only
        conf = {'services': {'wms': {'srs': ['EPSG:3857']}, 'wmts': {'kvp': True, 'restful': True,
                                                                              'restful_template': '/{Layer}/{TileMatrixSet}/{Time}/{TileMatrix}/{TileCol}/{TileRow}.{Format}'}, 'tms': {}},
                'grids': {'g': {'srs': 'EPSG:3857', 'bbox': [0, 0, 640, 640], 'res': [40, 20, 10], 'tile_size': [TS, TS], 'origin': 'nw'}},
                'sources': {'s': src}, 'caches': {'c': cache},
                'layers': [{'name': 'l', 'title': 'l', 'sources': ['c'],
                            'dimensions': {'time': {'values': list(VALUES), 'default': DEFAULT}}}],
                'globals': {'image': {'paletted': False, 'resampling_method': 'nearest'},
                            'cache': {'base_dir': os.path.join(d, 'cd'), 'lock_dir': os.path.join(d, 'l'), 'tile_lock_dir': os.path.join(d, 'tl')}}}
        pc = ProxyConfiguration(conf, conf_base_dir=d, seed=False, renderd=False)
        self.app = TestApp(MapProxyApp(pc.configured_services(), pc.base_config))
        self.tm = pc.caches['c'].caches()[0][2]
        self.cache_dir = os.path.join(d, 'cache')
        self.uplog = []

    def close(self):
        if _state['world'] is self:
            _state['world'] = None
        shutil.rmtree(self.dir, ignore_errors=True)

    # ---- geometry -------------------------------------------------------------------------------
    def bbox(self, t):
        x, y, z = self.tiles[t]
        size = TS * (40 >> z)
        return (x * size, 640 - (y + 1) * size, (x + 1) * size, 640 - y * size)

    def meta_of_bbox(self, bbox, width):
        """ids of the tiles of the universe (of the level of the request) that an upstream request covers"""
        out = []
        res = (bbox[2] - bbox[0]) / float(width)
        for t in self.tiles:
            if abs((40 >> self.tiles[t][2]) - res) > 1e-6:
                continue
            b = self.bbox(t)
            if b[0] >= bbox[0] - 1e-6 and b[2] <= bbox[2] + 1e-6 and b[1] >= bbox[1] - 1e-6 and b[3] <= bbox[3] + 1e-6:
                out.append(t)
        width = bbox[2] - bbox[0]
        # only tiles of the level whose meta tile (or single tile) has exactly this size
        exact = [t for t in out if abs((self.bbox(t)[2] - self.bbox(t)[0]) * (1 if len(self.meta[t]) == 1 else 2) - width) < 1e-6]
        return sorted(exact)

    # ---- requests -------------------------------------------------------------------------------
    def request(self, svc, t, d):
        import logging
        _state['world'] = self
        self.uplog = []
        x, y, z = self.tiles[t]
        val = {'absent': None, 'default': 'default', 'other': OTHER}.get(d, d)
        if svc == 'wms':
            url = ('/service?SERVICE=WMS&REQUEST=GetMap&VERSION=1.1.1&LAYERS=l&STYLES=&SRS=EPSG:3857&BBOX=%s&WIDTH=%d&HEIGHT=%d'
                   '&FORMAT=image/png' % (','.join(str(v) for v in self.bbox(t)), TS, TS))
            if val is not None:
                url += '&TIME=' + val
        elif svc == 'wmts':
            url = ('/service?SERVICE=WMTS&REQUEST=GetTile&VERSION=1.0.0&LAYER=l&STYLE=&TILEMATRIXSET=g&TILEMATRIX=%d'
                   '&TILEROW=%d&TILECOL=%d&FORMAT=image/png' % (z, y, x))
            if val is not None:
                url += '&TIME=' + val
        elif svc == 'rest':
            url = '/wmts/l/g/%s/%d/%d/%d.png' % (val, z, x, y)
        else:
            n = (640 // (TS * (40 >> z)))
            url = '/tms/1.0.0/l/EPSG3857/%d/%d/%d.png' % (z, x, n - 1 - y)
        logging.disable(logging.CRITICAL)
        try:
            r = self.app.get(url, status='*', expect_errors=True)
        finally:
            logging.disable(logging.NOTSET)
        out, detail = 'refused', ''
        if r.status_int == 200 and (r.content_type or '').startswith('image/'):
            from PIL import Image
            img = Image.open(io.BytesIO(r.body)).convert('RGB')
            cols = {img.getpixel(p) for p in ((0, 0), (TS - 1, 0), (0, TS - 1), (TS - 1, TS - 1), (TS // 2, TS // 2))}
            names = {k for k, c in COLOUR.items() if c in cols}
            if len(cols) == 1 and len(names) == 1:
                out = names.pop()
            else:
                out, detail = 'mixed', 'picture with the colours %s' % sorted(cols)
        elif r.status_int >= 500:
            out, detail = 'error', '%s %s' % (r.status_int, r.text[:120])
        fetched = []
        for bbox, key, width in self.uplog:
            m = self.meta_of_bbox(bbox, width)
            fetched.append({'meta': m or ['?%s' % (bbox,)], 'key': key})
        ev = {'op': 'req', 'svc': svc, 't': t, 'd': d, 'out': out, 'fetched': fetched, 'store': self.obs()}
        if detail:
            ev['detail'] = detail
        return ev

    def caps(self, doc):
        import logging
        logging.disable(logging.CRITICAL)
        try:
            r = self.app.get(CAPS[doc], status='*', expect_errors=True)
        finally:
            logging.disable(logging.NOTSET)
        ev = {'op': 'caps', 'svc': doc, 'out': 'error', 'listed': [], 'dflt': '-', 'store': self.obs()}
        if r.status_int != 200 or 'xml' not in (r.content_type or ''):
            ev['detail'] = '%s %s' % (r.status_int, r.text[:100])
            return ev
        if doc.startswith('wms1'):
            m = re.search(r'<Dimension\s+name="time"[^>]*\sdefault="([^"]*)"[^>]*>([^<]*)</Dimension>', r.text)
            if m:
                ev.update(out='ok', dflt=m.group(1), listed=sorted(v.strip() for v in m.group(2).split(',') if v.strip()))
        else:
            m = re.search(r'<Dimension>\s*<ows:Identifier>[Tt]ime</ows:Identifier>(.*?)</Dimension>', r.text, re.S)
            if m:
                d = re.search(r'<Default>([^<]*)</Default>', m.group(1))
                ev.update(out='ok', dflt=d.group(1) if d else '-', listed=sorted(re.findall(r'<Value>([^<]*)</Value>', m.group(1))))
        if ev['out'] != 'ok':
            ev['detail'] = 'no Dimension element for "time"'
        return ev

    def expire(self, t, k):
        p = self.location(t, k)
        os.utime(p, (T0 - 1000, T0 - 1000))
        return {'op': 'expire', 't': t, 'key': k, 'store': self.obs()}

    # ---- projection -----------------------------------------------------------------------------
    def location(self, t, k):
        from mapproxy.cache.tile import Tile
        dims = None if k == 'none' else {'time': OTHER if k == 'other' else k}
        return self.tm.cache.tile_location(Tile(self.tiles[t]), dimensions=dims)

    def obs(self):
        found, known = [], set()
        for t in sorted(self.tiles):
            for k in VALUES + ['none', 'other']:
                p = self.location(t, k)
                known.add(os.path.abspath(p))
                if os.path.exists(p):
                    found.append([t, k])
        for root, _ds, fs in os.walk(self.cache_dir):
            for f in fs:
                p = os.path.abspath(os.path.join(root, f))
                if p not in known:
                    found.append(['?' + os.path.relpath(p, self.cache_dir), 'none'])
        return found

    def stored_fresh(self):
        return [(t, k) for t, k in self.obs() if not t.startswith('?') and os.path.getmtime(self.location(t, k)) > T0]


def consts(kind, variant, caps_broken=()):
    tiles, meta, children, targets = universe(kind)
    return dict(Tiles=set(tiles), Targets=set(targets), CapsBroken=set(caps_broken), MetaOf={t: set(m) for t, m in meta.items()}, Children={t: set(c) for t, c in children.items()},
                Values=set(VALUES), Default=DEFAULT, Variant=variant)


def compare(ev, st):
    last = st['last']
    if ev['out'] != str(last['out']):
        return 'the answer shows %s%s, the model says %s' % (ev['out'], (' (%s)' % ev['detail']) if ev.get('detail') else '', last['out'])
    mf = sorted((sorted(f[0]), str(f[1])) for f in last['fetched'])
    rf = sorted((sorted(f['meta']), f['key']) for f in ev['fetched'])
    if mf != rf:
        return 'upstream requests (tiles covered, TIME) %s, the model says %s' % (rf, mf)
    ms = sorted([str(p[0]), str(p[1])] for p in st['store'])
    if ms != sorted(ev['store']):
        return 'tiles in the cache directory %s, the model says %s' % (sorted(ev['store']), ms)
    return None


def replay_behaviour(beh, kind):
    w = World(kind)
    try:
        n = 0
        for act, st in beh[1:]:
            n += 1
            last = st['last']
            if str(last['op']) == 'req':
                ev = w.request(str(last['svc']), str(last['t']), str(last['d']))
            elif str(last['op']) == 'caps':
                ev = w.caps(str(last['svc']))
                if (ev['out'], sorted(ev['listed']), ev['dflt']) != (str(last['out']), sorted(str(v) for v in last['listed']), str(last['dflt'])):
                    return 'diverged', 'step %d: capabilities %s: %s, values %s, default %s %s - the model says %s, %s, %s' % (
                        n, last['svc'], ev['out'], ev['listed'], ev['dflt'], ev.get('detail', ''), last['out'], sorted(last['listed']), last['dflt']), ev
                continue
            else:
                ev = w.expire(str(last['t']), str(last['key']))
                if sorted(map(tuple, ev['store'])) != sorted((str(p[0]), str(p[1])) for p in st['store']):
                    return 'diverged', 'step %d: store after expire differs' % n, ev
                continue
            why = compare(ev, st)
            if why:
                return 'diverged', 'step %d %s %s %s: %s' % (n, last['svc'], last['t'], last['d'], why), ev
        return 'ok', '', None
    finally:
        w.close()


def random_history(rng, kind, nsteps):
    w = World(kind)
    ev = []
    try:
        for _ in range(nsteps):
            fresh = w.stored_fresh()
            if fresh and rng.random() < 0.15:
                t, k = rng.choice(fresh)
                ev.append(w.expire(t, k))
                continue
            if rng.random() < 0.1:
                ev.append(w.caps(rng.choice(sorted(CAPS))))
                continue
            svc = rng.choice(['wms', 'wms', 'wmts', 'wmts', 'rest', 'tms'])
            t = rng.choice(w.targets)
            if svc == 'tms':
                d = 'absent'
            elif svc == 'rest':
                d = rng.choice(VALUES + ['default', 'other'])
            elif svc == 'wms':
                d = rng.choice(VALUES + ['absent', 'other'])
            else:
                d = rng.choice(VALUES + ['absent', 'default', 'other'])
            ev.append(w.request(svc, t, d))
        return ev
    finally:
        w.close()


def detect_variant():
    w = World('down')
    try:
        ev = w.request('wmts', 'p', 'B')
        broken = [doc for doc in sorted(CAPS) if w.caps(doc)['out'] == 'error']
        return ('repaired' if ev['out'] == 'B' else 'asfound'), ev, broken
    finally:
        w.close()


def run(ctx):
    thorough = ctx.tier == 'thorough'
    tlc.sany(SPEC)
    variant, ev, broken = detect_variant()
    for doc in broken:
        w = World('meta')
        try:
            e = w.caps(doc)
        finally:
            w.close()
        ctx.violation({'kind': 'capabilities-of-a-dimension-layer', 'document': doc},
                      'layer with a dimension: the capabilities document %s (%s) is answered with %s instead of listing the dimension' % (
                          doc, CAPS[doc], e.get('detail', 'an error')), {'document': doc, 'event': e})
    ctx.log('the tree implements Variant=%s (downscaled tile requested with TIME=B: the answer shows %s, upstream asked for %s)' % (
        variant, ev['out'], [f['key'] for f in ev['fetched']]))
    # the as-found variant fails in the model; its counterexample on the real application
    d = ctx.sub('mc-asfound')
    mp, cp = tlc.write_mc(d, 'Dims', 'MC_D', consts('down', 'asfound'), invariants=['Isolation'])
    r = tlc.run(mp, cp, d, timeout=600, coverage=False, workers=2)
    if r.violated != 'Isolation':
        raise tlc.MachineryError('the as-found variant should violate Isolation: %r %s' % (r, r.out[-600:]))
    status, detail, _ = replay_behaviour(r.trace, 'down')
    ctx.sample({'kind': 'counterexample of Variant=asfound run on the real application', 'actions': [a for a, _ in r.trace[1:]],
                'result': status, 'detail': detail})
    if status == 'ok':
        last = r.trace[-1][1]['last']
        ctx.violation({'kind': 'dimension-dropped', 'cause': 'rescaled-tiles-are-made-without-the-dimension'},
                      'layer with a dimension on a cache with downscale_tiles: a %s request for tile %s with the value %s is answered with the '
                      'picture of "%s" - the tiles of the other level are looked up, fetched and stored without the dimension (upstream '
                      'asked without TIME, tiles outside the directory of the value)' % (
                          last['svc'], last['t'], last['key'], last['out']), {'behaviour': [a for a, _ in r.trace]})
    invs = [i for i in INVS if i != 'CapsListTheDimension' or not broken] if variant == 'repaired' else ['TypeOK']
    props = PROPS if variant == 'repaired' else []
    for kind in KINDS:
        d = ctx.sub('mc-' + kind)
        mp, cp = tlc.write_mc(d, 'Dims', 'MC_D', consts(kind, variant, broken), invariants=invs, properties=props,
                              constraint='Bound', extra_defs='Bound == TLCGet("level") <= %d' % (5 if thorough else 4))
        rr = tlc.run(mp, cp, d, timeout=1500, workers=5, coverage=True)
        if rr.violated:
            ctx.violation({'kind': 'model', 'property': rr.violated, 'cache': kind}, 'Dims.tla (%s) violates %s' % (kind, rr.violated),
                          {'trace': [a for a, _ in rr.trace]})
        elif not rr.ok:
            raise tlc.MachineryError('Dims.tla: %r %s' % (rr, rr.out[-800:]))
        else:
            ctx.add_tlc('Dims/%s' % kind, rr)
            for a in ('Request', 'Expire', 'Caps'):
                if rr.coverage.get(a, (0, 0))[1] == 0:
                    raise tlc.MachineryError('vacuity: %s never taken (%s)' % (a, kind))
    # (R) spec -> code
    for i, kind in enumerate(KINDS):
        d = ctx.sub('sim-' + kind)
        mp, cp = tlc.write_mc(d, 'Dims', 'MC_S', consts(kind, variant, broken))
        prefix = os.path.join(d, 'beh')
        tlc.run(mp, cp, d, workers=1, simulate='file=%s,num=%d' % (prefix, 40 if thorough else 10), depth=14, seed=ctx.seed * 5 + i + 1,
                coverage=False, timeout=300)
        nb = 0
        for _f, beh in tlc.sim_traces(prefix):
            if len(beh) < 2:
                continue
            nb += 1
            status, detail, ev = replay_behaviour(beh, kind)
            ctx.cov['replayed_behaviours'] += 1
            ctx.cov['replayed_steps'] += len(beh) - 1
            ctx.count(('replay', kind, tuple(json.dumps(st['last'], sort_keys=True, default=str) for _a, st in beh[1:])))
            if status != 'ok':
                ctx.violation({'kind': 'replay-' + status, 'cache': kind}, '%s cache: the real application leaves the model: %s' % (kind, detail),
                              {'cache': kind, 'event': ev})
                break
        if nb == 0:
            raise tlc.MachineryError('no behaviours (%s)' % kind)
    # (T) code -> spec
    for i, kind in enumerate(KINDS):
        traces = [random_history(ctx.rng, kind, 40 if thorough else 18) for _ in range(12 if thorough else 4)]
        for t in traces:
            ctx.count(('hist', kind, json.dumps([[e.get('svc'), e.get('t'), e.get('d')] for e in t])))
        d = ctx.sub('tr-' + kind)
        tf = os.path.join(d, 'batch.json')
        with open(tf, 'w') as f:
            json.dump(traces, f)
        mp, cp = tlc.write_mc(d, 'Trace_Dims', 'MC_T', consts(kind, variant, broken), spec='TraceSpec', invariants=invs, properties=props,
                              post='TraceAccepted')
        rr = tlc.run(mp, cp, d, workers=1, coverage=False, env={'TRACE_FILE': tf}, timeout=900)
        ctx.cov['traces_validated_against_impl'] += len(traces)
        ctx.cov['states'] += rr.distinct
        ctx.cov['transitions'] += rr.generated
        if rr.violated and rr.violated != 'postcondition':
            ctx.violation({'kind': 'trace-property', 'property': rr.violated, 'cache': kind},
                          '%s cache: %s violated in a recorded history' % (kind, rr.violated), None)
            continue
        pr = tlc.find_prints(rr.out, 'matched')
        if not pr:
            raise tlc.MachineryError('Trace_Dims: no verdict: %s' % rr.out[-1200:])
        mv = pr[-1][1]
        matched = list(mv) if isinstance(mv, tuple) else [mv[k2] for k2 in sorted(mv)]
        for k, t in enumerate(traces):
            if matched[k] < len(t):
                e = t[matched[k]]
                ctx.violation({'kind': 'trace-rejected', 'cache': kind, 'svc': e.get('svc', '-')},
                              '%s cache: recorded history is not a behaviour of Dims.tla at step %d: %s' % (
                                  kind, matched[k] + 1, json.dumps({x: e[x] for x in e if x != 'store'})[:400]),
                              {'cache': kind, 'trace': t[:matched[k] + 1]})
    ctx.assumptions += ['file cache (the only backend with dimension support, doc/caching_layer_dimensions.rst); one dimension (TIME) with three '
                        'listed values, one value outside the list, no value; WMS 1.1.1 GetMap of exactly one tile, WMTS KVP, TMS; '
                        'caches with 2x2 meta tiles, single tiles, downscale_tiles 1 over a source that has the last level only']
    return ctx.finish('model_checking', 'TLC: all request sequences up to the bound over three kinds of cache; behaviours executed on and '
                      'histories recorded from a real application with a file cache')


def replay(ctx, data):
    return 0
