"""C14 - layers composite in order with correct alpha; shortcuts never change the picture.

spec/Compose.tla follows one WMS GetMap request for a stack of layers through the code (layer selection with
renders_query and opaque pruning, combined_layers, WMSSource.get_map with coverage handling, LayerMerger.merge with
its fast path and its composite / paste / blend branches) with exact 8-bit pixel arithmetic per REGION of the
request (zone relative to the coverage x content area of the layers), and states the property against
Full(stack, o), the unoptimised bottom-to-top composition in fixed point.

 (M) TLC explores all stacks over the catalogue (1-2 layers over the whole catalogue, longer ones over a reduced
     one) x request options and checks PictureOK / LogOK / TypeOK, with a vacuity guard on the actions.
 (R) spec -> code: TLC writes the table of expected answers (picture per region, upstream log) for the enumerated
     cases; every case is requested from the REAL WMS service (ProxyConfiguration + MapProxyApp + webtest) whose
     upstream is a synthetic painter behind HTTPClient.open; the answer must equal the model's (binding, +-Tol) and,
     independently, Full (the property); the upstream log must equal the model's.
 (T) code -> spec: seeded random worlds (other opacities, colours, more layers per request, multi-source layers)
     are driven through the real service, one event per request is recorded and TLC validates the batch against
     spec/trace/Trace_Compose.tla (Impl matches the observation; the property is evaluated on the observation).

Which of the known deviations (Compose!Defects) the code under test has is calibrated on witness cases so that the
model bound to the code is the model of the code as it is; the property is checked on the observations
independently of that choice.
"""
import io
import itertools
import json
import multiprocessing
import os
import shutil
import tempfile
from urllib.parse import urlparse, parse_qs

from engine import tlc

SPEC = os.path.join(tlc.SPEC_DIR, 'Compose.tla')
TRACE_SPEC = os.path.join(tlc.SPEC_DIR, 'trace', 'Trace_Compose.tla')

NONE = -1
TOL = 2
KNOWN_DEFECTS = ['fastpath_opacity', 'blend_alpha', 'combine_clip', 'opaque_zero', 'combine_range']
HYPOTHETICAL = ['prune_any', 'no_bgcolor', 'reverse_order', 'drop_opacity', 'combine_far']
ACTIONS = ['AddLayer', 'Submit', 'SelectSkip', 'SelectOpaque', 'SelectAdd', 'CombineDone', 'CombineFirst', 'CombineMerge',
           'CombineKeep', 'RenderDone', 'RenderBlank', 'RenderSub', 'RenderFull', 'MergeEmpty', 'MergeFast',
           'MergeComposite', 'MergePaste']
REGION_IDS = ['in_s', 'in_m', 'in_h', 'box_s', 'box_m', 'box_h', 'out_s', 'out_m', 'out_h']
CELL = 4            # content areas are cells of CELL x CELL map units: (cx + cy) mod 3 -> s, m, h
CONTENTS = 'smh'
FINE, COARSE = 1, 2  # map units per pixel of the two request resolutions
RANGE_MIN_RES = 1.5  # `min_res` of resolution-limited sources / layers: fine requests are inside, coarse ones outside
KEY_TOL = 5
URL1, URL2 = 'http://up1.example/wms', 'http://up2.example/wms'


# ---------------------------------------------------------------------------------------------
# pixel arithmetic of the synthetic upstream (the same definition as Compose!Over8 / Upstream)
# ---------------------------------------------------------------------------------------------
def shift255(a):
    return ((a >> 8) + a) >> 8


def over8(d, s):
    if s[3] == 0:
        return tuple(d)
    blend = d[3] * (255 - s[3])
    oa = s[3] * 255 + blend
    c1 = (s[3] * 255 * 255 * 128) // oa
    c2 = 255 * 128 - c1
    return tuple(shift255(s[i] * c1 + d[i] * c2 + 16384) >> 7 for i in range(3)) + (shift255(oa + 128),)


def nat_alpha(kind, c):
    if kind == 'opq':
        return 255
    if kind == 'rgba':
        return {'s': 255, 'm': 128, 'h': 0}[c]
    return 0 if c == 'h' else 255


def upstream_px(srcs, transparent, c):
    acc = (255, 255, 255, 0) if transparent else (255, 255, 255, 255)
    for s in srcs:
        acc = over8(acc, tuple(s['col']) + (nat_alpha(s['kind'], c),))
    return acc


# ---------------------------------------------------------------------------------------------
# worlds: one MapProxy configuration each, described twice - as constants of the model (Cat) and as a
# configuration of the real application with its synthetic upstream
# ---------------------------------------------------------------------------------------------
def colour(i):
    """distinct flat colours, no channel close to the colour key (white)"""
    return ((53 * i + 31) % 199 + 10, (97 * i + 67) % 193 + 12, (151 * i + 113) % 197 + 8)


def mk_source(sid, kind, op=NONE, cov='none', clip=False, url=URL1, rng='all', col=None, idx=0):
    return {'id': sid, 'kind': kind, 'op': op, 'cov': cov, 'clip': bool(clip), 'url': url, 'rng': rng,
            'col': list(col or colour(idx))}


def op_code(op):
    return 'n' if op == NONE else '%d' % op


class World(object):
    """geometry: cov_type 'polygon' = L-shaped polygon (0,0)-(80,0)-(80,40)-(40,40)-(40,80)-(0,80) (bbox 0,0,80,80),
    cov_type 'bbox' = the rectangle 0,0,80,80 (no "box" zone)"""

    def __init__(self, name, layers, cov_type='polygon', reduced=()):
        self.name = name
        self.cov_type = cov_type
        self.layers = layers                      # name -> {'name', 'srcs': [source], 'rng': 'none' | 'fine'}
        self.reduced = [n for n in reduced if n in layers]
        self.sources = {}
        for L in layers.values():
            for s in L['srcs']:
                self.sources[s['id']] = s
        if cov_type == 'polygon':
            self.windows = {('in',): (4, 4, 36, 36), ('box', 'in'): (20, 20, 76, 76), ('box', 'in', 'out'): (12, 12, 108, 108),
                            ('box',): (44, 44, 76, 76), ('out',): (88, 8, 120, 40), ('box', 'out'): (44, 44, 108, 108),
                            ('in', 'out'): (-28, 4, 28, 36)}
        else:
            self.windows = {('in',): (4, 4, 36, 36), ('in', 'out'): (20, 20, 116, 116), ('out',): (88, 8, 120, 40)}

    # -- geometry (independent of shapely: used for the region maps and the sanity check of the windows)
    def zone(self, x, y):
        if not (0 <= x <= 80 and 0 <= y <= 80):
            return 'out'
        if self.cov_type == 'bbox':
            return 'in'
        return 'in' if (y <= 40 or x <= 40) else 'box'

    def near_edge(self, x, y, d):
        lines = (0, 40, 80) if self.cov_type == 'polygon' else (0, 80)
        return any(abs(x - v) < d for v in lines) or any(abs(y - v) < d for v in lines)

    def cat(self):
        return {n: {'name': n, 'srcs': [dict(s, col=tuple(s['col'])) for s in L['srcs']], 'rng': L['rng']}
                for n, L in self.layers.items()}

    def conf(self, base_dir):
        if self.cov_type == 'polygon':
            with open(os.path.join(base_dir, 'P.txt'), 'w') as f:
                f.write('POLYGON((0 0, 80 0, 80 40, 40 40, 40 80, 0 80, 0 0))\n')
        sources = {}
        for s in self.sources.values():
            req = {'url': s['url'], 'layers': s['id']}
            if s['kind'] in ('rgba', 'pal'):
                req['transparent'] = True
            c = {'type': 'wms', 'req': req}
            image = {}
            if s['op'] != NONE:
                image['opacity'] = s['op'] / 100.0
            if s['kind'] == 'key':
                image['transparent_color'] = '#ffffff'
            if image:
                c['image'] = image
            if s['cov'] != 'none':
                if self.cov_type == 'polygon':
                    c['coverage'] = {'polygons': 'P.txt', 'polygons_srs': 'EPSG:3857'}
                else:
                    c['coverage'] = {'bbox': [0, 0, 80, 80], 'srs': 'EPSG:3857'}
                if s['clip']:
                    c['coverage']['clip'] = True
            if s['rng'] == 'fine':
                c['min_res'] = RANGE_MIN_RES
            sources[s['id']] = c
        layers = []
        for n, L in self.layers.items():
            lc = {'name': n, 'title': n, 'sources': [s['id'] for s in L['srcs']]}
            if L['rng'] == 'fine':
                lc['min_res'] = RANGE_MIN_RES
            layers.append(lc)
        return {
            'services': {'wms': {'md': {'title': 'c14'}, 'srs': ['EPSG:3857'], 'image_formats': ['image/png']}},
            'globals': {'image': {'paletted': False, 'transparent_color_tolerance': KEY_TOL},
                        'cache': {'base_dir': os.path.join(base_dir, 'cache')}},
            'sources': sources, 'layers': layers,
        }

    def to_json(self):
        return {'name': self.name, 'cov_type': self.cov_type, 'layers': self.layers, 'reduced': self.reduced}

    @staticmethod
    def from_json(d):
        return World(d['name'], d['layers'], d['cov_type'], d.get('reduced', ()))


def layer1(src, rng='none'):
    return {'name': src['id'], 'srcs': [src], 'rng': rng}


def base_world(tier, cov_type='polygon'):
    """the catalogue of the exhaustive runs: {opq, rgba, pal, key} x opacity {none, 1/2, 1} x coverage {none, clip,
    no-clip} on one URL, a second instance of every combinable type, a second URL, resolution-limited and
    multi-source layers, an invisible layer (opacity 0)"""
    layers = {}
    idx = [0]

    def add(kind, op, cov, clip, suffix='', **kw):
        sid = '%s_%s_%s%s' % (kind[0], op_code(op), 'x' if cov == 'none' else ('c' if clip else 'u'), suffix)
        idx[0] += 1
        s = mk_source(sid, kind, op, cov, clip, idx=idx[0], **kw)
        layers[sid] = layer1(s)
        return s

    for kind in ('opq', 'rgba', 'pal', 'key'):
        for op in (NONE, 50, 100):
            for cov, clip in (('none', False), ('P', True), ('P', False)):
                add(kind, op, cov, clip)
                if op == NONE:
                    add(kind, op, cov, clip, suffix='2')
    add('opq', NONE, 'none', False, suffix='v', url=URL2)
    add('rgba', NONE, 'none', False, suffix='v', url=URL2)
    add('opq', 0, 'none', False)
    add('rgba', 25, 'none', False)
    # resolution ranges: on the source, on the layer, and on one source of a two-source layer
    add('opq', NONE, 'none', False, suffix='f', rng='fine')
    s = mk_source('o_n_xg', 'opq', idx=90)
    layers['o_n_xg'] = layer1(s, rng='fine')
    a = mk_source('ms1a', 'opq', rng='fine', idx=91)
    b = mk_source('ms1b', 'rgba', idx=92)
    layers['ms1'] = {'name': 'ms1', 'srcs': [a, b], 'rng': 'none'}
    a = mk_source('ms2a', 'rgba', idx=93)
    b = mk_source('ms2b', 'opq', idx=94)
    layers['ms2'] = {'name': 'ms2', 'srcs': [a, b], 'rng': 'none'}
    a = mk_source('ms3a', 'key', op=50, idx=95)
    b = mk_source('ms3b', 'pal', cov='P', clip=True, idx=96)
    layers['ms3'] = {'name': 'ms3', 'srcs': [a, b], 'rng': 'none'}
    reduced = ['o_n_x', 'o_n_x2', 'o_50_x', 'o_n_c', 'o_n_u', 'r_n_x', 'r_n_x2', 'r_50_x', 'r_n_c', 'r_50_u', 'k_n_x', 'p_n_u',
               'o_n_xf', 'ms1']
    if tier == 'thorough':
        reduced += ['o_n_xv', 'k_50_c', 'o_0_x', 'p_n_x']
    if cov_type == 'bbox':
        reduced = reduced[:10]
    return World('base-' + cov_type, layers, cov_type, reduced)


# ---------------------------------------------------------------------------------------------
# the real service with its synthetic upstream (runs in worker processes)
# ---------------------------------------------------------------------------------------------
class Service(object):
    def __init__(self, world, base=None):
        import numpy as np
        from PIL import Image
        import mapproxy.client.http as H
        from mapproxy.config.loader import ProxyConfiguration
        from mapproxy.wsgiapp import MapProxyApp
        import webtest
        self.np, self.Image = np, Image
        self.world = world
        self.log = []
        self.dir = tempfile.mkdtemp(prefix='c14-', dir=base)
        self._orig_open = H.HTTPClient.open
        self._H = H
        svc = self

        def fake_open(self_, url, data=None, method=None):
            return svc.upstream(url)
        H.HTTPClient.open = fake_open
        pc = ProxyConfiguration(world.conf(self.dir), conf_base_dir=self.dir, seed=False, renderd=False)
        self.app = webtest.TestApp(MapProxyApp(pc.configured_services(), pc.base_config))
        self._maps = {}

    def close(self):
        self._H.HTTPClient.open = self._orig_open
        shutil.rmtree(self.dir, ignore_errors=True)

    # -- synthetic upstream -------------------------------------------------------------------
    def content_map(self, bbox, size):
        np = self.np
        w, h = size
        xs = bbox[0] + (np.arange(w) + 0.5) * (bbox[2] - bbox[0]) / w
        ys = bbox[3] - (np.arange(h) + 0.5) * (bbox[3] - bbox[1]) / h
        cx = np.floor(xs / CELL).astype(int)
        cy = np.floor(ys / CELL).astype(int)
        return (cx[None, :] + cy[:, None]) % 3, xs, ys

    def upstream(self, url):
        np, Image = self.np, self.Image
        u = urlparse(url)
        q = {k.lower(): v[0] for k, v in parse_qs(u.query).items()}
        names = q['layers'].split(',')
        bbox = tuple(float(v) for v in q['bbox'].split(','))
        size = (int(q['width']), int(q['height']))
        tr = q.get('transparent', 'false').lower() == 'true'
        base = '%s://%s%s' % (u.scheme, u.netloc, u.path)
        srcs = [self.world.sources[n] for n in names]
        self.log.append({'ls': names, 'tr': tr, 'bbox': bbox, 'size': size, 'url_ok': all(s['url'] == base for s in srcs),
                         'srs': q.get('srs'), 'format': q.get('format')})
        cm, _, _ = self.content_map(bbox, size)
        px = [upstream_px(srcs, tr, c) for c in CONTENTS]
        if tr and all(s['kind'] == 'pal' for s in srcs):
            # paletted answer with a transparent index (0 = white, transparent)
            pal = [255, 255, 255]
            index = []
            for p in px:
                if p[3] == 0:
                    index.append(0)
                else:
                    index.append(len(pal) // 3)
                    pal += list(p[:3])
            img = Image.fromarray(np.array(index, dtype='uint8')[cm], 'P')
            img.putpalette(pal + [0] * (768 - len(pal)))
            b = io.BytesIO()
            img.save(b, 'PNG', transparency=0)
        else:
            lut = np.array(px, dtype='uint8')
            arr = lut[cm]
            img = Image.fromarray(arr, 'RGBA') if tr else Image.fromarray(np.ascontiguousarray(arr[:, :, :3]), 'RGB')
            b = io.BytesIO()
            img.save(b, 'PNG')
        b.seek(0)
        b.headers = {'Content-type': 'image/png'}
        b.code = 200
        return b

    # -- one request ---------------------------------------------------------------------------
    def region_masks(self, zones, res):
        key = (tuple(zones), res)
        if key not in self._maps:
            np = self.np
            bbox = self.world.windows[tuple(sorted(zones))]
            size = (int((bbox[2] - bbox[0]) / res), int((bbox[3] - bbox[1]) / res))
            cm, xs, ys = self.content_map(bbox, size)
            masks = {}
            zone = np.empty((size[1], size[0]), dtype=object)
            edge = np.zeros((size[1], size[0]), dtype=bool)
            for j, y in enumerate(ys):
                for i, x in enumerate(xs):
                    zone[j, i] = self.world.zone(x, y)
                    edge[j, i] = self.world.near_edge(x, y, 1.5 * res)
            for z in ('in', 'box', 'out'):
                for k, c in enumerate(CONTENTS):
                    m = (zone == z) & (cm == k) & ~edge
                    if m.any():
                        masks['%s_%s' % (z, c)] = m
            self._maps[key] = (bbox, size, masks)
        return self._maps[key]

    def request(self, names, o):
        """-> observation {'status', 'px': {region: [r, g, b, a]}, 'flat': bool, 'ups': [{'ls', 'tr', 'sub'}], 'notes': [...]}"""
        np, Image = self.np, self.Image
        res = FINE if o['res'] == 'fine' else COARSE
        bbox, size, masks = self.region_masks(o['zones'], res)
        del self.log[:]
        url = ('/service?SERVICE=WMS&VERSION=1.1.1&REQUEST=GetMap&LAYERS=%s&STYLES=&SRS=EPSG:3857&BBOX=%s&WIDTH=%d&HEIGHT=%d'
               '&FORMAT=image/png&TRANSPARENT=%s&BGCOLOR=0x%02x%02x%02x' % (
                   ','.join(names), ','.join('%d' % v for v in bbox), size[0], size[1], 'true' if o['tr'] else 'false',
                   o['bg'][0], o['bg'][1], o['bg'][2]))
        r = self.app.get(url, expect_errors=True)
        obs = {'status': r.status_int, 'px': {}, 'flat': True, 'ups': [], 'notes': []}
        covbox = (max(bbox[0], 0), max(bbox[1], 0), min(bbox[2], 80), min(bbox[3], 80))
        for e in self.log:
            if not e['url_ok']:
                obs['notes'].append('upstream request for %s sent to the wrong URL' % e['ls'])
            if e['bbox'] == tuple(float(v) for v in bbox):
                sub = False
            elif e['bbox'] == tuple(float(v) for v in covbox):
                sub = True
            else:
                sub = False
                obs['notes'].append('upstream bbox %s is neither the request nor its part inside the coverage box' % (e['bbox'],))
            want = (int(round((e['bbox'][2] - e['bbox'][0]) / res)), int(round((e['bbox'][3] - e['bbox'][1]) / res)))
            if e['size'] != want:
                obs['notes'].append('upstream size %s for bbox %s at resolution %s' % (e['size'], e['bbox'], res))
            obs['ups'].append({'ls': e['ls'], 'tr': e['tr'], 'sub': sub})
        if r.status_int != 200 or not r.content_type.startswith('image/'):
            obs['notes'].append('answer is %s %s: %s' % (r.status_int, r.content_type, r.body[:200].decode('latin1')))
            return obs
        img = Image.open(io.BytesIO(r.body))
        obs['mode'] = img.mode
        if img.size != size:
            obs['notes'].append('answer has size %s instead of %s' % (img.size, size))
            return obs
        arr = np.asarray(img.convert('RGBA'))
        for rid, m in masks.items():
            vals = arr[m]
            first = vals[0]
            if not (vals == first).all():
                obs['flat'] = False
                obs['notes'].append('region %s is not flat' % rid)
            obs['px'][rid] = [int(v) for v in first]
        return obs


_SVC = None


def _worker_init(world_json, base):
    global _SVC
    _SVC = Service(World.from_json(world_json), base)


def _worker_run(chunk):
    return [_SVC.request(names, o) for names, o in chunk]


def run_real(world, cases, base, procs=8):
    """cases: [(names, o)] -> observations in order, executed on the real service in worker processes;
    scratch directories are created below `base` (removed by the caller)"""
    if not cases:
        return []
    if procs <= 1 or len(cases) < 40:
        svc = Service(world, base)
        try:
            return [svc.request(n, o) for n, o in cases]
        finally:
            svc.close()
    n = max(20, min(400, len(cases) // (procs * 4) + 1))
    chunks = [cases[i:i + n] for i in range(0, len(cases), n)]
    mpc = multiprocessing.get_context('fork')
    with mpc.Pool(procs, initializer=_worker_init, initargs=(world.to_json(), base)) as pool:
        out = pool.map(_worker_run, chunks)
        pool.close()
        pool.join()
    return [x for ch in out for x in ch]


# ---------------------------------------------------------------------------------------------
# the model: constants, exhaustive runs, tables of expected answers
# ---------------------------------------------------------------------------------------------
def opt_key(o):
    return (o['tr'], tuple(o['bg']), tuple(sorted(o['zones'])), o['res'])


def mk_opt(tr, bg, zones, res):
    return {'tr': bool(tr), 'bg': list(bg), 'zones': sorted(zones), 'res': res}


def opts_for(world, tier):
    """request options of the exhaustive runs"""
    pics = [(True, (255, 255, 255)), (False, (255, 255, 255)), (False, (0, 160, 80))]
    if world.cov_type == 'polygon':
        wins = [('box', 'in', 'out'), ('in',), ('box', 'in'), ('box',)]
        if tier == 'thorough':
            wins += [('out',), ('in', 'out'), ('box', 'out')]
    else:
        wins = [('in', 'out'), ('in',), ('out',)]
    return [mk_opt(tr, bg, z, res) for tr, bg in pics for z in wins for res in ('fine', 'coarse')]


def all_zones(world):
    return ('box', 'in', 'out') if world.cov_type == 'polygon' else ('in', 'out')


def tla_opt(o):
    from engine import tla
    return tla.to_tla({'tr': o['tr'], 'bg': tuple(o['bg']), 'zones': frozenset(o['zones']), 'res': o['res']})


def consts(world, opts, defects, shallow, maxstack, tol=TOL):
    return dict(Cat=world.cat(), Reduced=set(world.reduced), ShallowLen=shallow, MaxStack=maxstack,
                Opts='={' + ', '.join(tla_opt(o) for o in opts) + '}', AllZones=set(all_zones(world)),
                Defects=set(defects), Tol=tol)


def has_cov(world, names):
    return any(s['cov'] != 'none' for n in names for s in world.layers[n]['srcs'])


def has_rng(world, names):
    return any(world.layers[n]['rng'] == 'fine' or any(s['rng'] == 'fine' for s in world.layers[n]['srcs']) for n in names)


def relevant(world, names, o):
    return (o['res'] != 'coarse' or has_rng(world, names)) and (tuple(o['zones']) == all_zones(world) or has_cov(world, names))


def enumerate_stacks(world, shallow, maxstack):
    """the stacks TLC enumerates (Compose!AddLayer): all of length <= shallow, longer ones over world.reduced"""
    names = sorted(world.layers)
    for k in range(1, maxstack + 1):
        pool = names if k <= shallow else sorted(world.reduced)
        for st in itertools.permutations(pool, k):
            yield st
        if k > shallow:
            continue


def enumerate_cases(world, opts, shallow, maxstack):
    for st in enumerate_stacks(world, shallow, maxstack):
        for o in opts:
            if relevant(world, st, o):
                yield (list(st), o)


def vacuity_guard(name, r, need):
    for a in need:
        if r.coverage.get(a, (0, 0))[0] == 0:
            raise tlc.MachineryError('vacuous model run %s: action %s has coverage %r' % (name, a, r.coverage.get(a)))


def check_model(ctx, tag, world, opts, defects, shallow, maxstack, invariants=('TypeOK', 'PictureOK', 'LogOK'), workers=8,
                timeout=1500):
    d = ctx.sub('mc-' + tag)
    mp, cp = tlc.write_mc(d, 'Compose', 'MC_' + tag.replace('-', '_'), consts(world, opts, defects, shallow, maxstack),
                          invariants=list(invariants))
    return tlc.run(mp, cp, d, workers=workers, timeout=timeout, heap='3g')


def expected_table(ctx, tag, world, cases, defects, tol=TOL, timeout=1500):
    """TLC evaluates Compose!Expect for every case -> list of {'out', 'full', 'ups', 'path', 'ok'}"""
    d = ctx.sub('tab-' + tag)
    fin = os.path.join(d, 'cases.json')
    fout = os.path.join(d, 'expect.json')
    with open(fin, 'w') as f:
        json.dump([{'names': list(n), 'o': o} for n, o in cases], f)
    extra = ('Cases == JsonDeserialize("%s")\n'
             'SeqSet(q) == {q[k] : k \\in 1 .. Len(q)}\n'
             'ToOpt(j) == [tr |-> j.tr, bg |-> j.bg, zones |-> SeqSet(j.zones), res |-> j.res]\n'
             'ASSUME JsonSerialize("%s", [k \\in 1 .. Len(Cases) |-> Expect(Cases[k].names, ToOpt(Cases[k].o))])\n'
             'VARIABLE dummy\nTabSpec == dummy = 0 /\\ [][UNCHANGED dummy]_dummy' % (fin, fout))
    c = consts(world, [cases[0][1]], defects, 1, 1, tol)
    mp, cp = tlc.write_mc(d, 'Compose', 'MC_Tab', c, spec='TabSpec', extends=['Json'], extra_defs=extra)
    r = tlc.run(mp, cp, d, workers=1, timeout=timeout, coverage=False, heap='3g')
    if not os.path.exists(fout):
        raise tlc.MachineryError('no table of expected answers from TLC (%s): %s' % (tag, r.out[-1500:]))
    with open(fout) as f:
        tab = json.load(f)
    if len(tab) != len(cases):
        raise tlc.MachineryError('table of expected answers has %d rows for %d cases' % (len(tab), len(cases)))
    return tab
