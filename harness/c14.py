"""C14 - layers composite in order with correct alpha; shortcuts never change the picture.

spec/Compose.tla follows one WMS GetMap request for a stack of layers through the code (layer selection with
renders_query and opaque pruning, combined_layers, WMSSource.get_map with coverage handling, LayerMerger.merge with
its fast path and its composite / paste / blend branches) with exact 8-bit pixel arithmetic per REGION of the
request (zone relative to the coverage x content area of the layers), and states the property against
Full(stack, o), the unoptimised bottom-to-top composition in fixed point.

 (M) TLC explores all stacks over the catalogue (1-2 layers over the whole catalogue, longer ones over a reduced
     one) x request options and checks PictureOK / LogOK / TypeOK, with a vacuity guard on the actions.
 (R) spec -> code: TLC writes the table of expected answers (picture per region, upstream log) for the enumerated
     cases; every case is requested from the REAL WMS service (ProxyConfiguration + MapProxyApp + webtest) whose
     upstream is a synthetic painter behind HTTPClient.open; the answer must equal the model's (binding, +-Tol) and,
     independently, Full (the property); the upstream log must equal the model's.
 (T) code -> spec: seeded random worlds (other opacities, colours, more layers per request, multi-source layers)
     are driven through the real service, one event per request is recorded and TLC validates the batch against
     spec/trace/Trace_Compose.tla (Impl matches the observation; the property is evaluated on the observation).

Which of the known deviations (Compose!Defects) the code under test has is calibrated on witness cases so that the
model bound to the code is the model of the code as it is; the property is checked on the observations
independently of that choice.
"""
import io
import itertools
import json
import multiprocessing
import os
import shutil
import tempfile
from urllib.parse import urlparse, parse_qs

from engine import tlc

SPEC = os.path.join(tlc.SPEC_DIR, 'Compose.tla')
TRACE_SPEC = os.path.join(tlc.SPEC_DIR, 'trace', 'Trace_Compose.tla')

NONE = -1
TOL = 2
KNOWN_DEFECTS = ['fastpath_opacity', 'blend_alpha', 'combine_clip', 'opaque_zero', 'combine_range', 'clip_bbox', 'combine_ssrs', 'dup_first']
HYPOTHETICAL = ['prune_any', 'no_bgcolor', 'reverse_order', 'drop_opacity', 'combine_far']
ACTIONS = ['AddLayer', 'Submit', 'SelectSkip', 'SelectOpaque', 'SelectAdd', 'CombineDone', 'CombineFirst', 'CombineMerge',
           'CombineKeep', 'RenderDone', 'RenderBlank', 'RenderSub', 'RenderFull', 'MergeEmpty', 'MergeFast',
           'MergeComposite', 'MergePaste']
RAISE_ACTIONS = {'combine_ssrs': 'CombineRaise', 'clip_bbox': 'MergeRaise'}
REGION_IDS = ['in_s', 'in_m', 'in_h', 'box_s', 'box_m', 'box_h', 'out_s', 'out_m', 'out_h']
CELL = 4            # content areas are cells of CELL x CELL map units: (cx + cy) mod 3 -> s, m, h
CONTENTS = 'smh'
FINE, COARSE = 1, 2  # map units per pixel of the two request resolutions
RANGE_MIN_RES = 1.5  # `min_res` of resolution-limited sources / layers: fine requests are inside, coarse ones outside
KEY_TOL = 5
URL1, URL2 = 'http://up1.example/wms', 'http://up2.example/wms'
URL_ERR = 'http://up-err.example/wms'      # answers 503: sources of kind 'err' (on_error maps it to a colour with alpha)
ERR_ALPHA = 128


# ---------------------------------------------------------------------------------------------
# pixel arithmetic of the synthetic upstream (the same definition as Compose!Over8 / Upstream)
# ---------------------------------------------------------------------------------------------
def shift255(a):
    return ((a >> 8) + a) >> 8


def over8(d, s):
    if s[3] == 0:
        return tuple(d)
    blend = d[3] * (255 - s[3])
    oa = s[3] * 255 + blend
    c1 = (s[3] * 255 * 255 * 128) // oa
    c2 = 255 * 128 - c1
    return tuple(shift255(s[i] * c1 + d[i] * c2 + 16384) >> 7 for i in range(3)) + (shift255(oa + 128),)


def nat_alpha(kind, c):
    if kind == 'opq':
        return 255
    if kind == 'rgba':
        return {'s': 255, 'm': 128, 'h': 0}[c]
    return 0 if c == 'h' else 255


def upstream_px(srcs, transparent, c):
    acc = (255, 255, 255, 0) if transparent else (255, 255, 255, 255)
    for s in srcs:
        acc = over8(acc, tuple(s['col']) + (nat_alpha(s['kind'], c),))
    return acc


# ---------------------------------------------------------------------------------------------
# worlds: one MapProxy configuration each, described twice - as constants of the model (Cat) and as a
# configuration of the real application with its synthetic upstream
# ---------------------------------------------------------------------------------------------
def colour(i):
    """distinct flat colours, no channel close to the colour key (white)"""
    return ((53 * i + 31) % 199 + 10, (97 * i + 67) % 193 + 12, (151 * i + 113) % 197 + 8)


def mk_source(sid, kind, op=NONE, cov='none', clip=False, url=URL1, rng='all', col=None, idx=0, ssrs=False):
    return {'id': sid, 'kind': kind, 'op': op, 'cov': cov, 'clip': bool(clip), 'url': url, 'rng': rng,
            'col': list(col or colour(idx)), 'ssrs': bool(ssrs)}


def op_code(op):
    return 'n' if op == NONE else '%d' % op


class World(object):
    """geometry: cov_type 'polygon' = L-shaped polygon (0,0)-(80,0)-(80,40)-(40,40)-(40,80)-(0,80) (bbox 0,0,80,80),
    cov_type 'bbox' = the rectangle 0,0,80,80 (no "box" zone)"""

    def __init__(self, name, layers, cov_type='polygon', reduced=()):
        self.name = name
        self.cov_type = cov_type
        self.layers = layers                      # name -> {'name', 'srcs': [source], 'rng': 'none' | 'fine'}
        self.reduced = [n for n in reduced if n in layers]
        self.sources = {}
        for L in layers.values():
            for s in L['srcs']:
                self.sources[s['id']] = s
        if cov_type == 'polygon':
            self.windows = {('in',): (4, 4, 36, 36), ('box', 'in'): (20, 20, 76, 76), ('box', 'in', 'out'): (12, 12, 108, 108),
                            ('box',): (44, 44, 76, 76), ('out',): (88, 8, 120, 40), ('box', 'out'): (44, 44, 108, 108),
                            ('in', 'out'): (-28, 4, 28, 36)}
        else:
            self.windows = {('in',): (4, 4, 36, 36), ('in', 'out'): (20, 20, 116, 116), ('out',): (88, 8, 120, 40)}

    # -- geometry (independent of shapely: used for the region maps and the sanity check of the windows)
    def zone(self, x, y):
        if not (0 <= x <= 80 and 0 <= y <= 80):
            return 'out'
        if self.cov_type == 'bbox':
            return 'in'
        return 'in' if (y <= 40 or x <= 40) else 'box'

    def near_edge(self, x, y, d):
        lines = (0, 40, 80) if self.cov_type == 'polygon' else (0, 80)
        return any(abs(x - v) < d for v in lines) or any(abs(y - v) < d for v in lines)

    def cat(self):
        return {n: {'name': n, 'srcs': [dict(s, col=tuple(s['col'])) for s in L['srcs']], 'rng': L['rng']}
                for n, L in self.layers.items()}

    def conf(self, base_dir):
        if self.cov_type == 'polygon':
            with open(os.path.join(base_dir, 'P.txt'), 'w') as f:
                f.write('POLYGON((0 0, 80 0, 80 40, 40 40, 40 80, 0 80, 0 0))\n')
        sources = {}
        for s in self.sources.values():
            req = {'url': s['url'], 'layers': s['id']}
            if s['kind'] in ('rgba', 'pal', 'err'):
                req['transparent'] = True
            c = {'type': 'wms', 'req': req}
            if s['kind'] == 'err':
                c['on_error'] = {503: {'response': '#%02x%02x%02x%02x' % (tuple(s['col']) + (ERR_ALPHA,)), 'cache': False}}
            image = {}
            if s['op'] != NONE:
                image['opacity'] = s['op'] / 100.0
            if s['kind'] == 'key':
                image['transparent_color'] = '#ffffff'
            if image:
                c['image'] = image
            if s['cov'] != 'none':
                if self.cov_type == 'polygon':
                    c['coverage'] = {'polygons': 'P.txt', 'polygons_srs': 'EPSG:3857'}
                else:
                    c['coverage'] = {'bbox': [0, 0, 80, 80], 'srs': 'EPSG:3857'}
                if s['clip']:
                    c['coverage']['clip'] = True
            if s['rng'] == 'fine':
                c['min_res'] = RANGE_MIN_RES
            if s['ssrs']:
                c['supported_srs'] = ['EPSG:3857']
            sources[s['id']] = c
        layers = []
        for n, L in self.layers.items():
            lc = {'name': n, 'title': n, 'sources': [s['id'] for s in L['srcs']]}
            if L['rng'] == 'fine':
                lc['min_res'] = RANGE_MIN_RES
            layers.append(lc)
        return {
            'services': {'wms': {'md': {'title': 'c14'}, 'srs': ['EPSG:3857'], 'image_formats': ['image/png']}},
            'globals': {'image': {'paletted': False, 'transparent_color_tolerance': KEY_TOL},
                        'cache': {'base_dir': os.path.join(base_dir, 'cache')}},
            'sources': sources, 'layers': layers,
        }

    def to_json(self):
        return {'name': self.name, 'cov_type': self.cov_type, 'layers': self.layers, 'reduced': self.reduced}

    @staticmethod
    def from_json(d):
        return World(d['name'], d['layers'], d['cov_type'], d.get('reduced', ()))


def layer1(src, rng='none'):
    return {'name': src['id'], 'srcs': [src], 'rng': rng}


def base_world(tier, cov_type='polygon'):
    """the catalogue of the exhaustive runs: {opq, rgba, pal, key} x opacity {none, 1/2, 1} x coverage {none, clip,
    no-clip} on one URL, a second instance of every combinable type, a second URL, resolution-limited and
    multi-source layers, an invisible layer (opacity 0)"""
    layers = {}
    idx = [0]

    def add(kind, op, cov, clip, suffix='', **kw):
        sid = '%s_%s_%s%s' % (kind[0], op_code(op), 'x' if cov == 'none' else ('c' if clip else 'u'), suffix)
        idx[0] += 1
        s = mk_source(sid, kind, op, cov, clip, idx=idx[0], **kw)
        layers[sid] = layer1(s)
        return s

    for kind in ('opq', 'rgba', 'pal', 'key'):
        for op in (NONE, 50, 100):
            for cov, clip in (('none', False), ('P', True), ('P', False)):
                if tier != 'thorough' and kind in ('pal', 'key') and op == 100:
                    continue            # quick tier: opacity 1 only for the RGB and RGBA kinds
                add(kind, op, cov, clip)
                if op == NONE and (tier == 'thorough' or kind != 'pal'):
                    add(kind, op, cov, clip, suffix='2')
    add('opq', NONE, 'none', False, suffix='v', url=URL2)
    add('rgba', NONE, 'none', False, suffix='v', url=URL2)
    add('opq', 0, 'none', False)
    add('rgba', 25, 'none', False)
    add('err', NONE, 'none', False, url=URL_ERR)
    add('opq', NONE, 'none', False, suffix='s', ssrs=True)
    add('rgba', NONE, 'none', False, suffix='s', ssrs=True)
    # resolution ranges: on the source, on the layer, and on one source of a two-source layer
    add('opq', NONE, 'none', False, suffix='f', rng='fine')
    s = mk_source('o_n_xg', 'opq', idx=90)
    layers['o_n_xg'] = layer1(s, rng='fine')
    a = mk_source('ms1a', 'opq', rng='fine', idx=91)
    b = mk_source('ms1b', 'rgba', idx=92)
    layers['ms1'] = {'name': 'ms1', 'srcs': [a, b], 'rng': 'none'}
    a = mk_source('ms2a', 'rgba', idx=93)
    b = mk_source('ms2b', 'opq', idx=94)
    layers['ms2'] = {'name': 'ms2', 'srcs': [a, b], 'rng': 'none'}
    a = mk_source('ms3a', 'key', op=50, idx=95)
    b = mk_source('ms3b', 'pal', cov='P', clip=True, idx=96)
    layers['ms3'] = {'name': 'ms3', 'srcs': [a, b], 'rng': 'none'}
    # a layer that uses the source of another layer again: requested together, the combined upstream request names an
    # upstream layer twice (r_n_x,r_n_x2,r_n_x) - the order and the repetition are part of the picture
    layers['ms4'] = {'name': 'ms4', 'srcs': [layers['r_n_x']['srcs'][0], layers['r_n_x2']['srcs'][0]], 'rng': 'none'}
    reduced = ['o_n_x', 'o_n_x2', 'o_50_x', 'o_n_c', 'o_n_u', 'r_n_x', 'r_50_x', 'r_n_c', 'k_n_x', 'p_n_u', 'ms1', 'r_n_xs', 'ms4', 'e_n_x']
    if tier == 'thorough':
        reduced += ['r_n_x2', 'r_50_u', 'o_n_xf', 'o_n_xv', 'k_50_c', 'o_0_x']
    if cov_type == 'bbox':
        reduced = reduced[:8]
    return World('base-' + cov_type, layers, cov_type, reduced)


# ---------------------------------------------------------------------------------------------
# the real service with its synthetic upstream (runs in worker processes)
# ---------------------------------------------------------------------------------------------
class Service(object):
    def __init__(self, world, base=None):
        import numpy as np
        from PIL import Image
        import mapproxy.client.http as H
        from mapproxy.config.loader import ProxyConfiguration
        from mapproxy.wsgiapp import MapProxyApp
        import webtest
        import logging
        logging.disable(logging.CRITICAL)        # the service logs every internal error with its traceback
        self.np, self.Image = np, Image
        self.world = world
        self.log = []
        self.dir = tempfile.mkdtemp(prefix='c14-', dir=base)
        self._orig_open = H.HTTPClient.open
        self._H = H
        svc = self

        def fake_open(self_, url, data=None, method=None):
            return svc.upstream(url)
        H.HTTPClient.open = fake_open
        pc = ProxyConfiguration(world.conf(self.dir), conf_base_dir=self.dir, seed=False, renderd=False)
        self.app = webtest.TestApp(MapProxyApp(pc.configured_services(), pc.base_config))
        self._maps = {}

    def close(self):
        self._H.HTTPClient.open = self._orig_open
        shutil.rmtree(self.dir, ignore_errors=True)

    # -- synthetic upstream -------------------------------------------------------------------
    def content_map(self, bbox, size):
        np = self.np
        w, h = size
        xs = bbox[0] + (np.arange(w) + 0.5) * (bbox[2] - bbox[0]) / w
        ys = bbox[3] - (np.arange(h) + 0.5) * (bbox[3] - bbox[1]) / h
        cx = np.floor(xs / CELL).astype(int)
        cy = np.floor(ys / CELL).astype(int)
        return (cx[None, :] + cy[:, None]) % 3, xs, ys

    def upstream(self, url):
        np, Image = self.np, self.Image
        u = urlparse(url)
        q = {k.lower(): v[0] for k, v in parse_qs(u.query).items()}
        names = q['layers'].split(',')
        bbox = tuple(float(v) for v in q['bbox'].split(','))
        size = (int(q['width']), int(q['height']))
        tr = q.get('transparent', 'false').lower() == 'true'
        base = '%s://%s%s' % (u.scheme, u.netloc, u.path)
        srcs = [self.world.sources[n] for n in names]
        self.log.append({'ls': names, 'tr': tr, 'bbox': bbox, 'size': size, 'url_ok': all(s['url'] == base for s in srcs),
                         'srs': q.get('srs'), 'format': q.get('format')})
        if any(s['kind'] == 'err' for s in srcs):
            raise self._H.HTTPClientError('upstream error', response_code=503)
        cm, _, _ = self.content_map(bbox, size)
        px = [upstream_px(srcs, tr, c) for c in CONTENTS]
        if tr and all(s['kind'] == 'pal' for s in srcs):
            # paletted answer with a transparent index (0 = white, transparent)
            pal = [255, 255, 255]
            index = []
            for p in px:
                if p[3] == 0:
                    index.append(0)
                else:
                    index.append(len(pal) // 3)
                    pal += list(p[:3])
            img = Image.fromarray(np.array(index, dtype='uint8')[cm], 'P')
            img.putpalette(pal + [0] * (768 - len(pal)))
            b = io.BytesIO()
            img.save(b, 'PNG', transparency=0)
        else:
            lut = np.array(px, dtype='uint8')
            arr = lut[cm]
            img = Image.fromarray(arr, 'RGBA') if tr else Image.fromarray(np.ascontiguousarray(arr[:, :, :3]), 'RGB')
            b = io.BytesIO()
            img.save(b, 'PNG')
        b.seek(0)
        b.headers = {'Content-type': 'image/png'}
        b.code = 200
        return b

    # -- one request ---------------------------------------------------------------------------
    def region_masks(self, zones, res):
        key = (tuple(zones), res)
        if key not in self._maps:
            np = self.np
            bbox = self.world.windows[tuple(sorted(zones))]
            size = (int((bbox[2] - bbox[0]) / res), int((bbox[3] - bbox[1]) / res))
            cm, xs, ys = self.content_map(bbox, size)
            masks = {}
            zone = np.empty((size[1], size[0]), dtype=object)
            edge = np.zeros((size[1], size[0]), dtype=bool)
            for j, y in enumerate(ys):
                for i, x in enumerate(xs):
                    zone[j, i] = self.world.zone(x, y)
                    edge[j, i] = self.world.near_edge(x, y, 1.5 * res)
            for z in ('in', 'box', 'out'):
                for k, c in enumerate(CONTENTS):
                    m = (zone == z) & (cm == k) & ~edge
                    if m.any():
                        masks['%s_%s' % (z, c)] = m
            self._maps[key] = (bbox, size, masks)
        return self._maps[key]

    def request(self, names, o):
        """-> observation {'status', 'px': {region: [r, g, b, a]}, 'flat': bool, 'ups': [{'ls', 'tr', 'sub'}], 'notes': [...]}"""
        np, Image = self.np, self.Image
        res = FINE if o['res'] == 'fine' else COARSE
        bbox, size, masks = self.region_masks(o['zones'], res)
        del self.log[:]
        url = ('/service?SERVICE=WMS&VERSION=1.1.1&REQUEST=GetMap&LAYERS=%s&STYLES=&SRS=EPSG:3857&BBOX=%s&WIDTH=%d&HEIGHT=%d'
               '&FORMAT=image/png&TRANSPARENT=%s&BGCOLOR=0x%02x%02x%02x' % (
                   ','.join(names), ','.join('%d' % v for v in bbox), size[0], size[1], 'true' if o['tr'] else 'false',
                   o['bg'][0], o['bg'][1], o['bg'][2]))
        r = self.app.get(url, expect_errors=True)
        obs = {'status': r.status_int, 'px': {}, 'flat': True, 'ups': [], 'notes': []}
        covbox = (max(bbox[0], 0), max(bbox[1], 0), min(bbox[2], 80), min(bbox[3], 80))
        for e in self.log:
            if not e['url_ok']:
                obs['notes'].append('upstream request for %s sent to the wrong URL' % e['ls'])
            if e['bbox'] == tuple(float(v) for v in bbox):
                sub = False
            elif e['bbox'] == tuple(float(v) for v in covbox):
                sub = True
            else:
                sub = False
                obs['notes'].append('upstream bbox %s is neither the request nor its part inside the coverage box' % (e['bbox'],))
            want = (int(round((e['bbox'][2] - e['bbox'][0]) / res)), int(round((e['bbox'][3] - e['bbox'][1]) / res)))
            if e['size'] != want:
                obs['notes'].append('upstream size %s for bbox %s at resolution %s' % (e['size'], e['bbox'], res))
            obs['ups'].append({'ls': e['ls'], 'tr': e['tr'], 'sub': sub})
        if r.status_int != 200 or not r.content_type.startswith('image/'):
            obs['notes'].append('answer is %s %s: %s' % (r.status_int, r.content_type, r.body[:200].decode('latin1')))
            return obs
        img = Image.open(io.BytesIO(r.body))
        obs['mode'] = img.mode
        if img.size != size:
            obs['notes'].append('answer has size %s instead of %s' % (img.size, size))
            return obs
        arr = np.asarray(img.convert('RGBA'))
        for rid, m in masks.items():
            vals = arr[m]
            first = vals[0]
            if not (vals == first).all():
                obs['flat'] = False
                obs['notes'].append('region %s is not flat' % rid)
            obs['px'][rid] = [int(v) for v in first]
        return obs


_SVC = None


def _worker_init(world_json, base):
    global _SVC
    _SVC = Service(World.from_json(world_json), base)


def _worker_run(chunk):
    return [_SVC.request(names, o) for names, o in chunk]


def run_real(world, cases, base, procs=8):
    """cases: [(names, o)] -> observations in order, executed on the real service in worker processes;
    scratch directories are created below `base` (removed by the caller)"""
    if not cases:
        return []
    if procs <= 1 or len(cases) < 40:
        svc = Service(world, base)
        try:
            return [svc.request(n, o) for n, o in cases]
        finally:
            svc.close()
    n = max(20, min(400, len(cases) // (procs * 4) + 1))
    chunks = [cases[i:i + n] for i in range(0, len(cases), n)]
    mpc = multiprocessing.get_context('fork')
    with mpc.Pool(procs, initializer=_worker_init, initargs=(world.to_json(), base)) as pool:
        out = pool.map(_worker_run, chunks)
        pool.close()
        pool.join()
    return [x for ch in out for x in ch]


# ---------------------------------------------------------------------------------------------
# the model: constants, exhaustive runs, tables of expected answers
# ---------------------------------------------------------------------------------------------
def opt_key(o):
    return (o['tr'], tuple(o['bg']), tuple(sorted(o['zones'])), o['res'])


def mk_opt(tr, bg, zones, res):
    return {'tr': bool(tr), 'bg': list(bg), 'zones': sorted(zones), 'res': res}


def opts_for(world, tier):
    """request options of the exhaustive runs"""
    pics = [(True, (255, 255, 255)), (False, (255, 255, 255)), (False, (0, 160, 80))]
    if world.cov_type == 'polygon':
        wins = [('box', 'in', 'out'), ('in',), ('box', 'in'), ('box',)]
        if tier == 'thorough':
            wins += [('out',), ('in', 'out'), ('box', 'out')]
    else:
        wins = [('in', 'out'), ('in',), ('out',)]
    return [mk_opt(tr, bg, z, res) for tr, bg in pics for z in wins for res in ('fine', 'coarse')]


def all_zones(world):
    return ('box', 'in', 'out') if world.cov_type == 'polygon' else ('in', 'out')


def tla_opt(o):
    from engine import tla
    return tla.to_tla({'tr': o['tr'], 'bg': tuple(o['bg']), 'zones': frozenset(o['zones']), 'res': o['res']})


def consts(world, opts, defects, shallow, maxstack, tol=TOL):
    return dict(Cat=world.cat(), Reduced=set(world.reduced), ShallowLen=shallow, MaxStack=maxstack,
                Opts='={' + ', '.join(tla_opt(o) for o in opts) + '}', AllZones=set(all_zones(world)),
                BoxCov=world.cov_type == 'bbox',
                Defects=set(defects), Tol=tol)


def has_cov(world, names):
    return any(s['cov'] != 'none' for n in names for s in world.layers[n]['srcs'])


def has_rng(world, names):
    return any(world.layers[n]['rng'] == 'fine' or any(s['rng'] == 'fine' for s in world.layers[n]['srcs']) for n in names)


def relevant(world, names, o):
    return (o['res'] != 'coarse' or has_rng(world, names)) and (tuple(o['zones']) == all_zones(world) or has_cov(world, names))


def enumerate_stacks(world, shallow, maxstack):
    """the stacks TLC enumerates (Compose!AddLayer): all of length <= shallow, longer ones over world.reduced"""
    names = sorted(world.layers)
    reduced = set(world.reduced)
    for k in range(1, maxstack + 1):
        pool = names if k <= shallow else sorted(world.reduced)
        for st in itertools.permutations(pool, k):
            yield st
        # ... and the stacks that name ONE layer twice, over the reduced catalogue (Compose!AddLayer)
        if k >= 2:
            rp = sorted(reduced)
            for base in itertools.permutations(rp, k - 1):
                for name in base:
                    if any(x['kind'] == 'err' for x in world.layers[name]['srcs']):
                        continue
                    first = base.index(name)
                    for pos in range(first + 1, k):
                        yield base[:pos] + (name,) + base[pos:]


def enumerate_cases(world, opts, shallow, maxstack):
    for st in enumerate_stacks(world, shallow, maxstack):
        for o in opts:
            if relevant(world, st, o):
                yield (list(st), o)


def vacuity_guard(name, r, need):
    for a in need:
        if r.coverage.get(a, (0, 0))[0] == 0:
            raise tlc.MachineryError('vacuous model run %s: action %s has coverage %r' % (name, a, r.coverage.get(a)))


def check_model(ctx, tag, world, opts, defects, shallow, maxstack, invariants=('TypeOK', 'PictureOK', 'LogOK'), workers=8,
                timeout=1500):
    d = ctx.sub('mc-' + tag)
    mp, cp = tlc.write_mc(d, 'Compose', 'MC_' + tag.replace('-', '_'), consts(world, opts, defects, shallow, maxstack),
                          invariants=list(invariants))
    return tlc.run(mp, cp, d, workers=workers, timeout=timeout, heap='3g')


def expected_table(ctx, tag, world, cases, defects, tol=TOL, timeout=1500):
    """TLC evaluates Compose!Expect for every case -> list of {'out', 'full', 'ups', 'path', 'ok'}"""
    d = ctx.sub('tab-' + tag)
    fin = os.path.join(d, 'cases.json')
    fout = os.path.join(d, 'expect.json')
    with open(fin, 'w') as f:
        json.dump([{'names': list(n), 'o': o} for n, o in cases], f)
    extra = ('Cases == JsonDeserialize("%s")\n'
             'SeqSet(q) == {q[k] : k \\in 1 .. Len(q)}\n'
             'ToOpt(j) == [tr |-> j.tr, bg |-> j.bg, zones |-> SeqSet(j.zones), res |-> j.res]\n'
             'ASSUME JsonSerialize("%s", [k \\in 1 .. Len(Cases) |-> Expect(Cases[k].names, ToOpt(Cases[k].o))])\n'
             'VARIABLE dummy\nTabSpec == dummy = 0 /\\ [][UNCHANGED dummy]_dummy' % (fin, fout))
    c = consts(world, [cases[0][1]], defects, 1, 1, tol)
    mp, cp = tlc.write_mc(d, 'Compose', 'MC_Tab', c, spec='TabSpec', extends=['Json'], extra_defs=extra)
    r = tlc.run(mp, cp, d, workers=1, timeout=timeout, coverage=False, heap='3g')
    if not os.path.exists(fout):
        raise tlc.MachineryError('no table of expected answers from TLC (%s): %s' % (tag, r.out[-1500:]))
    with open(fout) as f:
        tab = json.load(f)
    if len(tab) != len(cases):
        raise tlc.MachineryError('table of expected answers has %d rows for %d cases' % (len(tab), len(cases)))
    return tab


# ---------------------------------------------------------------------------------------------
# comparison of observations with the model (Compose!Close in python, for the values TLC computed)
# ---------------------------------------------------------------------------------------------
def close(p, q, tol=TOL):
    if abs(p[3] - q[3]) > tol:
        return False
    if p[3] <= tol and q[3] <= tol:
        return True
    m = min(p[3], q[3])
    return all(abs(p[i] - q[i]) * m <= tol * 255 for i in range(3))


def px_diff(obs_px, want, tol=TOL):
    """regions where the observed picture differs from `want` (None if equal within the tolerance)"""
    if set(obs_px) != set(want):
        return {'regions': (sorted(obs_px), sorted(want))}
    d = {r: (tuple(obs_px[r]), tuple(want[r])) for r in sorted(want) if not close(obs_px[r], want[r], tol)}
    return d or None


def tol_of(nsrc):
    """Compose!TolOf"""
    return TOL if nsrc <= 4 else TOL + 1


def judge(obs, exp, nsrc=1):
    """-> (property_ok, binding_ok, text)"""
    if obs['status'] != 200 or not obs['px']:
        return False, obs['status'] == exp['status'], '; '.join(obs['notes']) or 'no picture'
    if exp['status'] != 200:
        return not px_diff(obs['px'], exp['full'], tol_of(nsrc)), False, 'the model of the code answers %s, the service a picture' % exp['status']
    dfull = px_diff(obs['px'], exp['full'], tol_of(nsrc))
    dout = px_diff(obs['px'], exp['out'])
    ups_ok = obs['ups'] == exp['ups']
    notes = list(obs['notes'])
    if dfull:
        r = sorted(dfull)[0]
        notes.append('region %s: answered %s, full composition %s' % ((r,) + tuple(dfull[r])) if r != 'regions'
                     else 'regions %s instead of %s' % dfull[r])
    if dout:
        r = sorted(dout)[0]
        notes.append('region %s: answered %s, model of the code %s' % ((r,) + tuple(dout[r])) if r != 'regions'
                     else 'regions %s instead of %s' % dout[r])
    if not ups_ok:
        notes.append('upstream requests %s, model of the code %s' % (
            [(','.join(u['ls']), u['tr'], u['sub']) for u in obs['ups']], [(','.join(u['ls']), u['tr'], u['sub']) for u in exp['ups']]))
    return (not dfull and obs['flat']), (not dout and ups_ok and obs['flat'] and not obs['notes']), '; '.join(notes)


NOTE_OF = {'fastpath_opacity': 'fast_faded', 'blend_alpha': 'blend', 'combine_clip': 'combine_mixed_clip',
           'opaque_zero': 'prune_invisible', 'combine_range': 'combine_out_of_range', 'clip_bbox': 'crash_clip_bbox',
           'combine_ssrs': 'crash_combine_ssrs', 'dup_first': 'dup_first'}


def describe(names, o):
    return 'LAYERS=%s TRANSPARENT=%s BGCOLOR=%02x%02x%02x window=%s res=%s' % (
        ','.join(names), str(o['tr']).lower(), o['bg'][0], o['bg'][1], o['bg'][2], '+'.join(o['zones']), o['res'])


# ---------------------------------------------------------------------------------------------
# calibration: which of the known deviations does the code under test have
# ---------------------------------------------------------------------------------------------
def witnesses(world):
    z = list(all_zones(world))
    green = (0, 160, 80)
    if world.cov_type == 'bbox':
        w = [('clip_bbox', ['o_n_c'], mk_opt(True, green, z, 'fine'), 'status')]
    else:
        w = [('fastpath_opacity', ['o_50_x'], mk_opt(False, green, z, 'fine'), 'px'),
             ('blend_alpha', ['o_n_x', 'r_50_x'], mk_opt(False, green, z, 'fine'), 'px'),
             ('combine_clip', ['o_n_c', 'o_n_u2'], mk_opt(True, green, z, 'fine'), 'ups'),
             ('opaque_zero', ['o_n_x', 'o_0_x'], mk_opt(True, green, z, 'fine'), 'ups'),
             ('combine_range', ['ms1'], mk_opt(True, green, z, 'coarse'), 'ups'),
             ('combine_ssrs', ['r_n_x', 'r_n_xs'], mk_opt(True, green, z, 'fine'), 'status'),
             # a layer named twice: drawn below AND above the layer between (LAYERS=a,b,a)
             ('dup_first', ['r_n_x', 'r_50_x', 'r_n_x'], mk_opt(True, green, z, 'fine'), 'ups')]
    return [x for x in w if all(n in world.layers for n in x[1])]


def calibrate(ctx, world, base):
    """-> the deviations (of those witnessed in this world) that the code under test has"""
    ws = witnesses(world)
    cases = [(n, o) for _, n, o, _ in ws]
    tab_fixed = expected_table(ctx, 'cal-fixed-' + world.name, world, cases, [])
    tab_found = expected_table(ctx, 'cal-found-' + world.name, world, cases, KNOWN_DEFECTS)
    obs = run_real(world, cases, base, procs=1)
    defects = []
    for (d, names, o, field), ef, ed, ob in zip(ws, tab_fixed, tab_found, obs):
        if field == 'ups':
            as_fixed, as_found = ob['ups'] == ef['ups'], ob['ups'] == ed['ups']
        elif field == 'status':
            as_fixed, as_found = ob['status'] == ef['status'], ob['status'] == ed['status']
        else:
            as_fixed = bool(ob['px']) and not px_diff(ob['px'], ef['out'])
            as_found = bool(ob['px']) and not px_diff(ob['px'], ed['out'])
        if as_fixed == as_found:
            ctx.log('calibration: witness for %s (%s) matches %s model variant; assuming the repaired behaviour' % (
                d, describe(names, o), 'both' if as_fixed else 'neither'))
        elif as_found:
            defects.append(d)
    return defects


# ---------------------------------------------------------------------------------------------
# spec -> code: the table of expected answers against the real service
# ---------------------------------------------------------------------------------------------
def tables_parallel(ctx, tag, world, cases, defects, parts=8):
    from concurrent.futures import ThreadPoolExecutor
    if len(cases) < 2000:
        return expected_table(ctx, tag, world, cases, defects)
    n = (len(cases) + parts - 1) // parts
    chunks = [cases[i:i + n] for i in range(0, len(cases), n)]
    with ThreadPoolExecutor(len(chunks)) as ex:
        res = list(ex.map(lambda a: expected_table(ctx, '%s-%d' % (tag, a[0]), world, a[1], defects), enumerate(chunks)))
    return [x for t in res for x in t]


class Findings(object):
    """collects failing cases per cause; reports the smallest one per cause"""

    def __init__(self, ctx, world, defects):
        self.ctx, self.world, self.defects = ctx, world, defects
        self.by_cause = {}

    def add(self, cause, names, o, text, kind='picture', rank=1):
        k = (kind, cause)
        plain = sum({'o': 0, 'r': 1, 'p': 2, 'k': 3}.get(n[0], 4) for n in names)      # prefer the plainest layers as example
        size = (rank, len(names), len(o['zones']), o['res'] != 'fine', plain)
        cur = self.by_cause.get(k)
        if cur is None or size < cur[0]:
            self.by_cause[k] = (size, names, o, text, (cur[4] if cur else 0) + 1)
        else:
            self.by_cause[k] = cur[:4] + (cur[4] + 1,)

    def report(self):
        for (kind, cause), (size, names, o, text, n) in sorted(self.by_cause.items()):
            self.ctx.violation({'kind': kind, 'cause': cause},
                               '%s: %s [%s] (%d cases of this kind; smallest shown)' % (cause, describe(names, o), text, n),
                               {'world': self.world.to_json(), 'names': names, 'o': o, 'defects': self.defects})


def attribute(defects, failing, findings):
    """failing: [(names, o, exp, text)] - cases where the real answer differs from Full and equals the model of the
    code.  The deviations responsible are those whose branch the model took for the case (notes in exp['path']);
    a case is counted under every such deviation, cases with a single candidate are preferred as the example."""
    for names, o, exp, text in failing:
        cands = [d for d in defects if NOTE_OF[d] in exp['path']]
        for d in cands:
            findings.add(d, names, o, text, rank=len(cands))
        if not cands:
            findings.add('unattributed', names, o, text)


def compare_cases(ctx, tag, world, defects, cases, tab, obs, findings):
    failing = []
    nbad = 0
    for (names, o), exp, ob in zip(cases, tab, obs):
        ctx.count((tag, tuple(names), opt_key(o)))
        nsrc = sum(len(world.layers[n]['srcs']) for n in names)
        prop_ok, bind_ok, text = judge(ob, exp, nsrc)
        if prop_ok and bind_ok:
            continue
        if not prop_ok and bind_ok and exp['ok'] and not px_diff(ob['px'], exp['full'], tol_of(nsrc) + 1):
            # the model is Full within the tolerance, the answer is the model within the tolerance, but the sum exceeds it
            ctx.notes.append('rounding edge (answer within %d/255 of the full composition): %s' % (tol_of(nsrc) + 1, describe(names, o)))
            continue
        nbad += 1
        if not prop_ok and bind_ok:
            failing.append((names, o, exp, text))
        elif not prop_ok:
            shortcut = ([k for k in ('prune', 'combine', 'fast', 'sub', 'blank', 'skip') if k in exp['path']] + ['plain merge'])[0]
            findings.add('answer differs from the full composition and from the model of the code (first shortcut on the '
                         'model path: %s)' % shortcut, names, o, text)
        else:
            what = 'upstream-log' if ob['ups'] != exp['ups'] else 'picture'
            findings.add('answer is the full composition but not what the model of the code says (%s)' % what, names, o, text,
                         kind='model-divergence')
    attribute(defects, failing, findings)
    return nbad


# ---------------------------------------------------------------------------------------------
# code -> spec: random worlds, recorded requests, trace validation
# ---------------------------------------------------------------------------------------------
def random_world(rng, k, tier):
    cov_type = 'polygon' if k % 4 != 3 else 'bbox'
    nsrc = rng.randint(8, 12)
    ops = [NONE, NONE, NONE, 0, 25, 50, 75, 100]
    srcs = []
    for i in range(nsrc):
        kind = rng.choice(['opq', 'opq', 'rgba', 'rgba', 'pal', 'key'])
        cov = rng.choice(['none', 'none', 'P', 'P'])
        col = (rng.randrange(0, 221), rng.randrange(0, 221), rng.randrange(0, 221))
        srcs.append(mk_source('s%d' % i, kind, rng.choice(ops), cov, cov != 'none' and rng.random() < 0.5,
                              rng.choice([URL1, URL1, URL2]), rng.choice(['all', 'all', 'all', 'fine']), col,
                              ssrs=rng.random() < 0.15))
    layers = {}
    pool = list(srcs)
    rng.shuffle(pool)
    n = 0
    while pool:
        m = 1 if rng.random() < 0.7 else rng.randint(2, 3)
        mine, pool = pool[:m], pool[m:]
        name = 'L%d' % n
        n += 1
        layers[name] = {'name': name, 'srcs': mine, 'rng': 'fine' if rng.random() < 0.15 else 'none'}
    return World('random-%d' % k, layers, cov_type)


def random_requests(rng, world, n):
    names = sorted(world.layers)
    wins = sorted(world.windows)
    cases = []
    for _ in range(n):
        k = min(len(names), rng.choice([1, 1, 2, 2, 3, 3, 4, 5, 6]))
        st = rng.sample(names, k)
        tr = rng.random() < 0.5
        bg = rng.choice([(255, 255, 255), (0, 0, 0), (rng.randrange(256), rng.randrange(256), rng.randrange(256))])
        cases.append((st, mk_opt(tr, bg, rng.choice(wins), rng.choice(['fine', 'fine', 'coarse']))))
    return cases


def validate_trace(ctx, tag, events, defects, boxcov, timeout=1500):
    d = ctx.sub('trace-' + tag)
    tf = os.path.join(d, 'batch.json')
    with open(tf, 'w') as f:
        json.dump(events, f)
    c = dict(Cat={'unused': 0}, Reduced=set(), ShallowLen=0, MaxStack=8, Opts=set(), AllZones=set(), BoxCov=boxcov,
             Defects=set(defects), Tol=TOL)
    mp, cp = tlc.write_mc(d, 'Trace_Compose', 'MC_Trace', c, spec='TraceSpec', post='TraceAccepted')
    r = tlc.run(mp, cp, d, workers=1, coverage=False, env={'TRACE_FILE': tf}, timeout=timeout, heap='3g')
    acc = tlc.find_prints(r.out, 'accepted')
    bad = tlc.find_prints(r.out, 'obsbadset')
    if not acc or not bad:
        raise tlc.MachineryError('trace validation: no verdict from TLC\n' + r.out[-2000:])
    accepted = set(acc[-1][1])
    obsbad = set(bad[-1][1])
    paths = {}
    for p in tlc.find_prints(r.out, 'obsbad'):
        if len(p) == 3 and isinstance(p[1], int):
            paths[p[1]] = sorted(str(x) for x in p[2])
    return r, accepted, obsbad, paths


def trace_direction(ctx, defects, base, nworlds, nreq, findings_by_world):
    groups = {'polygon': ([], []), 'bbox': ([], [])}
    for k in range(nworlds):
        w = random_world(ctx.rng, k, ctx.tier)
        cases = random_requests(ctx.rng, w, nreq)
        obs = run_real(w, cases, base, procs=1)
        events, meta = groups[w.cov_type]
        for (names, o), ob in zip(cases, obs):
            events.append({'stack': [w.layers[n] for n in names], 'o': o,
                           'obs': {'status': ob['status'], 'px': ob['px'], 'flat': ob['flat'] and not ob['notes'], 'ups': ob['ups']}})
            meta.append((w, names, o, ob))
    total = 0
    for cov_type, (events, meta) in sorted(groups.items()):
        if not events:
            continue
        r, accepted, obsbad, paths = validate_trace(ctx, cov_type, events, defects, cov_type == 'bbox')
        ctx.cov['traces_validated_against_impl'] += len(events)
        ctx.cov['states'] += r.distinct
        ctx.cov['transitions'] += r.generated
        nrej = 0
        for i, (w, names, o, ob) in enumerate(meta, 1):
            ctx.count(('trace', w.name, tuple(names), opt_key(o)))
            f = findings_by_world.setdefault(w.name, Findings(ctx, w, defects))
            obs_txt = '; '.join(ob['notes']) or 'picture %s' % {k: tuple(v) for k, v in sorted(ob['px'].items())[:3]}
            if i in obsbad and i in accepted:
                cands = [d for d in defects if NOTE_OF[d] in paths.get(i, [])]
                for d in cands:
                    f.add(d, names, o, 'recorded request violates the property; ' + obs_txt, rank=len(cands))
                if not cands:
                    f.add('unattributed', names, o, 'recorded request violates the property; ' + obs_txt)
            elif i in obsbad:
                nrej += 1
                f.add('recorded answer differs from the full composition and from the model of the code', names, o, obs_txt)
            elif i not in accepted:
                nrej += 1
                f.add('recorded answer is the full composition but not a behaviour of the model of the code', names, o,
                      obs_txt + ' upstream %s' % [(','.join(u['ls']), u['tr'], u['sub']) for u in ob['ups']], kind='model-divergence')
        if cov_type == 'polygon':
            ctx.sample({'kind': 'request recorded from a random world, validated by Trace_Compose',
                        'request': describe(meta[0][1], meta[0][2]), 'upstream': meta[0][3]['ups'],
                        'picture': {k: v for k, v in sorted(meta[0][3]['px'].items())[:3]}})
        ctx.log('trace validation (%s worlds): %d recorded requests, %d accepted, %d violate the property, %d rejected' % (
            cov_type, len(events), len(accepted), len(obsbad), nrej))
        total += len(events)
    return total


# ---------------------------------------------------------------------------------------------
# sanity of the harness itself
# ---------------------------------------------------------------------------------------------
def check_geometry(world):
    """the zone sets that name the windows are what the real coverage classes compute"""
    from mapproxy.srs import SRS
    from mapproxy.util.coverage import coverage
    if world.cov_type == 'polygon':
        import shapely.geometry
        cov = coverage(shapely.geometry.Polygon([(0, 0), (80, 0), (80, 40), (40, 40), (40, 80), (0, 80)]), SRS(3857))
    else:
        cov = coverage([0, 0, 80, 80], SRS(3857))
    for zones, bbox in world.windows.items():
        facts = (cov.contains(bbox, SRS(3857)), cov.intersects(bbox, SRS(3857)), cov.extent.contains(
            __import__('mapproxy.layer', fromlist=['MapExtent']).MapExtent(bbox, SRS(3857))))
        want = (set(zones) == {'in'}, 'in' in zones, 'out' not in zones)
        if facts != want:
            raise tlc.MachineryError('window %s of world %s: coverage contains/intersects/extent-contains = %s, zones say %s' % (
                bbox, world.name, facts, want))
        seen = set()
        for i in range(int(bbox[0]), int(bbox[2])):
            for j in range(int(bbox[1]), int(bbox[3])):
                seen.add(world.zone(i + 0.5, j + 0.5))
        if seen != set(zones):
            raise tlc.MachineryError('window %s of world %s has zones %s, named %s' % (bbox, world.name, sorted(seen), zones))


def check_arithmetic(ctx):
    """Compose!Over8 (= over8 here) is PIL's alpha_composite"""
    from PIL import Image
    bad = 0
    for _ in range(400):
        d = tuple(ctx.rng.randrange(256) for _ in range(4))
        s = tuple(ctx.rng.randrange(256) for _ in range(4))
        r = Image.alpha_composite(Image.new('RGBA', (1, 1), d), Image.new('RGBA', (1, 1), s)).getpixel((0, 0))
        if tuple(r) != over8(d, s):
            bad += 1
    if bad:
        ctx.assumptions.append('alpha_composite of the installed Pillow differs from the transcription in %d of 400 samples '
                               '(covered by the tolerance)' % bad)


# ---------------------------------------------------------------------------------------------
# run / replay
# ---------------------------------------------------------------------------------------------
def exhaustive_world(ctx, world, defects, base, shallow, maxstack, machine_shallow, machine_max, procs):
    """(M) + (R) for one world"""
    opts = opts_for(world, ctx.tier)
    findings = Findings(ctx, world, defects)
    cases = list(enumerate_cases(world, opts, shallow, maxstack))
    # real runs start first (worker processes), the TLC runs go on meanwhile
    mpc = multiprocessing.get_context('fork')
    n = max(20, min(300, len(cases) // (procs * 6) + 1))
    chunks = [cases[i:i + n] for i in range(0, len(cases), n)]
    pool = mpc.Pool(procs, initializer=_worker_init, initargs=(world.to_json(), base))
    try:
        pending = pool.map_async(_worker_run, chunks)
        pool.close()
        # (M) the machine, exhaustively
        r = check_model(ctx, world.name, world, opts, defects, machine_shallow, machine_max,
                        invariants=['TypeOK', 'LogOK'] + ([] if defects else ['PictureOK']))
        ctx.log('Compose %s (Defects=%s, stacks <= %d over %d layers, <= %d over %d): %r' % (
            world.name, sorted(defects), machine_shallow, len(world.layers), machine_max, len(world.reduced), r))
        if r.violated:
            st = r.trace[-1][1]['st'] if r.trace else {}
            raise tlc.MachineryError('Compose.tla %s: invariant %s violated on the model (Defects=%s) for %s %s' % (
                world.name, r.violated, sorted(defects), [str(L['name']) for L in st.get('stack', ())], st.get('o')))
        elif not r.ok:
            raise tlc.MachineryError('Compose.tla %s: %r\n%s' % (world.name, r, r.out[-1500:]))
        else:
            need = list(ACTIONS)
            if 'combine_ssrs' in defects and world.cov_type == 'polygon':
                need.append('CombineRaise')
            if 'clip_bbox' in defects and world.cov_type == 'bbox':
                need.append('MergeRaise')
            vacuity_guard(world.name, r, need)
            nsub = sum(1 for _ in enumerate_cases(world, opts, machine_shallow, machine_max))
            if r.coverage.get('Submit', (0, 0))[0] != nsub:
                raise tlc.MachineryError('TLC submitted %s requests, the harness enumerates %d for the same constants' % (
                    r.coverage.get('Submit'), nsub))
            ctx.add_tlc('Compose/' + world.name, r)
        tab = tables_parallel(ctx, world.name, world, cases, defects)
        obs = [x for ch in pending.get(3000) for x in ch]
        pool.join()
    finally:
        pool.terminate()
    ctx.cov['replayed_behaviours'] += len(cases)
    ctx.cov['replayed_steps'] += sum(len(t['ups']) + len(c[0]) + 2 for c, t in zip(cases, tab))
    model_bad = sum(1 for t in tab if not t['ok'])
    nbad = compare_cases(ctx, world.name, world, defects, cases, tab, obs, findings)
    ctx.log('%s: %d cases requested from the real service; the model of the code violates the property in %d, real answers '
            'deviate (from Full or from the model) in %d' % (world.name, len(cases), model_bad, nbad))
    for c, t, ob in zip(cases, tab, obs):
        if 'combine' in t['path'] and 'prune' in t['path'] and t['ok']:
            ctx.sample({'kind': 'TLC case executed on the real WMS service', 'request': describe(*c), 'model path': t['path'],
                        'upstream (model = real)': t['ups'], 'picture (model)': {k: v for k, v in sorted(t['out'].items())[:3]},
                        'picture (real)': {k: v for k, v in sorted(ob['px'].items())[:3]}})
            break
    findings.report()
    return len(cases)


def sensitivity_of_model(ctx, world):
    """each hypothetical deviation makes PictureOK fail on the model (the invariant is not vacuous)"""
    z = all_zones(world)
    opts = [mk_opt(True, (255, 255, 255), z, 'fine'), mk_opt(False, (0, 160, 80), z, 'fine'), mk_opt(False, (0, 160, 80), ('in',), 'fine')]
    small = World('hyp', world.layers, world.cov_type, ['o_n_x', 'o_50_x', 'o_n_c', 'r_n_x', 'r_n_x2', 'r_50_x'])
    from concurrent.futures import ThreadPoolExecutor

    def one(d):
        return d, check_model(ctx, 'hyp-' + d, small, opts, [d], 0, 3, invariants=['PictureOK'], workers=2, timeout=600)
    with ThreadPoolExecutor(len(HYPOTHETICAL)) as ex:
        for d, r in ex.map(one, HYPOTHETICAL):
            if r.violated != 'PictureOK':
                raise tlc.MachineryError('PictureOK does not fail on the model with the hypothetical deviation %s: %r' % (d, r))


def run(ctx):
    thorough = ctx.tier == 'thorough'
    tlc.sany(SPEC)
    base = ctx.sub('real')
    procs = 12 if thorough else 8
    check_arithmetic(ctx)
    world = base_world(ctx.tier)
    wb = base_world(ctx.tier, 'bbox')
    check_geometry(world)
    check_geometry(wb)
    defects = calibrate(ctx, world, base) + calibrate(ctx, wb, base)
    ctx.log('deviations of the code under test from the repaired model (calibrated on witness requests): %s' % (defects or 'none'))

    # RunOK: the pure step functions (tables, trace spec) and the actions are one transcription; hypothetical deviations
    small = World('runok', world.layers, world.cov_type, world.reduced[:8])
    r = check_model(ctx, 'runok', small, opts_for(world, 'quick')[:8], defects, 1, 2, invariants=['TypeOK', 'RunOK'], workers=4)
    if not r.ok:
        raise tlc.MachineryError('Compose.tla RunOK: %r\n%s' % (r, r.out[-1500:]))
    ctx.add_tlc('Compose/RunOK', r)
    sensitivity_of_model(ctx, world)

    if thorough:
        # all pairs over the catalogue and all triples over the larger reduced catalogue; 4-stacks over a smaller one
        exhaustive_world(ctx, world, defects, base, 2, 3, 2, 3, procs)
        deep = World('base-polygon-deep', world.layers, world.cov_type, world.reduced[:9] + ['r_n_xs'])
        exhaustive_world(ctx, deep, defects, base, 1, 4, 1, 4, procs)
        exhaustive_world(ctx, wb, defects, base, 2, 3, 2, 3, procs)
    else:
        exhaustive_world(ctx, world, defects, base, 2, 3, 1, 3, procs)
        exhaustive_world(ctx, wb, defects, base, 1, 2, 1, 2, procs)

    fbw = {}
    trace_direction(ctx, defects, base, 12 if thorough else 4, 400 if thorough else 150, fbw)
    for f in fbw.values():
        f.report()

    ctx.assumptions += [
        'pictures are flat per region (zone relative to one coverage geometry x content area); anti-aliased edges of the '
        'clip mask (pixels within 1.5 px of a coverage edge) are not compared',
        'PNG output with globals.image.paletted false; palette quantisation and JPEG loss are outside the comparison; '
        'paletted and colour-keyed INPUTS are covered',
        'colour tolerance is %d/255 for opaque pixels and scaled by 255/alpha for translucent ones (8-bit alpha rounding)' % TOL,
        'the synthetic upstream composes several LAYERS bottom-to-top over a transparent or white background',
        'authorisation (limited_to clipping, pruning before authorisation) belongs to C10; no attribution / error images',
        'sources share SRS and format; reprojection and resampling are not part of this check',
    ]
    return ctx.finish('model_checking',
                      'TLC: Compose.tla exhaustively over the catalogue stacks x request options; distinct = distinct (world, '
                      'stack, options) requests executed on the real WMS service and compared with the model and with the '
                      'full composition, plus distinct recorded requests of random worlds validated by Trace_Compose')


def replay(ctx, data):
    case = data.get('case') or {}
    if 'world' not in case:
        print('replay: no case stored')
        return 0
    world = World.from_json(case['world'])
    names, o = case['names'], case['o']
    base = ctx.sub('real')
    ob = run_real(world, [(names, o)], base, procs=1)[0]
    # the model needs the catalogue only through the names of the case
    exp = expected_table(ctx, 'replay', world, [(names, o)], case.get('defects', []))[0]
    prop_ok, bind_ok, text = judge(ob, exp, sum(len(world.layers[n]['srcs']) for n in names))
    print('replay %s on world %s' % (describe(names, o), world.name))
    print('  upstream (real):  %s' % [(','.join(u['ls']), u['tr'], u['sub']) for u in ob['ups']])
    print('  upstream (model): %s' % [(','.join(u['ls']), u['tr'], u['sub']) for u in exp['ups']])
    for r in sorted(exp['full']):
        print('  %-6s real %-22s model %-22s full %s' % (r, tuple(ob['px'].get(r, ())), tuple(exp['out'][r]), tuple(exp['full'][r])))
    print('  property (real = full composition): %s; binding (real = model with Defects=%s): %s  %s' % (
        'holds' if prop_ok else 'VIOLATED', case.get('defects', []), 'ok' if bind_ok else 'diverges', text))
    shutil.rmtree(ctx.workdir, ignore_errors=True)
    return 0 if prop_ok else 1
