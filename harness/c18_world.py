"""C18 world: the real MapProxy WSGI application with every service configured, a synthetic upstream, the
concretisation of abstract request vectors (spec/Dispatch.tla) into WSGI environs, and the projection of a real
response onto the response class of the spec.

Nothing here decides the property; harness/c18.py does."""
import hashlib
import io
import os
import re
from urllib.parse import quote, urlparse, parse_qs

from PIL import Image
from lxml import etree, html as lhtml

# ------------------------------------------------------------------------------------------------------------
# application

TILE = 256


def _png(w, h, color=(10, 200, 30, 255)):
    b = io.BytesIO()
    Image.new('RGBA', (w, h), color).save(b, 'png')
    return b.getvalue()


def _img_response(w, h, fmt):
    if 'jpeg' in (fmt or ''):
        b = io.BytesIO()
        Image.new('RGB', (w, h), (10, 200, 30)).save(b, 'jpeg')
        return _UpstreamResponse(b.getvalue(), 'image/jpeg')
    return _UpstreamResponse(_png(w, h), 'image/png')


class _UpstreamResponse(io.BytesIO):
    def __init__(self, data, ctype):
        io.BytesIO.__init__(self, data)
        self.headers = {'Content-type': ctype, 'Content-length': str(len(data))}
        self.code = 200


def _fake_open(self, url, data=None, method=None):
    q = {k.lower(): v[0] for k, v in parse_qs(urlparse(url).query).items()}
    rq = q.get('request', '').lower()
    if rq in ('getfeatureinfo', 'feature_info'):
        fmt = q.get('info_format', 'text/plain')
        if 'xml' in fmt or 'gml' in fmt:
            return _UpstreamResponse(b'<info><a>1</a></info>', fmt)
        if 'html' in fmt:
            return _UpstreamResponse(b'<html><body><p>info</p></body></html>', fmt)
        if 'json' in fmt:
            return _UpstreamResponse(b'{"a": 1}', fmt)
        return _UpstreamResponse(b'info text', 'text/plain')
    if rq == 'getlegendgraphic' and 'json' in q.get('format', ''):
        return _UpstreamResponse(b'{"Legend": [{"layerName": "x", "title": "X"}]}', 'application/json')
    if rq == 'getlegendgraphic':
        return _img_response(20, 10, q.get('format'))
    try:
        w, h = int(q.get('width', TILE)), int(q.get('height', TILE))
    except ValueError:
        w = h = 0
    if not (0 < w <= 4096 and 0 < h <= 4096):       # what a real WMS does with such a size
        return _UpstreamResponse(b'<?xml version="1.0"?><ServiceExceptionReport version="1.1.1"><ServiceException>'
                                 b'invalid size</ServiceException></ServiceExceptionReport>', 'application/vnd.ogc.se_xml')
    return _img_response(w, h, q.get('format'))


class _FakeUrllib(object):
    """stands in for urllib.request inside mapproxy.service.demo (the demo fetches its own capabilities)"""

    class _R(object):
        def read(self):
            return b'<?xml version="1.0"?>\n<Capabilities version="1"><Layer name="a">&amp;</Layer></Capabilities>'

    def __init__(self):
        self.urls = []

    def urlopen(self, url, *a, **kw):
        self.urls.append(url)
        return self._R()


def app_conf(d):
    return {
        'services': {
            'demo': None, 'kml': None, 'tms': None,
            'wmts': {'kvp': True, 'restful': True,
                     'featureinfo_formats': [{'mimetype': 'text/plain', 'suffix': 'txt'},
                                             {'mimetype': 'text/xml', 'suffix': 'xml'}]},
            'wms': {'srs': ['EPSG:4326', 'EPSG:3857'], 'image_formats': ['image/png', 'image/jpeg'],
                    'md': {'title': 'Verif'}},
        },
        'layers': [
            {'name': 'direct', 'title': 'Direct', 'sources': ['up']},
            {'name': 'cached', 'title': 'Cached', 'sources': ['c_merc']},
            {'name': 'geo', 'title': 'Geo', 'sources': ['c_geo']},
            {'name': 'covered', 'title': 'Covered', 'sources': ['up_cov']},
            # a tile layer whose source covers a square degree only: most of its tiles are empty tiles
            {'name': 'tcov', 'title': 'Tiles, covered', 'sources': ['c_cov']},
        ],
        'caches': {
            'c_merc': {'grids': ['GLOBAL_MERCATOR'], 'sources': ['up'],
                       'cache': {'type': 'file', 'directory': os.path.join(d, 'cm')}},
            'c_geo': {'grids': ['GLOBAL_GEODETIC'], 'sources': ['up'],
                      'cache': {'type': 'file', 'directory': os.path.join(d, 'cg')}},
            'c_cov': {'grids': ['GLOBAL_MERCATOR'], 'sources': ['up_tcov'],
                      'cache': {'type': 'file', 'directory': os.path.join(d, 'cc')}},
        },
        'sources': {
            'up': {'type': 'wms', 'req': {'url': 'http://upstream.invalid/wms', 'layers': 'x'},
                   'wms_opts': {'featureinfo': True, 'legendgraphic': True}},
            'up_tcov': {'type': 'tile', 'url': 'http://upstream.invalid/t/%(z)s/%(x)s/%(y)s.png', 'grid': 'GLOBAL_MERCATOR',
                        'coverage': {'bbox': [0, 0, 1, 1], 'srs': 'EPSG:4326'}},
            'up_cov': {'type': 'wms', 'req': {'url': 'http://upstream.invalid/wms', 'layers': 'y'},
                       'wms_opts': {'featureinfo': True}, 'coverage': {'bbox': [0, 0, 1, 1], 'srs': 'EPSG:4326'}},
        },
        'globals': {'cache': {'base_dir': os.path.join(d, 'cache'), 'lock_dir': os.path.join(d, 'locks'),
                              'tile_lock_dir': os.path.join(d, 'tlocks')},
                    'image': {'paletted': False}},
    }


class World(object):
    def __init__(self, workdir):
        import mapproxy.client.http as H
        import mapproxy.service.demo as demo
        from mapproxy.config.loader import ProxyConfiguration
        from mapproxy.wsgiapp import MapProxyApp
        self.dir = workdir
        self._H, self._demo = H, demo
        self._orig_open = H.HTTPClient.open
        self._orig_urllib = demo.urllib2
        H.HTTPClient.open = _fake_open
        self.urllib = _FakeUrllib()
        demo.urllib2 = self.urllib
        pc = ProxyConfiguration(app_conf(workdir), conf_base_dir=workdir, seed=False, renderd=False)
        self.app = MapProxyApp(pc.configured_services(), pc.base_config)
        self.leak_needles = self._leak_needles()
        # fill the tile caches: whether a tile is already cached is not part of the request classes
        for path in ('/tms/1.0.0/cached/EPSG900913/1/1/0.png', '/tiles/cached/EPSG900913/1/1/0.png',
                     '/kml/cached/EPSG900913/1/1/0.png', '/wmts/cached/GLOBAL_MERCATOR/1/1/0.png',
                     '/wmts/cached/GLOBAL_MERCATOR/1/0/1.png', '/tms/1.0.0/cached/EPSG900913/1/0/1.png'):
            self.call(path, [], {})
        self.call('/service', 'SERVICE=WMTS&REQUEST=GetTile&VERSION=1.0.0&LAYER=cached&STYLE=default&TILEMATRIXSET=GLOBAL_MERCATOR'
                              '&TILEMATRIX=1&TILEROW=0&TILECOL=1&FORMAT=image/png', {})

    def close(self):
        self._H.HTTPClient.open = self._orig_open
        self._demo.urllib2 = self._orig_urllib

    def clear_legend_cache(self):
        d = os.path.join(self.dir, 'cache', 'legends')
        if os.path.isdir(d):
            for f in os.listdir(d):
                os.unlink(os.path.join(d, f))

    def _leak_needles(self):
        import mapproxy
        import PIL
        n = {os.path.dirname(os.path.abspath(mapproxy.__file__)), os.path.dirname(os.path.abspath(PIL.__file__)),
             os.path.realpath(self.dir), self.dir, os.path.dirname(os.__file__), os.environ.get('VERIF_REPO', '/repo')}
        return sorted(x for x in n if x and len(x) > 3)

    # ---- one request through the WSGI callable -----------------------------------------------------------
    def call(self, path, query, headers, method='GET'):
        """path: PATH_INFO as a server would pass it (latin-1 str); query: list of (key, value) str pairs or a raw
        query string; headers: {Name: value}.  Returns the raw outcome dict."""
        if isinstance(query, str):
            qs = query
        else:
            qs = '&'.join('%s=%s' % (quote(k, safe=''), quote(v, safe='')) for k, v in query)
        errors = io.StringIO()
        env = {'REQUEST_METHOD': method, 'SCRIPT_NAME': '', 'PATH_INFO': path, 'QUERY_STRING': qs,
               'SERVER_NAME': 'localhost', 'SERVER_PORT': '80', 'HTTP_HOST': 'localhost',
               'SERVER_PROTOCOL': 'HTTP/1.1', 'wsgi.version': (1, 0), 'wsgi.url_scheme': 'http',
               'wsgi.input': io.BytesIO(b''), 'wsgi.errors': errors, 'wsgi.multithread': False,
               'wsgi.multiprocess': False, 'wsgi.run_once': False}
        # every other request comes from a server that offers wsgi.file_wrapper (PEP 3333: optional; wsgiref, gunicorn,
        # uwsgi, mod_wsgi do) and closes the iterable after sending, as the servers do
        self.ncalls = getattr(self, 'ncalls', 0) + 1
        if self.ncalls % 2 == 0:
            from wsgiref.util import FileWrapper
            env['wsgi.file_wrapper'] = FileWrapper
        # every third request comes through a gateway that leaves out CGI variables whose value is empty (PEP 3333:
        # SCRIPT_NAME "may be omitted" then) - the application is mounted at the root
        if self.ncalls % 3 == 0:
            del env['SCRIPT_NAME']
        for k, v in headers.items():
            env['HTTP_' + k.upper().replace('-', '_')] = v
        out = {'path': path, 'qs': qs, 'headers_in': dict(headers)}
        started = []

        def start_response(status, hdrs, exc_info=None):
            started.append((status, hdrs))
            return lambda data: None

        try:
            it = self.app(env, start_response)
            try:
                chunks = list(it)
            finally:
                if hasattr(it, 'close'):
                    it.close()
        except Exception as ex:  # the property: the application must not raise
            out['raised'] = '%s: %s' % (type(ex).__name__, str(ex)[:200])
            return out
        out['raised'] = None
        out['started'] = len(started)
        out['status'], out['headers'] = started[-1] if started else (None, [])
        out['chunks'] = chunks
        out['log'] = errors.getvalue()
        return out

    def call_overlapped(self, paths):
        """several GET requests answered by the application before the first body is read (a threaded server does that):
        -> raw outcomes in the order of `paths`"""
        pending = []
        for path in paths:
            env = {'REQUEST_METHOD': 'GET', 'SCRIPT_NAME': '', 'PATH_INFO': path, 'QUERY_STRING': '',
                   'SERVER_NAME': 'localhost', 'SERVER_PORT': '80', 'HTTP_HOST': 'localhost',
                   'SERVER_PROTOCOL': 'HTTP/1.1', 'wsgi.version': (1, 0), 'wsgi.url_scheme': 'http',
                   'wsgi.input': io.BytesIO(b''), 'wsgi.errors': io.StringIO(), 'wsgi.multithread': True,
                   'wsgi.multiprocess': False, 'wsgi.run_once': False}
            out = {'path': path, 'qs': '', 'headers_in': {}, 'raised': None, 'log': ''}
            started = []
            try:
                it = self.app(env, lambda status, hdrs, exc_info=None, started=started: started.append((status, hdrs)) or (lambda d: None))
            except Exception as ex:
                out['raised'] = '%s: %s' % (type(ex).__name__, str(ex)[:200])
                it = None
            pending.append((out, started, it))
        outs = []
        for out, started, it in pending:
            if it is not None:
                try:
                    try:
                        out['chunks'] = list(it)
                    finally:
                        if hasattr(it, 'close'):
                            it.close()
                except Exception as ex:
                    out['raised'] = '%s: %s' % (type(ex).__name__, str(ex)[:200])
                out['started'] = len(started)
                out['status'], out['headers'] = started[-1] if started else (None, [])
            outs.append(out)
        return outs


# ------------------------------------------------------------------------------------------------------------
# projection of a raw outcome onto the response class of the spec

_TOKEN_RE = re.compile(r'^[!#$%&\'*+\-.^_`|~0-9A-Za-z]+$')
_STATUS_RE = re.compile(r'^(\d{3}) [\x20-\x7e]+$')
_CTRL_RE = re.compile(r'[\x00-\x08\x0a-\x1f\x7f]')

XML_TYPES = ('text/xml', 'application/xml', 'application/vnd.ogc.se_xml', 'application/vnd.ogc.wms_xml',
             'application/vnd.ogc.gml', 'application/vnd.google-earth.kml+xml')


def _local(tag):
    if not isinstance(tag, str):
        return '#' + getattr(tag, '__name__', 'node')
    return tag.rsplit('}', 1)[-1]


def _struct(el):
    """element structure without any text or attribute value"""
    return (str(el.tag) if isinstance(el.tag, str) else _local(el.tag), tuple(sorted(el.attrib.keys())),
            tuple(_struct(c) for c in el))


def _struct_hash(el):
    return hashlib.sha1(repr(_struct(el)).encode('utf8', 'replace')).hexdigest()[:12]


def _xml_skeleton(root):
    """name of the document kind (the spec's skeleton id) and exception code"""
    name = _local(root.tag)
    code = 'none'
    if name == 'WMTException':
        return 'wms100exc', code
    if name == 'ServiceExceptionReport':
        se = [c for c in root if _local(c.tag) == 'ServiceException']
        if len(se) == 1 and se[0].get('code') is not None:
            code = se[0].get('code')
        return {'1.1.0': 'wms110exc', '1.1.1': 'wms111exc', '1.3.0': 'wms130exc'}.get(root.get('version'), 'wmsexc?'), code
    if name == 'ExceptionReport':
        ex = [c for c in root if _local(c.tag) == 'Exception']
        kind = 'wmtsexc'
        if len(ex) == 1:
            if ex[0].get('exceptionCode') is not None:
                code = ex[0].get('exceptionCode')
            if ex[0].get('locator') is not None:
                kind = 'owsexc'
        return kind, code
    if name == 'TileMapServerError':
        return 'tmsexc', code
    if name == 'WMT_MS_Capabilities':
        return 'wmscaps' + (root.get('version') or '?').replace('.', ''), code
    if name == 'WMS_Capabilities':
        return 'wmscaps130', code
    if name == 'Capabilities':
        return 'wmtscaps', code
    if name == 'Services':
        return 'tmsroot', code
    if name == 'TileMapService':
        return 'tmscaps', code
    if name == 'TileMap':
        return 'tmslayer', code
    if name == 'kml':
        return 'kml', code
    if name == 'info':
        return 'upstreaminfo', code
    return 'xml:' + name, code


def _header_problems(status, headers):
    bad = []
    if not isinstance(status, str) or not _STATUS_RE.match(status):
        bad.append('status line %r' % (status,))
    if not isinstance(headers, list):
        bad.append('headers is %s' % type(headers).__name__)
        return bad
    for h in headers:
        if not (isinstance(h, tuple) and len(h) == 2 and type(h[0]) is str and type(h[1]) is str):
            bad.append('header %r is not a (str, str) tuple' % (h,))
            continue
        k, v = h
        if not _TOKEN_RE.match(k):
            bad.append('header name %r' % k)
        if _CTRL_RE.search(v):
            bad.append('control character in %s: %r' % (k, v[:80]))
        try:
            v.encode('latin-1')
        except UnicodeEncodeError:
            bad.append('%s value is not latin-1: %r' % (k, v[:80]))
    return bad


def _find_echo(needles, where, text, echo):
    low = text.lower()
    for src, tok in needles.items():
        if tok in low:
            echo.add((src, where))


def _verbatim(s, text):
    """s occurs in text as it was sent (an occurrence that ends in '&amp;' is the escaped form of a final '&')"""
    for cand in (s, s.lower()):
        i = text.find(cand)
        while i >= 0:
            if not (cand.endswith('&') and text.startswith('amp;', i + len(cand))):
                return True
            i = text.find(cand, i + 1)
    return False


_MAGIC = ((b'\x89PNG\r\n\x1a\n', 'png'), (b'\xff\xd8\xff', 'jpeg'), (b'GIF87a', 'gif'), (b'GIF89a', 'gif'),
          (b'II*\x00', 'tiff'), (b'MM\x00*', 'tiff'))


def _image_magic(body):
    """the image format the first bytes of a body announce, or None"""
    for magic, name in _MAGIC:
        if body.startswith(magic):
            return name
    return None


_TRACE_RE = re.compile(r'Traceback \(most recent call last\)|File "[^"]+", line \d+')


def observe(world, raw, needles, full=None):
    """raw outcome -> observation dict (only strings / ints / lists, JSON-able).

    needles: {param name: token} - where does request-derived text come back?  full: {param name: whole text sent}"""
    o = {'raised': 'no', 'status': 0, 'ctype': 'none', 'kind': 'none', 'w': 0, 'h': 0, 'skel': 'none', 'code': 'none',
         'struct': '', 'echo': [], 'problems': [], 'leak': [], 'markup': []}
    if raw.get('raised'):
        o['raised'] = 'yes'
        o['problems'].append('application raised ' + raw['raised'])
        return o
    if raw['started'] != 1:
        o['problems'].append('start_response called %d times' % raw['started'])
        if not raw['started']:
            return o
    status, headers, chunks = raw['status'], raw['headers'], raw['chunks']
    o['problems'] += _header_problems(status, headers)
    m = _STATUS_RE.match(status) if isinstance(status, str) else None
    o['status'] = int(m.group(1)) if m else 0
    if any(not isinstance(c, bytes) for c in chunks):
        o['problems'].append('body chunk is not bytes')
        chunks = [c if isinstance(c, bytes) else str(c).encode('utf8', 'replace') for c in chunks]
    body = b''.join(chunks)
    hd = {}
    if isinstance(headers, list):
        for h in headers:
            if isinstance(h, tuple) and len(h) == 2:
                hd.setdefault(str(h[0]).lower(), []).append(str(h[1]))
    for k, vs in hd.items():
        if len(vs) > 1 and k in ('content-type', 'content-length', 'location', 'etag'):
            o['problems'].append('header %s sent %d times' % (k, len(vs)))
    if 'content-length' in hd:
        if not hd['content-length'][0].isdigit() or int(hd['content-length'][0]) != len(body):
            o['problems'].append('Content-length %r but body has %d bytes' % (hd['content-length'][0], len(body)))
    echo = set()
    for k, vs in hd.items():
        for v in vs:
            _find_echo(needles, 'header', v, echo)
    ctype = hd.get('content-type', ['none'])[0]
    o['ctype'] = ctype
    base = ctype.split(';', 1)[0].strip().lower()
    text = None
    if base.startswith('text/') or base in XML_TYPES or base == 'application/json':
        try:
            text = body.decode('utf-8')
        except UnicodeDecodeError:
            o['problems'].append('body of %s is not utf-8' % base)
            text = body.decode('utf-8', 'replace')
    if o['status'] in (204, 304) or (not body and not base.startswith('image/')):
        o['kind'] = 'empty'
        if body:
            o['problems'].append('status %d with a body' % o['status'])
    elif base.startswith('image/'):
        o['kind'] = 'image'
        try:
            im = Image.open(io.BytesIO(body))
            im.load()
            o['w'], o['h'] = im.size
            fmt = (im.format or '').lower()
            sub = base.split('/', 1)[1]
            if {'jpg': 'jpeg'}.get(sub, sub) != fmt:
                o['problems'].append('declared %s but the bytes are %s' % (base, fmt))
        except Exception as ex:
            o['problems'].append('image does not decode: %s' % str(ex)[:80])
    elif base in XML_TYPES:
        o['kind'] = 'xml'
        if not body:
            o['kind'] = 'empty'
        else:
            try:
                parser = etree.XMLParser(resolve_entities=False, no_network=True, load_dtd=False, huge_tree=True)
                root = etree.fromstring(body, parser)
                o['skel'], o['code'] = _xml_skeleton(root)
                o['struct'] = _struct_hash(root)
                for el in root.iter():
                    if not isinstance(el.tag, str):
                        _find_echo(needles, 'comment', el.text or '', echo)
                        continue
                    _find_echo(needles, 'chardata', (el.text or '') + ' ' + (el.tail or ''), echo)
                    for an, av in el.attrib.items():
                        _find_echo(needles, 'attr', av, echo)
                        _find_echo(needles, 'markup', an, echo)
                    _find_echo(needles, 'markup', el.tag, echo)
            except etree.XMLSyntaxError as ex:
                o['skel'] = 'unparseable'
                o['markup'].append('XML document is not well-formed: %s' % str(ex)[:100])
    elif base == 'text/html':
        o['kind'] = 'html'
        if not body:
            o['kind'] = 'empty'
        else:
            try:
                root = lhtml.document_fromstring(body)
                o['skel'] = 'html'
                o['struct'] = _struct_hash(root)
                for el in root.iter():
                    if not isinstance(el.tag, str):
                        continue
                    where = 'script' if el.tag in ('script', 'style') else 'chardata'
                    _find_echo(needles, where, el.text or '', echo)
                    if where == 'script':
                        # request text inside a script is inside a string literal: a backslash there escapes what follows it
                        # (a value that ends in one swallows the closing quote)
                        for src, sv in sorted((full or {}).items()):
                            if '\\' in sv and len(sv) > 4 and sv in (el.text or ''):
                                o['markup'].append('the text of %s is in a script with its backslash unescaped' % src)
                    _find_echo(needles, 'chardata', el.tail or '', echo)
                    for an, av in el.attrib.items():
                        _find_echo(needles, 'attr', av, echo)
                        _find_echo(needles, 'markup', an, echo)
                    _find_echo(needles, 'markup', el.tag, echo)
            except Exception as ex:
                o['skel'] = 'unparseable'
                o['markup'].append('HTML document does not parse: %s' % str(ex)[:100])
    elif base.startswith('text/') or base == 'application/json':
        o['kind'] = 'text' if body else 'empty'
        _find_echo(needles, 'plain', text or '', echo)
    elif _image_magic(body):
        # the body is an image and Content-type does not say so (e.g. 'PNG'): still an image response of the spec
        o['kind'] = 'image'
        try:
            im = Image.open(io.BytesIO(body))
            im.load()
            o['w'], o['h'] = im.size
        except Exception as ex:
            o['problems'].append('image does not decode: %s' % str(ex)[:80])
        o['problems'].append('Content-type %r of %s image bytes is not an image media type (type/subtype)' % (
            ctype[:60], _image_magic(body)))
    elif base == 'none':
        o['kind'] = 'other'
        o['problems'].append('body without a Content-type')
    else:
        o['kind'] = 'other'
    for pos in sorted(p for s, p in echo if p in ('markup', 'comment')):
        o['markup'].append('request text reached a %s position' % pos)
    if o['kind'] in ('xml', 'html') and text is not None:
        for src, s in sorted((full or {}).items()):
            if ('<' in s or '&' in s) and len(s) > 8 and _verbatim(s, text):
                o['markup'].append('the text of %s is in the document unescaped' % src)
    # leaks: tracebacks and server paths in anything sent to the client
    sent = (text if text is not None else '') + '\n' + '\n'.join('%s: %s' % (k, v) for k, vs in hd.items() for v in vs)
    if _TRACE_RE.search(sent):
        o['leak'].append('traceback')
    for n in world.leak_needles:
        if n in sent:
            o['leak'].append('server path ' + n)
    o['echo'] = sorted([s, p] for s, p in echo)
    return o


_XML_ILLEGAL = re.compile('[\x00-\x08\x0b\x0c\x0e-\x1f\ufffe\uffff]')


def xml_without_illegal_chars(raw):
    """(skeleton, code, structure hash) of an XML body once the characters XML 1.0 cannot carry are dropped, or None"""
    try:
        text = b''.join(raw.get('chunks') or []).decode('utf-8')
        cleaned = _XML_ILLEGAL.sub('', text).replace('\r', '')
        parser = etree.XMLParser(resolve_entities=False, no_network=True, load_dtd=False, huge_tree=True)
        root = etree.fromstring(cleaned.encode('utf-8'), parser)
        skel, code = _xml_skeleton(root)
        return skel, code, _struct_hash(root)
    except Exception:
        return None


# ------------------------------------------------------------------------------------------------------------
# concretisation of abstract request vectors

# request text by class; every string is prefixed with a lower-case token that identifies the parameter it was put in
POOL = {
    # markup-significant, printable, latin-1 only
    'hostile': ['<b>&"\'>', '"><inj a="1', '\'><inj a=\'1', ']]><x y="1">', '<![CDATA[<s>]]>', '--><!-- x',
                '<script>alert(1)</script>', '&lt;&#60;&amp;amp;', '{{7*7}}${x}%(y)s%s', '\\', ' onx="1" ', '<' * 40,
                'a' * 3000 + '<z>', '%00%3c%0d%0a', '\xe4\xf6\xfc\xdf\xa0<\xff>', '</ServiceException><x/>',
                '<?xml version="1.0"?><!DOCTYPE x [<!ENTITY e SYSTEM "file:///etc/passwd">]><x>&e;</x>',
                # long and dense: whatever shortens or wraps a message must not cut through an escape sequence
                '&<>"\'' * 400, ('x' * 97 + '&"<') * 30, '&' * 1500],
    # not latin-1
    'unicode': ['\u20ac<b>', '\u4e2d\u6587"\'>', '\U0001f600<x>', '\u202e<gnp.', '\u0100&\u017f', '\u2028\u2029<s>'],
    # control characters, line breaks, non-characters
    'ctrl': ['\x00<', '\x01\x0b\x1f&', '\r\nX-Injected: 1', '\n\n<html>', '\ufffe\uffff>', '\x7f\x08"', '\x0c<x>'],
    # what a server can deliver in a header field: visible ASCII - and the control characters that some servers pass through
    # in a field value (nginx: all but NUL, CR, LF)
    'hdr_hostile': ['\x01<a>\x1f', 'x\x0b&\x0cy', '\x7f"\x08<', '<b>&"\'>', '"><inj a="1', '\'><inj a=\'1', ']]><x y="1">', '--><!-- x', '<script>alert(1)</script>',
                    '&lt;&#60;&amp;amp;', '{{7*7}}${x}%(y)s', ' onx="1" ', '<' * 40, 'a' * 3000 + '<z>', '%00%3c%0d%0a',
                    '</ServiceException><x/>', '"/><Layer><Name>x</Name></Layer><a b="'],
    # ... and bytes above 0x7f
    'latin1': ['\xe4\xf6\xfc<\xff>', '\xe2\x82\xac"\'>', '\x80\x9f<x>', '\xa0&\xad'],
}
MALFORMED_NUMBERS = ['abc', '', ' ', '0x10', '1.5.3', '+-1', '--1', '1e', 'NaN(1)', '1,5', '12px', '\u221e']
NONFINITE = ['nan', 'inf', '-inf', '1e400', '-1e400', 'Infinity']

BENIGN = 'zq'


class Strings(object):
    """chooses the concrete text for the text classes of one request; mode 'benign' replaces every hostile text
    by a harmless token of the same class of behaviour (the reference for the skeleton comparison)"""

    def __init__(self, rng, mode):
        self.rng, self.mode = rng, mode     # mode: 'benign' | 'hostile'
        self.needles = {}
        self.full = {}                      # param -> the whole text sent
        self.n = 0

    def token(self, param):
        self.n += 1
        tok = 'tk%dq%s' % (self.n, re.sub(r'[^a-z0-9]', '', param.lower()))
        self.needles[param] = tok
        return tok

    def text(self, param, cls, where='query'):
        tok = self.token(param)
        if self.mode == 'benign':
            s = tok + BENIGN + ('~' if where == 'path' else '') + ('\xe9' if cls == 'latin1' else '')
        else:
            pool = POOL['hdr_hostile'] if (where == 'header' and cls == 'hostile') else POOL[cls]
            s = tok + self.rng.choice(pool)
        self.full[param] = s
        return s

    def number(self, param):
        if self.mode == 'benign':
            return 'abc'
        if self.rng.random() < 0.7:
            return self.rng.choice(MALFORMED_NUMBERS)
        return self.token(param) + self.rng.choice(POOL['hostile'])

    def nonfinite(self):
        return 'nan' if self.mode == 'benign' else self.rng.choice(NONFINITE)


TEXT = ('hostile', 'unicode', 'ctrl')


def _path_text(s):
    """text inside PATH_INFO as a WSGI server passes it: bytes seen as latin-1, no '/'"""
    s = s.replace('/', '\\')
    try:
        s.encode('latin-1')
        return s
    except UnicodeEncodeError:
        return s.encode('utf-8').decode('latin-1')


WMS_VERSIONS = {'v100': '1.0.0', 'v110': '1.1.0', 'v111': '1.1.1', 'v130': '1.3.0', 'low': '0.5.0', 'mid': '1.2.0',
                'high': '2.0.0'}
REQ_W, REQ_H = 40, 30
# format names without 'image/': PNG and JPEG are what WMS 1.0.0 clients send (WMS100MapRequest.validate_format maps the
# upper-case names of the configured formats to their mime types); png: lower case; GIF: a format the service does not offer
BARE_FORMATS = {'bare_png': 'PNG', 'bare_jpeg': 'JPEG', 'bare_lower': 'png', 'bare_gif': 'GIF'}


class Unknown(Exception):
    pass


def concretise(op, p, st):
    """(op, {param: class}) -> path, [(key, value)], {header: value}.  st: Strings."""
    q, hdr = [], {}
    g = p.get

    def add(key, name, table):
        c = g(name)
        if c is None or c == 'absent':
            return
        if c in table:
            v = table[c]
            for x in (v if isinstance(v, (list, tuple)) else [v]):
                q.append((key, x))
        elif c in TEXT:
            q.append((key, st.text(name, c)))
        elif c == 'malformed':
            q.append((key, st.number(name)))
        elif c == 'nonfinite':
            q.append((key, st.nonfinite()))
        elif c == 'empty':
            q.append((key, ''))
        else:
            raise Unknown('%s: class %r of %s' % (op, c, name))

    # headers (all operations)
    for name, header, valid in (('h_host', 'X-Forwarded-Host', 'maps.example.org'),
                                ('h_proto', 'X-Forwarded-Proto', 'https'),
                                ('h_script', 'X-Script-Name', '/proxy')):
        c = g(name, 'absent')
        if c == 'valid':
            hdr[header] = valid
        elif c in ('hostile', 'latin1'):
            v = st.text(name, c, 'header')
            hdr[header] = ('/' + v) if name == 'h_script' else v
        elif c != 'absent':
            raise Unknown('%s: class %r of %s' % (op, c, name))
    # the Host header itself is outside the model (no class of the specification depends on it): any legal or junk value
    # may come along - IPv6 literals and values with several colons included
    if st.mode != 'benign' and st.rng.random() < 0.35:
        # (not ':80' / ':443': MapProxy strips the default port, the host is empty then and the demo refuses to fetch its
        # own capabilities from 'http:/...' with a plain 400 - a complete answer, but one that depends on this header)
        hdr['Host'] = st.rng.choice(['localhost:8080', '[::1]', '[::1]:8080', '[2001:db8::1]:80', 'a:b:c', 'localhost:', ':8080',
                                     'example.org:443', '[fe80::1%25eth0]:80'])
    for name, header in (('h_inm', 'If-None-Match'), ('h_ims', 'If-Modified-Since')):
        c = g(name, 'absent')
        if c == 'garbage':
            hdr[header] = st.text(name, 'hostile', 'header')
        elif c == 'past':
            hdr[header] = 'Sat, 01 Jan 2000 00:00:00 GMT'
        elif c == 'future':
            hdr[header] = 'Fri, 01 Jan 2099 00:00:00 GMT'
        elif c == 'match':
            hdr[header] = '@etag'      # resolved by the driver with a preliminary request
        elif c != 'absent':
            raise Unknown('%s: class %r of %s' % (op, c, name))

    svc = op.split('_', 1)[0]
    if svc == 'wms':
        path = {'service': '/service', 'ows': '/ows', 'wms': '/wms'}[g('endpoint', 'service')]
        add('SERVICE', 'service', {'valid': 'WMS', 'lower': 'wms', 'dup': ['WMS', 'zzz']})
        ver = g('version')
        v100 = ver in ('v100', 'low')
        v130 = ver in ('v130', 'high', 'absent')
        if ver in WMS_VERSIONS:
            q.append(('WMTVER' if v100 else 'VERSION', WMS_VERSIONS[ver]))
        elif ver == 'malformed':
            q.append(('VERSION', 'abc' if st.mode == 'benign' else st.rng.choice(
                ['1.x', '1..1', 'v1.1.1', '1.1.1a', '', ' ', '1,1,1', '0x1.1.1', st.text('version', 'hostile'),
                 st.text('version', 'ctrl')])))
        elif ver != 'absent':
            raise Unknown('wms version %r' % ver)
        rname = {'wms_map': 'map' if v100 else 'GetMap', 'wms_mapx': 'map' if v100 else 'GetMap',
                 'wms_map100': 'map' if v100 else 'GetMap', 'wms_fi': 'feature_info' if v100 else 'GetFeatureInfo',
                 'wms_caps': 'capabilities' if v100 else 'GetCapabilities', 'wms_legend': 'GetLegendGraphic'}
        if op == 'wms_other':
            add('REQUEST', 'request', {})
        else:
            q.append(('REQUEST', rname[op]))
        if op in ('wms_map', 'wms_mapx', 'wms_map100', 'wms_fi', 'wms_other'):
            add('LAYERS', 'layers', {'valid': 'direct', 'multi': ['direct', 'cached'], 'cachedlayer': 'cached'})
            add('STYLES', 'styles', {'valid': '', 'default': 'default'})
            add('CRS' if v130 else 'SRS', 'srs', {'valid': 'EPSG:3857', 'geo': 'EPSG:4326', 'unconfigured': 'EPSG:25832'})
            bb = g('bbox')
            if bb == 'malformed':
                q.append(('BBOX', '0,0,%s,1000000' % st.number('bbox')))
            elif bb == 'nonfinite':
                q.append(('BBOX', '0,0,%s,1000000' % st.nonfinite()))
            else:
                add('BBOX', 'bbox', {'valid': '0,0,1000000,1000000', 'inverted': '10,10,5,5',
                                     'dup': ['0,0,1000000,1000000', '5,5,1,1'], 'short': '0,0,10'})
            add('WIDTH', 'width', {'valid': str(REQ_W), 'zero': '0', 'negative': '-5', 'float': '%d.7' % REQ_W})
            add('HEIGHT', 'height', {'valid': str(REQ_H), 'zero': '0'})
            fmt = g('format')
            if fmt in ('opt_hostile', 'opt_unicode', 'opt_ctrl'):
                q.append(('FORMAT', 'image/png; ' + st.text('format', fmt[4:])))
            else:
                add('FORMAT', 'format', dict(BARE_FORMATS, png='image/png', jpeg='image/jpeg', gif='image/gif',
                                             dup=['image/png', 'image/jpeg']))
            add('EXCEPTIONS', 'exceptions', {'xml': 'application/vnd.ogc.se_xml' if not v130 else 'XML',
                                             'inimage': 'application/vnd.ogc.se_inimage' if not v130 else 'INIMAGE',
                                             'blank': 'application/vnd.ogc.se_blank' if not v130 else 'BLANK',
                                             'hostile': st.text('exceptions', 'hostile') if g('exceptions') == 'hostile' else ''})
            add('TRANSPARENT', 'transparent', {'true': 'TRUE', 'hostile': st.text('transparent', 'hostile') if g('transparent') == 'hostile' else ''})
            add('BGCOLOR', 'bgcolor', {'valid': '0xff8800', 'hostile': st.text('bgcolor', 'hostile') if g('bgcolor') == 'hostile' else ''})
        if op == 'wms_fi':
            add('QUERY_LAYERS', 'query_layers', {'valid': 'direct', 'cachedlayer': 'cached', 'covered': 'covered'})
            add('I' if v130 else 'X', 'x', {'valid': '3', 'float': '3.5', 'outside': '4000'})
            add('J' if v130 else 'Y', 'y', {'valid': '4'})
            add('INFO_FORMAT', 'info_format', {'text': 'text/plain', 'html': 'text/html', 'xml': 'text/xml',
                                               'gml': 'application/vnd.ogc.gml', 'json': 'application/json'})
            add('FEATURE_COUNT', 'feature_count', {'valid': '5'})
        if op == 'wms_caps':
            add('TILED', 'tiled', {'true': 'true', 'hostile': st.text('tiled', 'hostile') if g('tiled') == 'hostile' else ''})
        if op == 'wms_legend':
            add('LAYER', 'layer', {'valid': 'direct', 'cachedlayer': 'cached'})
            add('FORMAT', 'format', dict(BARE_FORMATS, png='image/png', jpeg='image/jpeg', json='application/json'))
            add('SLD_VERSION', 'sld_version', {'valid': '1.1.0', 'other': '1.0.0'})
            add('SCALE', 'scale', {'valid': '1000'})
            add('EXCEPTIONS', 'exceptions', {'xml': 'XML', 'inimage': 'INIMAGE', 'blank': 'BLANK',
                                             'hostile': st.text('exceptions', 'hostile') if g('exceptions') == 'hostile' else ''})
        return path, q, hdr

    if svc == 'wmts':
        path = '/service'
        add('SERVICE', 'service', {'valid': 'WMTS'})
        add('VERSION', 'version', {'valid': '1.0.0', 'other': '2.0.0'})
        if op == 'wmts_other':
            add('REQUEST', 'request', {'getmap': 'GetMap'})
        else:
            q.append(('REQUEST', {'wmts_tile': 'GetTile', 'wmts_fi': 'GetFeatureInfo', 'wmts_caps': 'GetCapabilities'}[op]))
        if op in ('wmts_tile', 'wmts_fi', 'wmts_other'):
            add('LAYER', 'layer', {'valid': 'cached', 'direct': 'direct'})
            add('STYLE', 'style', {'valid': 'default'})
            add('TILEMATRIXSET', 'tilematrixset', {'valid': 'GLOBAL_MERCATOR', 'othergrid': 'GLOBAL_GEODETIC'})
            add('TILEMATRIX', 'tilematrix', {'valid': '1', 'padded': '01', 'toodeep': '25'})
            add('TILEROW', 'tilerow', {'valid': '0', 'negative': '-1', 'outside': '5'})
            add('TILECOL', 'tilecol', {'valid': '1', 'negative': '-1', 'outside': '5'})
            add('FORMAT', 'format', {'png': 'image/png', 'jpeg': 'image/jpeg', 'short': 'png'})
        if op == 'wmts_fi':
            add('INFOFORMAT', 'infoformat', {'valid': 'text/plain', 'xml': 'text/xml', 'suffix': 'txt',
                                             'unconfigured': 'text/html'})
            add('I', 'i', {'valid': '10', 'outside': '999'})
            add('J', 'j', {'valid': '20'})
        return path, q, hdr

    def seg(name, table):
        c = g(name)
        if c in table:
            return table[c]
        if c in ('hostile', 'ctrl'):
            return _path_text(st.text(name, c, 'path'))
        if c == 'word':            # passes the \w-style patterns of the URL templates
            return st.token(name) + ('zq' if st.mode == 'benign' else '\xe9_.:-Z\xb5')
        raise Unknown('%s: class %r of %s' % (op, c, name))

    coords = {'negative': '-1', 'outside': '7', 'huge': '9' * 30, 'toodeep': '25'}

    def zxy(zv='1', xv='1', yv='0'):
        out = []
        for name, val in (('z', zv), ('x', xv), ('y', yv)):
            c = g(name, 'valid')
            if c == 'valid':
                out.append(val)
            elif c in coords:
                out.append(coords[c])
            else:
                raise Unknown('%s: class %r of %s' % (op, c, name))
        return out

    if svc == 'rest':
        if op == 'rest_caps':
            pre = g('prefix')
            path = '/wmts' + ('' if pre == 'valid' else '/' + seg('prefix', {})) + '/1.0.0/WMTSCapabilities.xml'
            return path, q, hdr
        if op == 'rest_other':
            return '/wmts/' + seg('tail', {'short': 'cached/GLOBAL_MERCATOR/1', 'none': ''}), q, hdr
        z, x, y = zxy()
        parts = [seg('layer', {'valid': 'cached', 'direct': 'direct'}),
                 seg('tilematrixset', {'valid': 'GLOBAL_MERCATOR', 'othergrid': 'GLOBAL_GEODETIC'}), z, x, y]
        if op == 'rest_fi':
            parts += [seg('i', {'valid': '10', 'outside': '999'}), seg('j', {'valid': '20'})]
            ext = seg('infoformat', {'valid': 'txt', 'xml': 'xml', 'unconfigured': 'html'})
        else:
            ext = seg('format', {'png': 'png', 'jpeg': 'jpeg'})
        return '/wmts/' + '/'.join(parts) + '.' + ext, q, hdr

    if svc in ('tms', 'tiles', 'kml'):
        add('origin', 'origin', {'nw': 'nw', 'sw': 'sw', 'hostile': st.text('origin', 'hostile') if g('origin') == 'hostile' else ''})
        if op == 'tms_root':
            return '/tms' + seg('slash', {'valid': '/', 'none': ''}), q, hdr
        if op == 'tms_caps':
            return '/tms/1.0.0' + seg('slash', {'valid': '/', 'none': ''}), q, hdr
        if op == 'tms_layer':
            p_ = '/tms/1.0.0/' + seg('layer', {'valid': 'cached', 'direct': 'direct'})
            if g('spec', 'valid') != 'absent':
                p_ += '/' + seg('spec', {'valid': 'EPSG900913', 'othergrid': 'EPSG4326'})
            return p_, q, hdr
        if op in ('tms_other', 'tiles_other', 'kml_other'):
            return '/' + svc + '/' + seg('tail', {'short': 'cached/1/0', 'nonnumeric': 'cached/a/b/c.png'}), q, hdr
        parts = [seg('layer', {'valid': 'cached', 'direct': 'direct', 'geo': 'geo'})]
        if g('spec', 'valid') != 'absent':
            parts.append(seg('spec', {'valid': 'EPSG900913', 'othergrid': 'EPSG4326'}))
        if op == 'kml_init':
            return '/kml/' + '/'.join(parts) + seg('slash', {'valid': '', 'slash': '/'}), q, hdr
        # KML documents of every level are valid addresses - the last level of the grid (19) included
        # (chosen by the classes of the vector, so that the benign and the hostile rendering of a vector ask for the same
        # document: the last level for vectors without URL headers, whose document has no links that carry them)
        last = op == 'kml_doc' and g('x', 'valid') == 'valid' and g('y', 'valid') == 'valid' and \
            all(g(k, 'absent') == 'absent' for k in ('h_host', 'h_proto', 'h_script'))
        z, x, y = zxy(zv='19') if last else zxy()
        ext = 'kml' if op == 'kml_doc' else seg('format', {'png': 'png', 'jpeg': 'jpeg'})
        pre = {'tms': '/tms/1.0.0/', 'tiles': '/tiles/', 'kml': '/kml/'}[svc]
        if svc == 'tms' and g('tmsversion', 'valid') == 'absent':
            pre = '/tms/'
        return pre + '/'.join(parts + [z, x, y]) + '.' + ext, q, hdr

    if svc == 'demo':
        if op == 'demo_static':
            return '/demo/static/' + seg('file', {'valid': 'site.css', 'missing': 'nosuchfile.css', 'dotdot': '../demo.html',
                                                  'dir': 'img'}), q, hdr
        if op == 'demo_redirect':
            t = g('tail')
            return '/demo' + {'valid': '', 'other': '/x'}.get(t, '') + ('/' + seg('tail', {}) if t in ('hostile', 'ctrl') else ''), q, hdr
        path = '/demo/'
        if op == 'demo_index':
            add('unknown', 'extra', {'hostile': st.text('extra', 'hostile') if g('extra') == 'hostile' else ''})
        elif op in ('demo_wms', 'demo_tms', 'demo_wmts'):
            lk = {'demo_wms': 'wms_layer', 'demo_tms': 'tms_layer', 'demo_wmts': 'wmts_layer'}[op]
            add(lk, 'layer', {'valid': 'direct' if op == 'demo_wms' else 'cached'})
            add('srs', 'srs', {'valid': 'EPSG:3857' if op == 'demo_wms' else 'EPSG:900913'})
            add('format', 'format', {'valid': 'image/png' if op == 'demo_wms' else 'png'})
        elif op == 'demo_caps':
            q.append(({'wms': 'wms_capabilities', 'wmsc': 'wmsc_capabilities', 'wmtskvp': 'wmts_capabilities_kvp',
                       'wmts': 'wmts_capabilities', 'tms': 'tms_capabilities'}[g('which', 'wms')], ''))
            add('type', 'type', {'external': 'external', 'hostile': st.text('type', 'hostile') if g('type') == 'hostile' else ''})
            add('layer', 'layer', {'valid': 'cached'})
            add('srs', 'srs', {'valid': 'EPSG900913'})
        return path, q, hdr

    if op == 'root':
        return seg('path', {'valid': '/', 'empty': ''}), q, hdr
    if op == 'notfound':
        return '/' + (seg('path', {}) if g('path') != 'word' else 'nosuchservice'), q, hdr
    raise Unknown('operation %r' % op)
