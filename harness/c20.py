"""C20 - conditional requests are honoured soundly.

spec/HttpCond.tla models what the tile handlers (TMS, WMTS KVP/REST, KML, WMS-C) answer for a tile of one cache:
validators from the stored timestamp and size, If-None-Match / If-Modified-Since evaluation, and how the
(timestamp, size, cacheable) triple travels from the tile creator to the handler on each creation path
(single tile, meta tile, bulk meta tile).  Three constants describe the code as it is or as it should be
(CopyInfo, ResetStamp, BranchFlavours).

  (M) TLC checks the property on the model of the repaired code exhaustively (small constants) and produces
      counterexamples on the models of the unrepaired code;
  (D) the counterexamples are replayed on the real WSGI application: a reproduced counterexample is a defect
      of the code under test, and tells which model variant describes this tree;
  (R) TLC behaviours (-simulate) of that variant are replayed on the real application (file and sqlite caches,
      three creation paths, five flavours and the merged WMS-C answer) with response and store compared after every step;
  (T) seeded random histories of the real application are validated by TLC against spec/trace/Trace_HttpCond.tla
      and the property is evaluated on every step of every accepted history.
"""
import calendar
import hashlib
import io
import json
import os
import re
import shutil
import tempfile
import threading
import time as _real_time
from email.utils import parsedate
from urllib.parse import urlparse, parse_qs
from wsgiref.handlers import format_date_time

from engine import tlc, tla

SPEC = os.path.join(tlc.SPEC_DIR, 'HttpCond.tla')
TRACE_SPEC = os.path.join(tlc.SPEC_DIR, 'trace', 'Trace_HttpCond.tla')

T0 = 1500000000                      # virtual epoch (2017-07-14 02:40:00 UTC); the clock counts half seconds from here
FLAVOURS = ['tms', 'wmts_kvp', 'wmts_rest', 'kml', 'wmsc']
# a WMS-C request (tiled=true) for two cached layers: the tile under test below the layer 'over' of transparent tiles that
# never change - a merged answer, which has no validators (LayerMerger.merge hands on cacheable or not, never the
# CacheInfo of one layer)
MERGED = 'wmsc2'
ALL_FLAVOURS = FLAVOURS + [MERGED]
HANDLER = {'tms': 'service/tile.py', 'wmts_kvp': 'service/wmts.py', 'wmts_rest': 'service/wmts.py',
           'kml': 'service/kml.py', 'wmsc': 'service/wms.py', 'wmsc2': 'service/wms.py + image/merge.py'}
PATHS = ['single', 'meta', 'bulk', 'merge', 'link']
# 'merge' is a second world for the model path "single": a cache with two sources (an opaque base and a transparent
# overlay) whose images MapProxy merges; on an upstream failure the overlay is the one that answers 500 and is mapped by
# on_error to a fully transparent, uncacheable image - the mark has to survive the merge
# 'link' is a third world for the model path "single" (file cache only): link_single_color_images - a tile of one colour
# is a symbolic link to an image that all tiles of that colour share; that image may be much older than the tile (the
# harness dates it back to long before the run), the validators have to come from the tile's own directory entry
MPATH = {'single': 'single', 'meta': 'meta', 'bulk': 'bulk', 'merge': 'single', 'link': 'single'}
COMBOS = [(b, p) for b in ['file', 'sqlite'] for p in PATHS if not (b == 'sqlite' and p == 'link')]
BACKENDS = ['file', 'sqlite']
# tiles of level 1 of the grid (4 x 4 tiles, north-west origin): t1,t2 share a 2x2 meta tile, t3,t4 the next one
COORD = {'t1': (0, 0, 1), 't2': (1, 0, 1), 't3': (2, 0, 1), 't4': (3, 0, 1)}
META = {'t1': {'t1', 't2'}, 't2': {'t1', 't2'}, 't3': {'t3', 't4'}, 't4': {'t3', 't4'}}
PROPS = ['StatusOK', 'StableValidators', 'BodyCurrent', 'INMCurrent', 'Sound304', 'Uncacheable', 'MergedPlain']

NN, NONE_E, GARB, NOHDR = (-1, -1), (-2, -2), (-3, -3), (-4, -4)
NN_STR = hashlib.md5(b'NoneNone').hexdigest()
GARB_STR = 'verif-never-issued-etag'
MALFORMED = ['garbage', 'Fri, 99 Foo 2017 25:61:61 GMT', '2017-07-14T02:40:01Z', 'Fri, 14 Jul', '']
ANCIENT = ['Fri, 01 Jan 1960 00:00:00 GMT', 'Wed, 31 Dec 1969 23:59:59 GMT', 'Monday, 01-Jan-1900 00:00:00 GMT']


# ---------------------------------------------------------------------------------------------------------
# interposition: virtual clock and synthetic upstream
# ---------------------------------------------------------------------------------------------------------
class _VTime(object):
    """Stands in for the `time` module in the modules that read the clock when they store a tile."""
    world = None

    def time(self):
        w = _VTime.world
        return T0 + w.clock / 2.0 if w is not None else _real_time.time()

    def __getattr__(self, name):
        return getattr(_real_time, name)


_installed = False


def _png(w, h, ver, sclass):
    from PIL import Image
    img = Image.new('RGB', (w, h), (ver + 10, 150, 200))
    if sclass == 2:
        px = img.load()
        for x in range(w):
            if x % 8 < 4:
                for y in range(h):
                    px[x, y] = (ver + 10, 151, 201)
    b = io.BytesIO()
    img.save(b, 'PNG')
    return b.getvalue()


def _png_fill(w, h):
    from PIL import Image
    b = io.BytesIO()
    Image.new('RGB', (w, h), (255, 0, 0)).save(b, 'PNG')
    return b.getvalue()


def _png_clear(w, h):
    from PIL import Image
    b = io.BytesIO()
    Image.new('RGBA', (w, h), (0, 0, 0, 0)).save(b, 'PNG')
    return b.getvalue()


def _decode(data):
    """content version painted by the synthetic upstream; 0 = the red on_error fill image"""
    from PIL import Image
    try:
        img = Image.open(io.BytesIO(data)).convert('RGB')
    except Exception:
        return -7
    r, g, b = img.getpixel((img.size[0] - 1, img.size[1] - 1))
    if (r, g, b) == (255, 0, 0):
        return 0
    if (g, b) != (150, 200):
        return -6
    return r - 10


def install():
    global _installed
    if _installed:
        return
    import mapproxy.cache.base
    import mapproxy.cache.mbtiles
    import mapproxy.service.tile
    import mapproxy.client.http as H
    vt = _VTime()
    mapproxy.cache.base.time = vt
    mapproxy.cache.mbtiles.time = vt
    mapproxy.service.tile.time = vt

    def fake_open(self, url, data=None, method=None):
        w = _VTime.world
        if w is None:
            raise H.HTTPClientError('no world', response_code=500)
        host = urlparse(url).netloc
        if host != 'over.invalid':      # (the layer above the tile under test in merged requests: not part of the history)
            w.uplog.append(url)
        q = {k.lower(): v[0] for k, v in parse_qs(urlparse(url).query).items()}
        width, height = int(q.get('width', 8)), int(q.get('height', 8))
        if host == 'base.invalid':
            # the base of the merged cache always answers: the fill colour while the overlay is down
            data = _png_fill(width, height) if w.fail else _png(width, height, w.ver, w.next_size)
        elif w.fail:
            raise H.HTTPClientError('HTTP Error "%s": 500' % url, response_code=500)
        elif host in ('overlay.invalid', 'over.invalid'):
            data = _png_clear(width, height)
        else:
            data = _png(width, height, w.ver, w.next_size)
        r = io.BytesIO(data)
        r.headers = {'Content-type': 'image/png'}
        r.code = 200
        return r

    H.HTTPClient.open = fake_open
    for s in MALFORMED:
        if parsedate(s) is not None:
            raise tlc.MachineryError('%r is expected to be an unparseable HTTP date' % s)
    _installed = True


def _conf(d, backend):
    marker = os.path.join(d, 'refresh_marker')

    def cache(name, src, **kw):
        if backend == 'file':
            c = {'type': 'file', 'directory': os.path.join(d, 'cache_' + name)}
        else:
            c = {'type': 'sqlite', 'directory': os.path.join(d, 'cache_' + name)}
        conf = {'grids': ['g'], 'sources': [src], 'format': 'image/png', 'cache': c, 'refresh_before': {'mtime': marker}}
        conf.update(kw)
        return conf

    on_error = {500: {'response': [255, 0, 0], 'cache': False}}
    conf = {
        'globals': {'image': {'paletted': False},
                    'cache': {'base_dir': os.path.join(d, 'cd'), 'lock_dir': os.path.join(d, 'locks'),
                              'tile_lock_dir': os.path.join(d, 'tlocks')}},
        'services': {'tms': {}, 'kml': {}, 'wmts': {'restful': True, 'kvp': True}, 'wms': {'srs': ['EPSG:3857']}},
        'grids': {'g': {'srs': 'EPSG:3857', 'bbox': [0, 0, 640, 640], 'res': [40, 20, 10], 'tile_size': [8, 8],
                        'origin': 'nw'}},
        'sources': {
            'w': {'type': 'wms', 'req': {'url': 'http://upstream.invalid/wms', 'layers': 'x'},
                  'supported_srs': ['EPSG:3857'], 'on_error': on_error},
            't': {'type': 'tile', 'url': 'http://upstream.invalid/t/%(z)s/%(x)s/%(y)s.png', 'grid': 'g',
                  'on_error': on_error},
            'wb': {'type': 'wms', 'req': {'url': 'http://base.invalid/wms', 'layers': 'b'}, 'supported_srs': ['EPSG:3857']},
            'wo': {'type': 'wms', 'req': {'url': 'http://overlay.invalid/wms', 'layers': 'o', 'transparent': True},
                   'supported_srs': ['EPSG:3857'], 'on_error': {500: {'response': 'transparent', 'cache': False}}},
            'wo2': {'type': 'wms', 'req': {'url': 'http://over.invalid/wms', 'layers': 'o', 'transparent': True},
                    'supported_srs': ['EPSG:3857'], 'on_error': {500: {'response': 'transparent', 'cache': False}}},
        },
        'caches': {
            'c_single': cache('single', 'w', meta_size=[1, 1], meta_buffer=0),
            'c_meta': cache('meta', 'w', meta_size=[2, 2], meta_buffer=0),
            'c_bulk': cache('bulk', 't', meta_size=[2, 2], bulk_meta_tiles=True),
            'c_merge': dict(cache('merge', 'wb', meta_size=[1, 1], meta_buffer=0), sources=['wb', 'wo']),
        },
        'layers': [{'name': 'over', 'title': 'o', 'sources': ['c_over']},
                   {'name': 'single', 'title': 's', 'sources': ['c_single']},
                   {'name': 'meta', 'title': 'm', 'sources': ['c_meta']},
                   {'name': 'bulk', 'title': 'b', 'sources': ['c_bulk']},
                   {'name': 'merge', 'title': 'g', 'sources': ['c_merge']}],
    }
    # the layer of transparent tiles above the tile under test in merged requests: filled once, never refreshed
    conf['caches']['c_over'] = dict(cache('over', 'wo2', meta_size=[1, 1], meta_buffer=0))
    del conf['caches']['c_over']['refresh_before']
    if backend == 'file':
        conf['caches']['c_link'] = cache('link', 'w', meta_size=[1, 1], meta_buffer=0, link_single_color_images=True)
        conf['layers'].append({'name': 'link', 'title': 'k', 'sources': ['c_link']})
    return conf


def _url(flavour, layer, coord):
    x, y, z = coord
    n = [2, 4, 8][z]
    ysw = n - 1 - y
    span = 8 * [40, 20, 10][z]
    bbox = (x * span, 640 - (y + 1) * span, (x + 1) * span, 640 - y * span)
    if flavour == 'tms':
        return '/tms/1.0.0/%s/EPSG3857/%d/%d/%d.png' % (layer, z, x, ysw)
    if flavour == 'kml':
        return '/kml/%s/EPSG3857/%d/%d/%d.png' % (layer, z, x, ysw)
    if flavour == 'wmts_rest':
        return '/wmts/%s/g/%d/%d/%d.png' % (layer, z, x, y)
    if flavour == 'wmts_kvp':
        return ('/service?SERVICE=WMTS&REQUEST=GetTile&VERSION=1.0.0&LAYER=%s&STYLE=&TILEMATRIXSET=g&TILEMATRIX=%d'
                '&TILEROW=%d&TILECOL=%d&FORMAT=image/png' % (layer, z, y, x))
    if flavour == 'wmsc2':
        return ('/service?SERVICE=WMS&REQUEST=GetMap&VERSION=1.1.1&LAYERS=%s,over&SRS=EPSG:3857&BBOX=%s&WIDTH=8&HEIGHT=8'
                '&FORMAT=image/png&STYLES=,&TILED=true%s' % (layer, ','.join(str(v) for v in bbox),
                                                             '&TRANSPARENT=true' if layer == 'merge' else ''))
    if flavour == 'wmsc':
        return ('/service?SERVICE=WMS&REQUEST=GetMap&VERSION=1.1.1&LAYERS=%s&SRS=EPSG:3857&BBOX=%s&WIDTH=8&HEIGHT=8'
                '&FORMAT=image/png&STYLES=&TILED=true%s' % (layer, ','.join(str(v) for v in bbox),
                                                             # the merged cache is transparent: only a transparent request is
                                                             # answered with the tile itself (anything else is rendered anew)
                                                             '&TRANSPARENT=true' if layer == 'merge' else ''))
    raise ValueError(flavour)


def http_date(sec, style=0):
    """the three HTTP-date formats of RFC 7231 for virtual second `sec`"""
    t = T0 + sec
    if style % 3 == 0:
        return format_date_time(t)
    tm = _real_time.gmtime(t)
    if style % 3 == 1:
        return _real_time.strftime('%A, %d-%b-%y %H:%M:%S GMT', tm)
    return _real_time.strftime('%a %b ', tm) + ('%2d' % tm.tm_mday) + _real_time.strftime(' %H:%M:%S %Y', tm)


class World(object):
    """The real application on a private directory, driven at the HTTP boundary, with a virtual clock."""

    nworlds = 0

    def __init__(self, backend, path, tiles, tz=None):
        import webtest
        # every other world lives in a time zone west of Greenwich (fixed offset, no daylight saving): HTTP dates are GMT,
        # whatever reads them as local time is wrong by hours there
        World.nworlds += 1
        self.tz = tz or ('EST5' if World.nworlds % 2 else 'UTC')
        os.environ['TZ'] = self.tz
        _real_time.tzset()
        from mapproxy.config.loader import ProxyConfiguration
        from mapproxy.wsgiapp import MapProxyApp
        install()
        self.backend, self.path, self.tiles = backend, path, list(tiles)
        self.dir = tempfile.mkdtemp(prefix='verif-c20-')
        self.clock, self.thr, self.ver = 2, 0, 1
        self.fail, self.next_size, self.uplog = False, 1, []
        self.size_class = {}                 # byte size -> size class
        self.bodies = {}                     # (tile, version, flavour) -> md5 of bodies served from the cache
        self.marker = os.path.join(self.dir, 'refresh_marker')
        with open(self.marker, 'w') as f:
            f.write('x')
        os.utime(self.marker, (T0, T0))
        _VTime.world = self
        pc = ProxyConfiguration(_conf(self.dir, backend), conf_base_dir=self.dir, seed=False, renderd=False)
        self.app = webtest.TestApp(MapProxyApp(pc.configured_services(), pc.base_config))
        self.tm = pc.caches['c_' + path].caches()[0][2]
        self.cache_dir = os.path.join(self.dir, 'cache_' + path)
        for t in sorted(COORD):             # the tiles of the layer 'over' exist before the history begins
            r = self.app.get(_url('wmsc', 'over', COORD[t]) + '&TRANSPARENT=true', expect_errors=True)
            if r.status_int != 200 or r.headers.get('ETag') is None:
                raise tlc.MachineryError('the layer "over" could not be filled: %s %s' % (r.status, r.body[:200]))

    def close(self):
        os.environ['TZ'] = 'UTC'
        _real_time.tzset()
        if _VTime.world is self:
            _VTime.world = None
        try:
            self.tm.cleanup()
        except Exception:
            pass
        shutil.rmtree(self.dir, ignore_errors=True)

    # ---- environment ------------------------------------------------------------------------------
    def _fix_mtimes(self):
        """files written by the kernel clock get the virtual time of the step that wrote them"""
        if self.backend != 'file':
            return
        ns = T0 * 10 ** 9 + self.clock * 5 * 10 ** 8
        for root, _dirs, files in os.walk(self.cache_dir):
            shared = os.path.basename(root) == 'single_color_tiles'
            for fn in files:
                p = os.path.join(root, fn)
                if os.lstat(p).st_mtime > T0 + 10 ** 8:
                    if shared:
                        # the image that all tiles of one colour link to: stored long ago (for some other tile)
                        old = (T0 - 100000) * 10 ** 9
                        os.utime(p, ns=(old, old))
                    else:
                        os.utime(p, ns=(ns, ns), follow_symlinks=False)

    def tick(self):
        self.clock += 1

    def expire(self):
        self.thr = self.clock // 2
        os.utime(self.marker, (T0 + self.thr, T0 + self.thr))

    def rewrite(self, t, sclass):
        _VTime.world = self
        self.fail, self.next_size, self.uplog = False, sclass, []
        self.tm.remove_tile_coords([COORD[t]])
        with self.tm.session():
            self.tm.load_tile_coords([COORD[t]])
        self._fix_mtimes()
        if self.uplog:
            self.ver += 1
            self.clock += 1          # time moves on when tiles are written

    # ---- requests ---------------------------------------------------------------------------------
    def get(self, flavour, t, inm=None, ims=None, fail=False, sclass=1):
        _VTime.world = self
        self.fail, self.next_size, self.uplog = fail, sclass, []
        headers = {}
        if inm is not None:
            headers['If-None-Match'] = inm
        if ims is not None:
            headers['If-Modified-Since'] = ims
        r = self.app.get(_url(flavour, self.path, COORD[t]), headers=headers, expect_errors=True)
        up = 'none' if not self.uplog else ('fail' if fail else 'ok')
        ver_used = self.ver
        self._fix_mtimes()
        if up == 'ok':
            self.ver += 1
            self.clock += 1          # time moves on when tiles are written
        lm = r.headers.get('Last-Modified')
        if lm is not None:
            p = parsedate(lm)
            lm = calendar.timegm(p) - T0 if p else -8
        else:
            lm = -1
        ccs = ', '.join(v for k, v in r.headerlist if k.lower() == 'cache-control').lower()
        pub, nos = ('public' in ccs and 'max-age' in ccs), 'no-store' in ccs
        cc = 'both' if pub and nos else 'public' if pub else 'nostore' if nos else 'none' if not ccs else 'other:' + ccs
        body = -1 if len(r.body) == 0 else _decode(r.body)
        return {'status': r.status_int, 'etag': r.headers.get('ETag'), 'lm': lm, 'body': body, 'cc': cc, 'up': up,
                'raw': hashlib.md5(r.body).hexdigest(), 'ver_used': ver_used}

    # ---- projection of the store ------------------------------------------------------------------
    def obs(self):
        from mapproxy.cache.tile import Tile
        out = {}
        for t in self.tiles:
            tile = Tile(COORD[t])
            ok = self.tm.cache.load_tile(tile, with_metadata=True)
            if not ok or tile.source is None:
                out[t] = (-1, -1, -1)
                continue
            data = tile.source.as_buffer().read()
            ts = tile.timestamp
            m = int(round((ts - T0) * 2)) if ts is not None else -5
            out[t] = (m, self._sclass(len(data)), _decode(data))
        self.tm.cleanup()
        return out

    def _sclass(self, nbytes):
        return self.size_class.get(nbytes, 0)

    def learn_size(self, t, sclass, obs):
        """the synthetic upstream promises: same size class <=> same stored byte length"""
        from mapproxy.cache.tile import Tile
        tile = Tile(COORD[t])
        if not self.tm.cache.load_tile(tile, with_metadata=True) or tile.source is None:
            return obs
        n = len(tile.source.as_buffer().read())
        self.tm.cleanup()
        known = self.size_class.get(n)
        if known is None:
            if sclass in self.size_class.values():
                raise tlc.MachineryError('synthetic upstream: size class %d stored with two byte lengths' % sclass)
            self.size_class[n] = sclass
            return self.obs()
        if known != sclass:
            raise tlc.MachineryError('synthetic upstream: byte length %d stands for size classes %d and %d' % (
                n, known, sclass))
        return obs


# ---------------------------------------------------------------------------------------------------------
# model side
# ---------------------------------------------------------------------------------------------------------
FIXED = {'CopyInfo': True, 'ResetStamp': True, 'Branch': frozenset(FLAVOURS)}


def consts(backend, path, flags, tiles=('t1', 't2'), flavours=ALL_FLAVOURS, maxclock=4, sizes=(1, 2), lenient=True):
    return dict(Lenient=lenient, Tiles=set(tiles), MetaOf={t: set(META[t]) & set(tiles) for t in tiles}, Flavours=set(flavours),
                Backend=backend, Path=MPATH[path], CopyInfo=bool(flags['CopyInfo']), ResetStamp=bool(flags['ResetStamp']),
                BranchFlavours=set(flags['Branch']), MaxClock=maxclock, Sizes=set(sizes),
                LinkedSizes={1} if path == 'link' else set())


def flags_text(flags):
    return 'CopyInfo=%s ResetStamp=%s BranchFlavours=%s' % (flags['CopyInfo'], flags['ResetStamp'], sorted(flags['Branch']))


def exhaustive(ctx, name, backend, path, flags, maxver, maxclock, flavours=ALL_FLAVOURS, tiles=('t1', 't2'), workers=8,
               coverage=False, timeout=1500, lenient=True):
    d = ctx.sub('mc-' + name)
    mp, cp = tlc.write_mc(d, 'HttpCond', 'MC_HttpCond', consts(backend, path, flags, tiles, flavours, maxclock, lenient=lenient),
                          invariants=['TypeOK'], properties=['Always' + p for p in PROPS], constraint='MCBound',
                          view='core', extra_defs='MCBound == ver <= %d' % maxver)
    return tlc.run(mp, cp, d, workers=workers, timeout=timeout, coverage=coverage)


def parallel(jobs):
    """run callables in threads (each waits for a TLC process); re-raise the first failure"""
    res = [None] * len(jobs)
    errs = []

    def call(i, fn):
        try:
            res[i] = fn()
        except BaseException as ex:  # noqa
            errs.append(ex)

    th = [threading.Thread(target=call, args=(i, fn)) for i, fn in enumerate(jobs)]
    for t in th:
        t.start()
    for t in th:
        t.join()
    if errs:
        raise errs[0]
    return res


def steps_of(beh):
    """TLC behaviour [(label, state)] -> list of json-able steps {resp, cache}"""
    out = []
    for _label, st in beh[1:]:
        out.append({'resp': tla.jsonable(st['resp']), 'cache': {t: [e['m'], e['s'], e['v']] for t, e in st['cache'].items()}})
    return out


class Binder(object):
    """ETag strings <-> model ETags, bound by first occurrence, kept in bijection."""

    def __init__(self):
        self.t2s, self.s2t = {}, {}

    def string_for(self, tup):
        tup = tuple(tup)
        if tup == GARB:
            return GARB_STR
        if tup in self.t2s:
            return self.t2s[tup]
        if tup == NN:
            return NN_STR
        return None

    def check(self, tup, s):
        tup = tuple(tup)
        if tup == NONE_E:
            return None if s is None else 'an ETag header (%s) where the model has none' % s
        if s is None:
            return 'no ETag header, the model has ETag%s' % (tup,)
        if tup in self.t2s:
            return None if self.t2s[tup] == s else 'ETag %s, but (mtime, size)=%s was sent as %s before' % (s, tup, self.t2s[tup])
        if s in self.s2t:
            return 'ETag %s for (mtime, size)=%s was already sent for %s' % (s, tup, self.s2t[s])
        self.t2s[tup], self.s2t[s] = s, tup
        return None


def replay_steps(world, steps, style_seed=0):
    """Execute model steps on the real application.  Returns (n_ok, None) or (index, description) at the first
    step where response or store differ from the model; 'unrealizable' steps end the behaviour early."""
    binder = Binder()
    for i, st in enumerate(steps):
        rs = st['resp']
        act = rs['act']
        t = rs['t']
        if act == 'Get':
            h = rs['h']
            inm = None
            if tuple(h['inm']) != NOHDR:
                inm = binder.string_for(h['inm'])
                if inm is None:
                    return i, None
            if h['ims'] == -1:
                ims = None
            elif h['ims'] == -2:
                ims = MALFORMED[(i + style_seed) % len(MALFORMED)]
            elif h['ims'] == -3:
                ims = ANCIENT[(i + style_seed) % len(ANCIENT)]
            else:
                ims = http_date(h['ims'], i + style_seed)
            phase = rs['phase']
            sclass = st['cache'][t][1] if phase in ('create', 'refresh') else 1
            o = world.get(rs['f'], t, inm, ims, fail=(phase == 'error'), sclass=sclass)
            obs = world.obs()
            if o['up'] == 'ok':
                obs = world.learn_size(t, sclass, obs)
            exp_up = {'cached': 'none', 'error': 'fail'}.get(phase, 'ok')
            diffs = []
            if o['up'] != exp_up:
                diffs.append('upstream contact %s (model: %s)' % (o['up'], exp_up))
            for k in ('status', 'lm', 'body', 'cc'):
                if o[k] != rs[k]:
                    diffs.append('%s=%s (model: %s)' % (k, o[k], rs[k]))
            e = binder.check(rs['etag'], o['etag'])
            if e:
                diffs.append(e)
            if phase == 'cached' and o['status'] == 200:
                key = (t, o['body'], rs['f'])
                if world.bodies.setdefault(key, o['raw']) != o['raw']:
                    diffs.append('body bytes differ between two responses served from the cache')
            if diffs:
                return i, 'GET %s %s %s [%s]: %s' % (rs['f'], t, _hdr_text(h), phase, '; '.join(diffs))
        else:
            if act == 'Rewrite':
                world.rewrite(t, rs['body'])
                obs = world.learn_size(t, rs['body'], world.obs())
            elif act == 'Expire':
                world.expire()
                obs = world.obs()
            elif act == 'Tick':
                world.tick()
                obs = world.obs()
            else:
                raise tlc.MachineryError('unknown model action %r' % act)
        want = {t2: tuple(v) for t2, v in st['cache'].items()}
        if obs != want:
            bad = {t2: (obs[t2], want[t2]) for t2 in want if obs[t2] != want[t2]}
            return i, 'after %s %s: store (mtime, size, version) differs, tile -> (real, model): %s' % (act, t, bad)
    return len(steps), None


def _hdr_text(h):
    parts = []
    if tuple(h['inm']) != NOHDR:
        parts.append('INM=%s' % {NN: 'md5(NoneNone)', GARB: 'unknown'}.get(tuple(h['inm']), 'etag%s' % (tuple(h['inm']),)))
    if h['ims'] != -1:
        parts.append('IMS=%s' % ('malformed' if h['ims'] == -2 else 'before-1970' if h['ims'] == -3 else 'sec %d' % h['ims']))
    return ' '.join(parts) or 'unconditional'


def handler_of(f):
    return HANDLER.get(f, f)


def attribute(flags, path, phase, flavour):
    """Which recorded deviation of this tree (if any) explains a failing property at a step of this class."""
    if phase == 'error' and flavour not in flags['Branch']:
        return {'defect': 'no-store-branch-missing', 'handler': handler_of(flavour)}
    if path in ('meta', 'bulk') and not flags['CopyInfo'] and phase in ('create', 'refresh', 'error'):
        return {'defect': 'cache-info-not-copied', 'path': path}
    if MPATH[path] == 'single' and not flags['ResetStamp'] and phase in ('refresh', 'error'):
        return {'defect': 'stale-timestamp-kept', 'path': path}
    return None


# ---------------------------------------------------------------------------------------------------------
# (D) which model variant is this tree?  counterexamples of the unrepaired variants, replayed
# ---------------------------------------------------------------------------------------------------------
def counterexample(ctx, name, backend, path, flags, flavours):
    r = exhaustive(ctx, 'cx-' + name, backend, path, flags, maxver=3, maxclock=5, flavours=flavours, workers=1, timeout=600,
                   lenient=False)
    if not r.violated or not r.trace:
        raise tlc.MachineryError('the model variant %s (%s/%s) is expected to violate the property: %r\n%s' % (
            flags_text(flags), backend, path, r, r.out[-1200:]))
    prop = r.violated.replace('Always', '')
    return prop, steps_of(r.trace)


def reproduce(backend, path, steps, flavour=None):
    if flavour:
        steps = json.loads(json.dumps(steps))
        for st in steps:
            if st['resp']['act'] == 'Get':
                st['resp']['f'] = flavour
    w = World(backend, path, ['t1', 't2'])
    try:
        n, what = replay_steps(w, steps)
    finally:
        w.close()
    return n == len(steps) and what is None, what


def detect(ctx, backend):
    """-> {path: flags} describing the code under test on this backend; reports every reproduced counterexample."""
    # 1. handlers without a no-store branch (creation path: single tile, where the mark arrives)
    nob = dict(FIXED, Branch=frozenset())
    jobs = [lambda: counterexample(ctx, backend + '-nobranch', backend, 'single', nob, ['tms']),
            lambda: counterexample(ctx, backend + '-wmsboth', backend, 'single', nob, ['wmsc'])]
    (p1, cx_plain), (p2, cx_wms) = parallel(jobs)
    branch = set(FLAVOURS)
    for f in FLAVOURS:
        prop, cx = (p2, cx_wms) if f == 'wmsc' else (p1, cx_plain)
        ok, _ = reproduce(backend, 'single', cx, flavour=f)
        ctx.count(('cx', backend, 'branch', f))
        if ok:
            branch.discard(f)
            last = cx[-1]['resp']
            ctx.violation({'defect': 'no-store-branch-missing', 'handler': handler_of(f)},
                          '%s (%s, %s cache): an upstream error mapped to an uncached fill image is answered with '
                          'Cache-Control class "%s", ETag %s%s (model counterexample for %s reproduced; %s has no '
                          '`tile.cacheable` -> no-store branch)' % (
                              f, handler_of(f), backend, last['cc'], 'md5("NoneNone")' if tuple(last['etag']) == NN else last['etag'],
                              ' and status 304' if last['status'] == 304 else '', prop, handler_of(f)),
                          {'kind': 'behaviour', 'mode': 'counterexample', 'backend': backend, 'path': 'single', 'flavour': f,
                           'flags': _flags_json(dict(FIXED, Branch=frozenset(set(FLAVOURS) - {f}))), 'steps': cx})
    flags = {}
    # 2. creation paths
    # (counterexamples that fail because of the flag alone: every handler of the model has the branch, and only
    # flavours whose real handler has it too are used)
    variants = [('single', dict(FIXED, ResetStamp=False), 'ResetStamp', 'stale-timestamp-kept'),
                ('meta', dict(FIXED, CopyInfo=False), 'CopyInfo', 'cache-info-not-copied')]
    cxs = parallel([(lambda v=v: counterexample(ctx, '%s-%s' % (backend, v[0]), backend, v[0], v[1],
                                                sorted(branch) or FLAVOURS)) for v in variants])
    for (mpath, vflags, key, defect), (prop, cx) in zip(variants, cxs):
        for path in ((['single', 'merge'] + (['link'] if backend == 'file' else [])) if mpath == 'single' else ['meta', 'bulk']):
            ok, _ = reproduce(backend, path, cx)
            ctx.count(('cx', backend, key, path))
            fl = dict(FIXED, Branch=frozenset(branch))
            if ok:
                fl[key] = False
                last = cx[-1]['resp']
                ctx.violation({'defect': defect, 'path': path},
                              '%s path, %s cache: %s fails - GET %s %s [%s] is answered %d, ETag %s, Last-Modified sec %s, '
                              'Cache-Control class "%s" while the store holds %s (model counterexample with %s=FALSE '
                              'reproduced on the real application)' % (
                                  path, backend, prop, last['f'], _hdr_text(last['h']), last['phase'], last['status'],
                                  'md5("NoneNone")' if tuple(last['etag']) == NN else last['etag'], last['lm'], last['cc'],
                                  cx[-1]['cache'], key),
                              {'kind': 'behaviour', 'mode': 'counterexample', 'backend': backend, 'path': path,
                               'flags': _flags_json(vflags), 'steps': cx})
            flags[path] = fl
    return flags


def _flags_json(flags):
    return {'CopyInfo': flags['CopyInfo'], 'ResetStamp': flags['ResetStamp'], 'Branch': sorted(flags['Branch'])}


def _flags_from_json(j):
    return {'CopyInfo': j['CopyInfo'], 'ResetStamp': j['ResetStamp'], 'Branch': frozenset(j['Branch'])}


# ---------------------------------------------------------------------------------------------------------
# (R) spec -> code
# ---------------------------------------------------------------------------------------------------------
def simulate(ctx, backend, path, flags, num, depth):
    d = ctx.sub('sim-%s-%s' % (backend, path))
    mp, cp = tlc.write_mc(d, 'HttpCond', 'MC_Sim', consts(backend, path, flags, maxclock=1000, lenient=False), spec='SimSpec')
    prefix = os.path.join(d, 'beh')
    r = tlc.run(mp, cp, d, workers=1, simulate='file=%s,num=%d' % (prefix, num), depth=depth,
                seed=ctx.seed * 7 + 13 + PATHS.index(path) * 3 + BACKENDS.index(backend), coverage=False, timeout=900)
    behs = [steps_of(b) for _f, b in tlc.sim_traces(prefix) if len(b) > 1]
    if not behs:
        raise tlc.MachineryError('no behaviours from TLC for %s/%s: %s' % (backend, path, r.out[-1200:]))
    return behs


def replay_phase(ctx, flags_by, num, depth):
    combos = list(COMBOS)
    all_behs = parallel([(lambda b=b, p=p: simulate(ctx, b, p, flags_by[b][p], num, depth)) for b, p in combos])
    acts = set()
    for (backend, path), behs in zip(combos, all_behs):
        flags = flags_by[backend][path]
        for bi, steps in enumerate(behs):
            w = World(backend, path, ['t1', 't2'])
            try:
                n, what = replay_steps(w, steps, style_seed=bi)
            finally:
                w.close()
            ctx.cov['replayed_behaviours'] += 1
            ctx.cov['replayed_steps'] += n if what is None else n + 1
            ctx.count(('replay', backend, path, bi, json.dumps(steps[:n + 1], sort_keys=True)))
            for st in steps[:n]:
                acts.add((st['resp']['act'], st['resp']['phase']))
            if what is not None:
                rs = steps[n]['resp']
                sig = attribute(flags, path, rs['phase'], rs['f']) or {
                    'kind': 'replay-divergence', 'path': path, 'backend': backend, 'phase': rs['phase']}
                ctx.violation(sig, '%s cache, %s path: the real application leaves the model (%s) at step %d: %s' % (
                    backend, path, flags_text(flags), n + 1, what),
                    {'kind': 'behaviour', 'mode': 'conformance', 'backend': backend, 'path': path, 'flags': _flags_json(flags),
                     'steps': steps[:n + 1]})
        if behs:
            ctx.sample({'kind': 'TLC behaviour of HttpCond (%s) replayed on the %s cache, %s path' % (flags_text(flags), backend, path),
                        'steps': [_step_text(s) for s in behs[0][:8]]})
    need = {('Get', 'cached'), ('Get', 'create'), ('Get', 'refresh'), ('Get', 'error'), ('Rewrite', '-'), ('Expire', '-'),
            ('Tick', '-')}
    if not ctx.violations and need - acts:
        raise tlc.MachineryError('vacuity: replayed behaviours never took %s' % sorted(need - acts))


def _step_text(st):
    rs = st['resp']
    if rs['act'] != 'Get':
        return '%s %s' % (rs['act'], rs['t'] if rs['act'] == 'Rewrite' else '')
    return 'GET %s %s %s [%s] -> %d etag%s lm=%s body=%s cc=%s' % (
        rs['f'], rs['t'], _hdr_text(rs['h']), rs['phase'], rs['status'], tuple(rs['etag']), rs['lm'], rs['body'], rs['cc'])


# ---------------------------------------------------------------------------------------------------------
# (T) code -> spec
# ---------------------------------------------------------------------------------------------------------
class EtagIds(object):
    def __init__(self):
        self.ids = {}

    def of(self, s):
        if s is None:
            return 0
        if s == NN_STR:
            return -2
        if s not in self.ids:
            self.ids[s] = len(self.ids) + 1
        return self.ids[s]


def random_history(rng, backend, path, nsteps, tiles=('t1', 't2', 't3', 't4')):
    """Drive the real application at random; one event per model action."""
    w = World(backend, path, tiles)
    ids = EtagIds()
    events = []
    last_etag, last_lm, seen = {}, {}, []
    try:
        obs = w.obs()
        for i in range(nsteps):
            k = rng.random()
            if k < 0.10:
                w.tick()
                ev = {'ev': 'tick'}
            elif k < 0.16 and w.thr != w.clock // 2:
                w.expire()
                ev = {'ev': 'expire'}
            elif k < 0.24:
                t = rng.choice(tiles)
                group = [t] if MPATH[path] == 'single' else sorted(META[t])
                store_time = w.clock if backend == 'file' else 2 * (w.clock // 2)
                if obs[t][0] < 0 or any(obs[u][0] >= store_time for u in group):
                    continue
                s = rng.choice((1, 2))
                w.rewrite(t, s)
                obs = w.learn_size(t, s, w.obs())
                events.append({'ev': 'rewrite', 't': t, 's': s, 'obs': {u: list(v) for u, v in obs.items()}})
                continue
            else:
                t = rng.choice(tiles)
                f = rng.choice(ALL_FLAVOURS)
                group = [t] if MPATH[path] == 'single' else sorted(META[t])
                if 0 <= obs[t][0] and obs[t][0] // 2 <= w.thr:
                    # an expired tile is about to be refreshed: never within the time unit in which it was written
                    while any(obs[u][0] >= (w.clock if backend == 'file' else 2 * (w.clock // 2)) for u in group):
                        w.tick()
                        events.append({'ev': 'tick', 'obs': {u: list(v) for u, v in obs.items()}})
                inm = ims = None
                inm_id, ims_v = 0, -1
                c = rng.random()
                if c < 0.22 and t in last_etag:
                    inm = last_etag[t]
                elif c < 0.32 and seen:
                    inm = rng.choice(seen)
                elif c < 0.37:
                    inm = GARB_STR
                elif c < 0.42:
                    inm = NN_STR
                elif c < 0.70:
                    base = rng.choice((last_lm.get(t, w.clock // 2), w.clock // 2))
                    ims_v = max(0, base + rng.choice((-1, 0, 0, 1, 2)))
                elif c < 0.76:
                    ims_v = -2
                elif c < 0.79:
                    ims_v = -3
                elif c < 0.84 and seen:
                    inm = rng.choice(seen + [GARB_STR])
                    ims_v = max(0, last_lm.get(t, w.clock // 2) + rng.choice((-1, 0, 1)))
                if inm is not None:
                    inm_id = -1 if inm == GARB_STR else ids.of(inm)
                if ims_v == -2:
                    ims = rng.choice(MALFORMED)
                elif ims_v == -3:
                    ims = rng.choice(ANCIENT)
                elif ims_v >= 0:
                    ims = http_date(ims_v, rng.randrange(3))
                fail = rng.random() < 0.2
                s = rng.choice((1, 2))
                o = w.get(f, t, inm, ims, fail=fail, sclass=s)
                obs = w.obs()
                if o['up'] == 'ok':
                    obs = w.learn_size(t, s, obs)
                if o['etag'] is not None:
                    last_etag[t] = o['etag']
                    if o['etag'] not in seen:
                        seen.append(o['etag'])
                if o['lm'] >= 0:
                    last_lm[t] = o['lm']
                ev = {'ev': 'get', 'f': f, 't': t, 'inm': inm_id, 'ims': ims_v, 's': s, 'up': o['up'], 'status': o['status'],
                      'etag': ids.of(o['etag']), 'lm': o['lm'], 'body': o['body'], 'cc': o['cc'], 'raw': o['raw'],
                      'sent': {'If-None-Match': inm, 'If-Modified-Since': ims}}
            if ev['ev'] != 'get':
                obs = w.obs()
            ev['obs'] = {u: list(v) for u, v in obs.items()}
            events.append(ev)
        return events
    finally:
        w.close()


def validate(ctx, name, backend, path, flags, traces, tiles=('t1', 't2', 't3', 't4')):
    d = ctx.sub('trace-' + name)
    tf = os.path.join(d, 'batch.json')
    with open(tf, 'w') as f:
        json.dump([[{k: v for k, v in e.items() if k not in ('raw', 'sent')} for e in tr] for tr in traces], f)
    mp, cp = tlc.write_mc(d, 'Trace_HttpCond', 'MC_Trace', consts(backend, path, flags, tiles, maxclock=100000),
                          spec='TraceSpec', post='TraceAccepted')
    r = tlc.run(mp, cp, d, workers=1, coverage=False, env={'TRACE_FILE': tf}, timeout=1800)
    pm = tlc.find_prints(r.out, 'matched')
    pf = tlc.find_prints(r.out, 'failing')
    if not pm or not pf:
        raise tlc.MachineryError('trace validation %s: no verdict from TLC\n%s' % (name, r.out[-2000:]))
    mv = pm[-1][1]
    matched = list(mv) if isinstance(mv, tuple) else [mv[k] for k in sorted(mv)]
    rejected = [(i, matched[i]) for i in range(len(traces)) if matched[i] < len(traces[i])]
    failing = sorted(pf[-1][1]) if pf[-1][1] else []
    pp = tlc.find_prints(r.out, 'phases')
    phases = set(pp[-1][1]) if pp and pp[-1][1] else set()
    return r, rejected, failing, phases


def trace_phase(ctx, flags_by, ntraces, nsteps):
    combos = list(COMBOS)
    batches = []
    for backend, path in combos:
        trs = [random_history(ctx.rng, backend, path, nsteps) for _ in range(ntraces)]
        batches.append(trs)
        for k, tr in enumerate(trs):
            ctx.count(('hist', backend, path, k, hashlib.md5(json.dumps(tr, sort_keys=True).encode()).hexdigest()))
    results = parallel([(lambda b=b, p=p, trs=trs: validate(ctx, '%s-%s' % (b, p), b, p, flags_by[b][p], trs))
                        for (b, p), trs in zip(combos, batches)])
    phases_seen = set()
    for (backend, path), trs, (r, rejected, failing, phases) in zip(combos, batches, results):
        flags = flags_by[backend][path]
        ctx.cov['traces_validated_against_impl'] += len(trs)
        ctx.cov['states'] += r.distinct
        ctx.cov['transitions'] += r.generated
        phases_seen |= phases
        for i, upto in rejected:
            e = trs[i][upto]
            phase = {'none': 'cached', 'fail': 'error'}.get(e.get('up'), 'create-or-refresh') if e['ev'] == 'get' else '-'
            sig = None
            if e['ev'] == 'get':
                for ph in ([phase] if phase != 'create-or-refresh' else ['create', 'refresh']):
                    sig = sig or attribute(flags, path, ph, e['f'])
            sig = sig or {'kind': 'trace-rejected', 'path': path, 'backend': backend, 'phase': phase}
            ctx.violation(sig, '%s cache, %s path: recorded history is not a behaviour of HttpCond (%s) at event %d: %s' % (
                backend, path, flags_text(flags), upto + 1, json.dumps({k: v for k, v in e.items() if k != 'raw'}, sort_keys=True)),
                {'kind': 'trace', 'backend': backend, 'path': path, 'flags': _flags_json(flags), 'events': trs[i][:upto + 1]})
        for tid, l, prop, phase in failing:
            e = trs[tid - 1][l - 1]
            sig = attribute(flags, path, phase, e['f']) or {
                'kind': prop, 'path': path, 'backend': backend, 'phase': phase, 'handler': handler_of(e['f'])}
            ctx.violation(sig, '%s cache, %s path: %s fails on a recorded history at event %d: %s' % (
                backend, path, prop, l, json.dumps({k: v for k, v in e.items() if k != 'raw'}, sort_keys=True)),
                {'kind': 'trace', 'backend': backend, 'path': path, 'flags': _flags_json(flags), 'events': trs[tid - 1][:l]})
        # bodies served from the cache are byte-identical until the tile is rewritten
        for tr in trs:
            raw = {}
            for e in tr:
                if e['ev'] == 'get' and e['up'] == 'none' and e['status'] == 200:
                    key = (e['t'], e['body'], e['f'])
                    if raw.setdefault(key, e['raw']) != e['raw']:
                        ctx.violation({'kind': 'body-bytes-differ', 'path': path, 'backend': backend, 'handler': handler_of(e['f'])},
                                      '%s cache, %s path: two responses served from the cache for %s (same version) differ in their bytes' % (
                                          backend, path, e['t']), {'kind': 'trace', 'backend': backend, 'path': path,
                                                                   'flags': _flags_json(flags), 'events': tr})
        if trs:
            ctx.sample({'kind': 'history recorded from the real application (%s cache, %s path), accepted by Trace_HttpCond' % (backend, path),
                        'events': [{k: v for k, v in e.items() if k not in ('raw', 'obs')} for e in trs[0][:6]]})
    need = {('Get', 'cached', 200), ('Get', 'cached', 304), ('Get', 'create', 200), ('Get', 'refresh', 200),
            ('Get', 'error', 200), ('Rewrite', '-', 0), ('Expire', '-', 0), ('Tick', '-', 0)}
    got = {(str(a), str(b), c) for a, b, c in phases_seen}
    if not ctx.violations and need - got:
        raise tlc.MachineryError('vacuity: recorded histories never contained %s' % sorted(need - got))


# ---------------------------------------------------------------------------------------------------------
def model_phase(ctx, flags_by):
    thorough = ctx.tier == 'thorough'
    tlc.sany(SPEC)
    # vacuity guard: every action of the model is taken
    r = exhaustive(ctx, 'coverage', 'file', 'meta', FIXED, maxver=2, maxclock=4, workers=2, coverage=True)
    if not r.ok:
        raise tlc.MachineryError('HttpCond.tla (coverage run): %r\n%s' % (r, r.out[-1500:]))
    taken = {m.group(1): int(m.group(3)) for m in re.finditer(r'(?m)^<(\w+) line [^>]*>: (\d+):(\d+)', r.out)}
    for a in ('DoGetCached', 'DoGetCreate', 'DoGetError', 'Rewrite', 'Expire', 'Tick'):
        if taken.get(a, 0) == 0:
            raise tlc.MachineryError('vacuity: action %s has coverage 0 (%s)' % (a, taken))
    # ... and the antecedents of the properties are reachable: each "never" below must be refuted by TLC
    nevers = {
        'cached request with the current ETag answered 304':
            'IsGet\' /\\ resp\'.phase = "cached" /\\ resp\'.status = 304 /\\ resp\'.h.inm # NOHDR /\\ resp\'.h.ims < 0',
        'cached request answered 304 on If-Modified-Since':
            'IsGet\' /\\ resp\'.phase = "cached" /\\ resp\'.status = 304 /\\ resp\'.h.inm = NOHDR',
        'refreshing request answered 304':
            'IsGet\' /\\ resp\'.phase = "refresh" /\\ resp\'.status = 304',
        'refreshing request with the ETag of the replaced tile':
            'IsGet\' /\\ resp\'.phase = "refresh" /\\ resp\'.status = 200 /\\ resp\'.h.inm = Etag(prev\'[resp\'.t].m, prev\'[resp\'.t].s)',
        'upstream error mapped to a fill image':
            'IsGet\' /\\ resp\'.phase = "error"',
        'second response from the cache without a rewrite in between':
            'IsGet\' /\\ resp\'.phase = "cached" /\\ resp\'.prevserved # NoServed /\\ resp\'.status = 200',
    }

    def witness(i, text, cond):
        d = ctx.sub('reach-%d' % i)
        mp, cp = tlc.write_mc(d, 'HttpCond', 'MC_Reach', consts('file', 'single', FIXED, maxclock=5), properties=['Never'],
                              constraint='MCBound', view='core',
                              extra_defs='MCBound == ver <= 2\nNever == [][~(%s)]_vars' % cond)
        rr = tlc.run(mp, cp, d, workers=1, timeout=300, coverage=False)
        if rr.violated != 'Never':
            raise tlc.MachineryError('vacuity: the model never shows "%s": %r\n%s' % (text, rr, rr.out[-800:]))
        return rr

    parallel([(lambda i=i, t=t, c=c: witness(i, t, c)) for i, (t, c) in enumerate(sorted(nevers.items()))])
    maxver, maxclock = (4, 7) if thorough else (3, 6)
    jobs, names = [], []
    for backend in BACKENDS:
        for path in ('single', 'meta'):
            names.append((backend, path, FIXED))
            jobs.append(lambda b=backend, p=path: exhaustive(ctx, 'fixed-%s-%s' % (b, p), b, p, FIXED, maxver, maxclock, workers=4))
    # tiles of one colour kept as links to a shared image (their size read back is that of the link)
    names.append(('file', 'link', FIXED))
    jobs.append(lambda: exhaustive(ctx, 'fixed-file-link', 'file', 'link', FIXED, maxver, maxclock, workers=4))
    if thorough:
        names.append(('file', 'meta', FIXED))
        jobs.append(lambda: exhaustive(ctx, 'fixed-3tiles', 'file', 'meta', FIXED, 3, 6, tiles=('t1', 't2', 't3'), workers=4))
    for (backend, path, flags), r in zip(names, parallel(jobs)):
        ctx.log('HttpCond %s/%s (%s): %r' % (backend, path, flags_text(flags), r))
        if r.violated:
            # the model of the repaired code must satisfy the property: a failure here is a modelling error
            raise tlc.MachineryError('HttpCond.tla with the repaired constants violates %s (%s/%s)\n%s' % (
                r.violated, backend, path, r.out[-1500:]))
        if not r.ok:
            raise tlc.MachineryError('HttpCond.tla: %r\n%s' % (r, r.out[-1500:]))
        ctx.add_tlc('HttpCond/%s/%s' % (backend, path), r)


def dst_case(ctx):
    """A tile rewritten in the hour that local time repeats when daylight saving time ends (server zone given as a POSIX TZ
    string; the C library primed as in a server that has been running through the summer): version A is written at 02:50
    summer time, version B twenty minutes later at 02:10 winter time.  Last-Modified moves forward with the rewrite, and a
    client that revalidates with the validators of A gets B."""
    global T0
    from engine import zone as Z
    first_0250 = 1572137400                     # 2019-10-27T00:50:00Z = 02:50 CEST
    saved = T0
    try:
        with Z.zone(Z.DST):
            lt = _real_time.localtime(first_0250)
            if (lt.tm_hour, lt.tm_min, lt.tm_isdst) != (2, 50, 1) or _real_time.localtime(first_0250 + 1200).tm_isdst != 0:
                raise tlc.MachineryError('the C library does not know the zone %s' % Z.DST)
            for backend in BACKENDS:
                for flavour in ('tms', 'wmts_kvp', 'wmsc'):
                    _real_time.mktime(_real_time.localtime(first_0250 - 6 * 3600))
                    T0 = first_0250 - 1                 # the world starts at clock 2 = T0 + 1 s
                    w = World(backend, 'single', ['t1', 't2'], tz=Z.DST)
                    try:
                        a = w.get(flavour, 't1')
                        a2 = w.get(flavour, 't1')
                        w.clock += 2400                  # twenty minutes
                        w.rewrite('t1', 2)
                        b = w.get(flavour, 't1', inm=a2['etag'], ims=http_date(a2['lm']) if a2['lm'] >= 0 else None)
                    finally:
                        w.close()
                    ctx.count(('dst', backend, flavour))
                    if a['up'] != 'ok' or a2['status'] != 200 or a2['etag'] is None:
                        raise tlc.MachineryError('dst case: %s %s did not create and serve the tile: %r %r' % (backend, flavour, a, a2))
                    bad = []
                    if b['status'] != 200 or b['body'] != 2:
                        bad.append('answered %d with content version %s (the tile as stored now is version 2)' % (b['status'], b['body']))
                    if not (b['lm'] > a2['lm']) and b['status'] == 200:
                        bad.append('Last-Modified went from second %d to second %d' % (a2['lm'], b['lm']))
                    if bad:
                        ctx.violation({'kind': 'dst-repeated-hour', 'backend': backend, 'flavour': flavour},
                                      '%s cache, %s, server zone %s: tile written at 02:50 summer time (2019-10-27T00:50:01Z), rewritten '
                                      'at 02:10 winter time (01:10Z), revalidated with the validators of the first version: %s' % (
                                          backend, flavour, Z.DST, '; '.join(bad)), {'kind': 'dst', 'backend': backend, 'flavour': flavour})
    finally:
        T0 = saved


def run(ctx):
    thorough = ctx.tier == 'thorough'
    install()
    tlc.sany(SPEC)
    flags_by = {}
    for backend in BACKENDS:
        flags_by[backend] = detect(ctx, backend)
        ctx.log('%s cache: this tree is described by %s' % (backend, {p: flags_text(f) for p, f in flags_by[backend].items()}))
    model_phase(ctx, flags_by)
    replay_phase(ctx, flags_by, num=50 if thorough else 10, depth=50 if thorough else 20)
    ctx.log('replayed %d behaviours (%d steps)' % (ctx.cov['replayed_behaviours'], ctx.cov['replayed_steps']))
    trace_phase(ctx, flags_by, ntraces=20 if thorough else 4, nsteps=200 if thorough else 70)
    ctx.log('validated %d recorded histories' % ctx.cov['traces_validated_against_impl'])
    dst_case(ctx)
    ctx.assumptions += [
        'time has half-second resolution in the model; a tile is not rewritten twice within one stored time unit '
        '(second for sqlite), where (mtime, size) validators cannot tell the versions apart',
        'validator stability is required of responses served from the cache; the response that creates or refreshes a '
        'tile is only required to be sound (no 304 unless the validator matches what is stored after the request, '
        'body = stored content)',
        'virtual clock: time.time is interposed in mapproxy.cache.base / mapproxy.cache.mbtiles / mapproxy.service.tile and '
        'file mtimes are set with os.utime to the virtual time of the step that wrote them, so sub-second skew between '
        'time.time() and the kernel mtime is not modelled',
        'ETag strings are opaque (bound to (mtime, size) by first occurrence, kept in bijection); the synthetic upstream '
        'keeps the byte length of a tile a function of its size class',
        'upstream failures are HTTP 500 mapped by on_error to a fill image with cache: False; responses for tiles outside '
        'the layer coverage (empty tiles) and caches without timestamps are not covered',
    ]
    return ctx.finish('model_checking',
                      'TLC: HttpCond exhaustively for the stated constants (property as action properties on every '
                      'transition); distinct = distinct replayed (behaviour, backend, path) + distinct recorded histories '
                      '+ reproduced counterexample replays')


def replay(ctx, data):
    case = data.get('case') or {}
    install()
    flags = _flags_from_json(case['flags'])
    if case.get('kind') == 'behaviour':
        steps = case['steps']
        if case.get('flavour'):
            for st in steps:
                if st['resp']['act'] == 'Get':
                    st['resp']['f'] = case['flavour']
        w = World(case['backend'], case['path'], ['t1', 't2'])
        try:
            n, what = replay_steps(w, steps)
        finally:
            w.close()
        for st in steps:
            print('  model:', _step_text(st))
        follows = what is None and n == len(steps)
        if case.get('mode') == 'counterexample':
            print('replay: the real application %s the counterexample of the model variant %s' % (
                'REPRODUCES' if follows else 'does not reproduce (step %d: %s)' % (n + 1, what), flags_text(flags)))
            return 1 if follows else 0
        print('replay: the real application %s the model variant %s' % (
            'follows' if follows else 'LEAVES (step %d: %s)' % (n + 1, what), flags_text(flags)))
        return 0 if follows else 1
    if case.get('kind') == 'trace':
        r, rejected, failing, _ = validate(ctx, 'replay', case['backend'], case['path'], flags, [case['events']])
        print('trace validation against %s: %s; failing properties: %s' % (
            flags_text(flags), 'rejected at %r' % rejected if rejected else 'accepted', failing))
        shutil.rmtree(ctx.workdir, ignore_errors=True)
        return 1 if rejected or failing else 0
    return 0
