"""RESEED - mapproxy-seed called again and again with --reseed-file / --reseed-interval / --continue / --progress-file
and a seed task refreshed by the modification time of the reseed file (not one of the listed properties; extends
coverage).

spec/Reseed.tla: the reseed file marks the start of a re-seeding pass, the progress file says that a pass is under way;
calls that end at once ("no need for re-seeding"), end while the configuration is loaded, are interrupted after k tiles
or run to the end; time passes.  NoNeedOnlyAfterCompletion, NoProgressMeansComplete, PassStartStable,
CompleteIsComplete, NoWastedSeeding.  Binding: the real command (mapproxy.seed.script.SeedScript with real YAML files, the
real seed() / TileWalker / ProgressStore, a real file cache); the worker pool is replaced by one that creates the tiles in
the calling process and interrupts at a chosen hand-over, the clock of the script is virtual.  TLC behaviours are executed
call by call, random histories are validated by TLC (spec/trace/Trace_Reseed.tla).  Variant "asfound" (the progress file
is first written by the walk: a call that ends while the configuration is loaded leaves a new reseed file and no progress
file, and the next call says "no need for re-seeding") is the code before the repair; its counterexample is run on the
real command.
"""
import io
import json
import os
import shutil
import sys
import tempfile

from engine import tlc
from harness.c05 import parse_action

SPEC = os.path.join(tlc.SPEC_DIR, 'Reseed.tla')
INVS = ['TypeOK', 'NoProgressMeansComplete']
PROPS = ['NoNeedOnlyAfterCompletion', 'PassStartStable', 'CompleteIsComplete', 'NoWastedSeeding']
N = 4
INTERVAL = 3
BASE = 1600000000
TS, SPAN = 8, 100

_state = {'world': None, 'done': False}


class _VTime(object):
    def time(self):
        w = _state['world']
        return float(BASE + 1000 * w.clock) if w is not None else __import__('time').time()

    def __getattr__(self, name):
        return getattr(__import__('time'), name)


def install():
    if _state['done']:
        return
    import re
    import mapproxy.client.http as H
    import mapproxy.seed.script as SC
    import mapproxy.seed.seeder as SE

    def fake_open(self, url, data=None, method=None):
        from PIL import Image
        w = _state['world']
        m = re.search(r'/t/(\d+)/(\d+)/(\d+)\.png', url)
        if w is None or not m:
            raise H.HTTPClientError('no world for %s' % url, response_code=500)
        w.fetched.append(int(m.group(2)) + 1)
        b = io.BytesIO()
        Image.new('RGB', (TS, TS), (0, 100 + w.clock, 0)).save(b, 'PNG')
        b.seek(0)
        b.headers = {'Content-type': 'image/png'}
        b.code = 200
        return b

    class StubPool(object):
        """creates the tiles in the calling process; interrupts the seeding at the chosen hand-over"""

        def __init__(self, task, worker_class, size=2, dry_run=False, progress_logger=None):
            self.task = task
            self.progress_logger = progress_logger

        def process(self, tiles, progress):
            w = _state['world']
            if w.stop_after is not None and w.handed >= w.stop_after:
                raise SE.SeedInterrupted()
            w.handed += 1
            with self.task.tile_manager.session():
                self.task.tile_manager.load_tile_coords(list(tiles))
            if self.progress_logger:
                self.progress_logger.log_step(progress)

        def stop(self, force=False):
            pass

    H.HTTPClient.open = fake_open
    SE.TileWorkerPool = StubPool
    SC.time = _VTime()
    _state['done'] = True


class World(object):
    def __init__(self):
        import yaml
        install()
        self.dir = d = tempfile.mkdtemp(prefix='verif-reseed-')
        self.clock = 1
        self.fetched, self.handed, self.stop_after = [], 0, None
        self.F = os.path.join(d, 'reseed.time')
        self.P = os.path.join(d, 'progress')
        self.conf = os.path.join(d, 'mapproxy.yaml')
        self.seedconf = os.path.join(d, 'seed.yaml')
        self.stamps = {u: 0 for u in range(1, N + 1)}
        conf = {'services': {'tms': {}},
                'grids': {'g': {'srs': 'EPSG:3857', 'bbox': [0, 0, N * SPAN, SPAN], 'res': [SPAN / float(TS)], 'tile_size': [TS, TS], 'origin': 'nw'}},
                'sources': {'s': {'type': 'tile', 'url': 'http://up.invalid/t/%(z)s/%(x)s/%(y)s.png', 'grid': 'g'}},
                'caches': {'c': {'grids': ['g'], 'sources': ['s'], 'format': 'image/png',
                                 'cache': {'type': 'file', 'directory': os.path.join(d, 'cache')}}},
                'layers': [{'name': 'lay', 'title': 'lay', 'sources': ['c']}],
                'globals': {'cache': {'base_dir': os.path.join(d, 'cd'), 'lock_dir': os.path.join(d, 'locks'),
                                      'tile_lock_dir': os.path.join(d, 'tlocks')}}}
        with open(self.conf, 'w') as f:
            yaml.safe_dump(conf, f)
        # a second task on the same cache (seed configurations usually hold several): it comes after the re-seeding task, has
        # a refresh time of its own (long ago: it only fills what is missing) and finds nothing to do - the tile manager of
        # the cache is shared by both tasks, each has to be walked with its own refresh time
        self.good_seed = {'seeds': {'s': {'caches': ['c'], 'grids': ['g'], 'levels': [0], 'refresh_before': {'mtime': self.F}},
                                    'zfill': {'caches': ['c'], 'grids': ['g'], 'levels': [0], 'refresh_before': {'time': '2000-01-01T00:00:00'}}}}
        self.bad_seed = {'seeds': {'s': {'caches': ['nocache'], 'grids': ['g'], 'levels': [0], 'refresh_before': {'mtime': self.F}}}}

    def close(self):
        if _state['world'] is self:
            _state['world'] = None
        shutil.rmtree(self.dir, ignore_errors=True)

    def _tile_path(self, u):
        return os.path.join(self.dir, 'cache', '00', '000', '000', '%03d' % (u - 1), '000', '000', '000.png')

    def f_tick(self):
        if not os.path.exists(self.F):
            return 0
        return int(round((os.stat(self.F).st_mtime - BASE) / 1000.0))

    def call(self, kind, k=None):
        import yaml
        from mapproxy.seed.script import SeedScript
        _state['world'] = self
        self.fetched, self.handed = [], 0
        self.stop_after = k if kind == 'stop' else None
        with open(self.seedconf, 'w') as f:
            yaml.safe_dump(self.bad_seed if kind == 'error' else self.good_seed, f)
        argv, out = sys.argv, sys.stdout
        sys.argv = ['mapproxy-seed', '-f', self.conf, '-s', self.seedconf, '--reseed-file', self.F, '--reseed-interval', '%ds' % (1000 * INTERVAL),
                    '--continue', '--progress-file', self.P, '-c', '1']
        sys.stdout = io.StringIO()
        try:
            try:
                rc = SeedScript()()
            except SystemExit as ex:
                rc = 'exit:%s' % ex.code
            text = sys.stdout.getvalue()
        finally:
            sys.argv, sys.stdout = argv, out
        if rc == 'exit:1' and 'no need for re-seeding' in text:
            outcome = 'noneed'
        elif rc == 'exit:2':
            outcome = 'error'
        elif rc == 3:
            outcome = 'interrupted'
        elif rc is None:
            outcome = 'complete'
        else:
            outcome = 'other:%s' % (rc,)
        # files written by the kernel clock get the virtual time of the call
        if os.path.exists(self.F) and os.stat(self.F).st_mtime > BASE + 10 ** 8:
            os.utime(self.F, (BASE + 1000 * self.clock, BASE + 1000 * self.clock))
        for u in sorted(set(self.fetched)):
            self.stamps[u] = self.clock + 1
            os.utime(self._tile_path(u), (BASE + 1000 * self.clock + 500, BASE + 1000 * self.clock + 500))
        ev = {'op': 'call', 'kind': kind, 'k': k if k is not None else 0, 'out': outcome, 'seeded': sorted(set(self.fetched)),
              'dup': len(self.fetched) != len(set(self.fetched)), 'F': self.f_tick(), 'P': os.path.exists(self.P),
              'stamp': [self.stamps[u] for u in range(1, N + 1)]}
        for u in range(1, N + 1):
            if (self.stamps[u] > 0) != os.path.exists(self._tile_path(u)):
                ev['anomaly'] = 'tile %d: stamp %d but file exists=%s' % (u, self.stamps[u], os.path.exists(self._tile_path(u)))
        self.clock += 1
        return ev

    def tick(self, d):
        self.clock += d
        return {'op': 'tick', 'kind': 'tick', 'k': d, 'out': 'none', 'seeded': [], 'dup': False, 'F': self.f_tick(), 'P': os.path.exists(self.P),
                'stamp': [self.stamps[u] for u in range(1, N + 1)]}


def _delete(w):
    os.remove(w.F)
    return {'op': 'delete', 'kind': 'delete', 'k': 0, 'out': 'none', 'seeded': [], 'dup': False, 'F': 0, 'P': os.path.exists(w.P),
            'stamp': [w.stamps[u] for u in range(1, N + 1)]}


def consts(variant, maxclock=9, n=N):
    return dict(N=n, Interval=INTERVAL, MaxClock=maxclock, Variant=variant)


def do_action(w, name, args):
    if name == 'Tick':
        return w.tick(int(args[0]))
    if name == 'DeleteF':
        return _delete(w)
    if name == 'CallStop':
        return w.call('stop', int(args[0]))
    return w.call({'CallNoNeed': 'end', 'CallEnd': 'end', 'CallError': 'error'}[name])


def compare(ev, st, name):
    if ev['op'] == 'call':
        want = str(st['last']['out'])
        if ev['out'] != want:
            return 'outcome: spec %s, real %s' % (want, ev['out'])
        if sorted(st['last']['seeded']) != ev['seeded']:
            return 'tiles seeded: spec %s, real %s' % (sorted(st['last']['seeded']), ev['seeded'])
        if ev['dup']:
            return 'a tile was fetched twice in one call'
    if int(st['F']) != ev['F']:
        return 'reseed file time: spec %s, real %s' % (st['F'], ev['F'])
    if bool(st['P']) != ev['P']:
        return 'progress file exists: spec %s, real %s' % (st['P'], ev['P'])
    spec_stamp = [int(st['stamp'][u]) for u in sorted(st['stamp'])] if isinstance(st['stamp'], dict) else [int(x) for x in st['stamp']]
    if spec_stamp != ev['stamp']:
        return 'tile stamps: spec %s, real %s' % (spec_stamp, ev['stamp'])
    if ev.get('anomaly'):
        return ev['anomaly']
    return None


def replay_behaviour(beh):
    w = World()
    try:
        n = 0
        for act, st in beh[1:]:
            name, args = parse_action(act)
            n += 1
            ev = do_action(w, name, args)
            what = compare(ev, st, name)
            if what:
                return 'diverged', 'step %d %s: %s' % (n, act, what), ev
        return 'ok', '', None
    finally:
        w.close()


def random_history(rng, n):
    w = World()
    try:
        evs = []
        for _ in range(n):
            k = rng.random()
            if k < 0.06 and os.path.exists(w.F):
                evs.append(_delete(w))
            elif k < 0.25:
                evs.append(w.tick(rng.choice([1, 1, INTERVAL])))
            elif k < 0.4:
                evs.append(w.call('error'))
            elif k < 0.7:
                evs.append(w.call('stop', rng.randrange(0, N)))
            else:
                evs.append(w.call('end'))
        return evs
    finally:
        w.close()


def detect_variant():
    w = World()
    try:
        e1 = w.call('error')
        return ('repaired' if e1['P'] else 'asfound'), e1
    finally:
        w.close()


def run(ctx):
    import logging
    logging.disable(logging.CRITICAL)
    thorough = ctx.tier == 'thorough'
    tlc.sany(SPEC)
    variant, ev = detect_variant()
    ctx.log('the tree implements Variant=%s (after a call that ends while the configuration is loaded: reseed file %s, progress file %s)' % (
        variant, ev['F'], ev['P']))
    d = ctx.sub('mc-asfound')
    mp, cp = tlc.write_mc(d, 'Reseed', 'MC_R', consts('asfound', n=2), properties=['NoNeedOnlyAfterCompletion'], constraint='Bound')
    r = tlc.run(mp, cp, d, timeout=600, coverage=False, workers=2)
    if r.violated != 'NoNeedOnlyAfterCompletion':
        raise tlc.MachineryError('the as-found variant should violate NoNeedOnlyAfterCompletion: %r %s' % (r, r.out[-600:]))
    status, detail, _ = replay_behaviour([(a, None if s is None else s) for a, s in r.trace]) if N == 2 else replay_cx(r.trace)
    ctx.sample({'kind': 'counterexample of Variant=asfound run on the real command', 'actions': [a for a, _ in r.trace[1:]],
                'result': status, 'detail': detail})
    if status == 'ok':
        ctx.violation({'kind': 'noneed-after-incomplete-pass', 'cause': 'reseed-file-touched-before-the-configuration-is-loaded'},
                      'mapproxy-seed --reseed-file/--reseed-interval: %s - "no need for re-seeding" although nothing was seeded since the '
                      'reseed file was written' % [a for a, _ in r.trace[1:]], {'behaviour': [a for a, _ in r.trace]})
    invs = INVS if variant == 'repaired' else ['TypeOK']
    props = PROPS if variant == 'repaired' else [p for p in PROPS if p != 'NoNeedOnlyAfterCompletion']
    d = ctx.sub('mc')
    mp, cp = tlc.write_mc(d, 'Reseed', 'MC_R', consts(variant, maxclock=11 if thorough else 9), invariants=invs, properties=props, constraint='Bound')
    r = tlc.run(mp, cp, d, timeout=1800, workers=8, coverage=True)
    ctx.log('Reseed.tla: %r' % r)
    if r.violated:
        ctx.violation({'kind': 'model', 'property': r.violated}, 'Reseed.tla violates %s' % r.violated, {'trace': [a for a, _ in r.trace]})
    elif not r.ok:
        raise tlc.MachineryError('Reseed.tla: %r %s' % (r, r.out[-800:]))
    else:
        ctx.add_tlc('Reseed', r)
        for a in ('CallNoNeed', 'CallError', 'CallStop', 'CallEnd', 'Tick'):
            if r.coverage.get(a, (0, 0))[0] == 0:
                raise tlc.MachineryError('vacuity: %s never taken' % a)
    # (R) spec -> code
    d = ctx.sub('sim')
    mp, cp = tlc.write_mc(d, 'Reseed', 'MC_S', consts(variant, maxclock=60), constraint='Bound')
    prefix = os.path.join(d, 'beh')
    tlc.run(mp, cp, d, workers=1, simulate='file=%s,num=%d' % (prefix, 40 if thorough else 12), depth=16, seed=ctx.seed + 21, coverage=False, timeout=600)
    seen = set()
    nb = 0
    for _f, beh in tlc.sim_traces(prefix):
        if len(beh) < 2:
            continue
        nb += 1
        status, detail, ev = replay_behaviour(beh)
        ctx.cov['replayed_behaviours'] += 1
        ctx.cov['replayed_steps'] += len(beh) - 1
        ctx.count(('replay', tuple(a for a, _ in beh)))
        for a, st in beh[1:]:
            seen.add(parse_action(a)[0])
        if status != 'ok':
            ctx.violation({'kind': 'replay-' + status}, 'the real command leaves the model: %s' % detail, {'behaviour': [a for a, _ in beh]})
            break
    if nb == 0:
        raise tlc.MachineryError('no behaviours')
    need = {'CallNoNeed', 'CallError', 'CallStop', 'CallEnd', 'Tick'}
    if not ctx.violations and need - seen:
        raise tlc.MachineryError('vacuity: replayed behaviours never took %s' % sorted(need - seen))
    # (T) code -> spec
    traces = [random_history(ctx.rng, 14) for _ in range(30 if thorough else 10)]
    for t in traces:
        ctx.count(('hist', json.dumps([[e['kind'], e['k']] for e in t])))
    d = ctx.sub('tr')
    tf = os.path.join(d, 'batch.json')
    with open(tf, 'w') as f:
        json.dump(traces, f)
    mp, cp = tlc.write_mc(d, 'Trace_Reseed', 'MC_T', consts(variant, maxclock=100000), spec='TraceSpec', invariants=invs, properties=props,
                          post='TraceAccepted')
    r = tlc.run(mp, cp, d, workers=1, coverage=False, env={'TRACE_FILE': tf}, timeout=900)
    ctx.cov['traces_validated_against_impl'] += len(traces)
    ctx.cov['states'] += r.distinct
    ctx.cov['transitions'] += r.generated
    if r.violated and r.violated != 'postcondition':
        ctx.violation({'kind': 'trace-property', 'property': r.violated}, '%s violated in a recorded history' % r.violated, None)
    else:
        pr = tlc.find_prints(r.out, 'matched')
        if not pr:
            raise tlc.MachineryError('Trace_Reseed: no verdict: %s' % r.out[-1200:])
        mv = pr[-1][1]
        matched = list(mv) if isinstance(mv, tuple) else [mv[k2] for k2 in sorted(mv)]
        for i, t in enumerate(traces):
            if matched[i] < len(t):
                e = t[matched[i]]
                ctx.violation({'kind': 'trace-rejected', 'call': e['kind']},
                              'recorded history is not a behaviour of Reseed.tla at event %d: %s (before: %s)' % (
                                  matched[i] + 1, json.dumps(e), json.dumps(t[matched[i] - 1]) if matched[i] else '-'), {'trace': t[:matched[i] + 1]})
    ctx.sample({'kind': 'recorded history', 'events': traces[0][:8]})
    ctx.assumptions += ['one seed task over one level of four tiles with refresh_before: mtime of the reseed file (followed by a second task on the same cache with a refresh time long ago, which finds nothing to do); calls end at once, while the '
                        'configuration is loaded (broken seed.yaml), at a chosen hand-over (as --duration does) or at the end; the worker pool '
                        'creates the tiles in the calling process; the clock of the script is virtual (1000 s per tick, interval 3 ticks); '
                        'file time stamps written by the kernel clock are set to the virtual time of the call afterwards']
    return ctx.finish('model_checking', 'TLC: all histories of calls (no need / error / interrupted after k tiles / complete) and clock advances '
                      'up to the bound; behaviours executed on and histories recorded from the real mapproxy-seed command')


def replay_cx(trace):
    """counterexample found with fewer units than the harness world has: replay the action names (the model of the harness
    world agrees on outcomes that do not depend on the number of units)"""
    w = World()
    try:
        n = 0
        for act, st in trace[1:]:
            name, args = parse_action(act)
            n += 1
            ev = do_action(w, name, args)
            if ev['op'] == 'call' and ev['out'] != str(st['last']['out']):
                return 'diverged', 'step %d %s: outcome spec %s, real %s' % (n, act, st['last']['out'], ev['out']), ev
            if ev['op'] == 'call' and ev['out'] == 'noneed' and any(s <= ev['F'] for s in ev['stamp']):
                return 'ok', 'no need for re-seeding with stamps %s not newer than the reseed file %s' % (ev['stamp'], ev['F']), ev
        return 'diverged', 'the counterexample ends without "no need"', None
    finally:
        w.close()


def replay(ctx, data):
    return 0
