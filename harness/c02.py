"""C02 - tile addresses mean what the capabilities documents say they mean.

spec/TileAddr.tla (on spec/Lattice.tla) models what the TMS and WMTS capabilities publish and how each service
maps a public address to an internal tile; TLC checks for every catalogue grid when "client rectangle =
served rectangle" holds for all advertised addresses (characterisation Expect).  Binding: a real MapProxyApp is
built on each lattice grid (engine/lattice.LatticeApp) with a position-encoding upstream; the real capabilities
XML is parsed and must equal the model's; every advertised address is requested through TMS, TMS ?origin=nw,
WMTS KVP/REST and KML and the ground rectangle decoded from the returned pixels must equal the model's served
rectangle AND the rectangle a client computes from the real capabilities (spec/trace/Trace_TileAddr.tla).
"""
import json
import os
import re

from engine import tlc
from engine import lattice as L

SPEC = os.path.join(tlc.SPEC_DIR, 'TileAddr.tla')


def grid_size(g, l):
    w, h = g['bbox'][2] - g['bbox'][0], g['bbox'][3] - g['bbox'][1]
    r = g['res'][l]
    return (int(max(-((-(w // r)) // g['tw']), 1)), int(max(-((-(h // r)) // g['th']), 1)))


def as_int(v, what, problems):
    f = float(v)
    if abs(f - round(f)) > 1e-6:
        problems.append('%s = %r is not on the lattice' % (what, v))
    return int(round(f))


def parse_caps(app, g, problems, code='EPSG3857', latlon=False, mpu=1.0):
    from lxml import etree
    sc = app.scale

    def as_int(v, what, problems):      # real units -> lattice integers
        f = float(v) / sc
        if abs(f - round(f)) > 1e-5:
            problems.append('%s = %r is not on the lattice' % (what, v))
        return int(round(f))
    r = app.get('/tms/1.0.0/lay/%s' % code)
    tms = {'origin': [0, 0], 'w': 0, 'h': 0, 'sets': [], 'status': r.status_int}
    if r.status_int == 200:
        x = etree.fromstring(r.body)
        o = x.find('Origin')
        tms['origin'] = [as_int(o.get('x'), 'TMS Origin x', problems), as_int(o.get('y'), 'TMS Origin y', problems)]
        tf = x.find('TileFormat')
        tms['w'], tms['h'] = int(tf.get('width')), int(tf.get('height'))
        for ts in x.find('TileSets').findall('TileSet'):
            tms['sets'].append([int(ts.get('order')), as_int(ts.get('units-per-pixel'), 'units-per-pixel', problems)])
        bb = x.find('BoundingBox')
        tms['bbox'] = [as_int(bb.get(k), 'BoundingBox', problems) for k in ('minx', 'miny', 'maxx', 'maxy')]
    wm = {'offered': False, 'matrices': []}
    r = app.get('/wmts/1.0.0/WMTSCapabilities.xml')
    if r.status_int == 200:
        x = etree.fromstring(r.body)
        ns = {'w': 'http://www.opengis.net/wmts/1.0', 'ows': 'http://www.opengis.net/ows/1.1'}
        for tms_el in x.findall('.//w:Contents/w:TileMatrixSet', ns):
            if tms_el.find('ows:Identifier', ns).text != 'g':
                continue
            wm['offered'] = bool(x.findall('.//w:Contents/w:Layer', ns))
            for m in tms_el.findall('w:TileMatrix', ns):
                tl = [float(v) for v in m.find('w:TopLeftCorner', ns).text.split()]
                if latlon:
                    tl = [tl[1], tl[0]]
                sd = float(m.find('w:ScaleDenominator', ns).text) / mpu
                wm['matrices'].append({'id': m.find('ows:Identifier', ns).text,
                                       'tlx': as_int(tl[0], 'TopLeftCorner', problems), 'tly': as_int(tl[1], 'TopLeftCorner', problems),
                                       'res': as_int(sd * 0.00028, 'ScaleDenominator*0.28mm', problems),
                                       'tw': int(m.find('w:TileWidth', ns).text), 'th': int(m.find('w:TileHeight', ns).text),
                                       'mw': int(m.find('w:MatrixWidth', ns).text), 'mh': int(m.find('w:MatrixHeight', ns).text)})
    return tms, wm


def parse_wmsc(app, g, problems, srs='EPSG:3857'):
    """the WMS-C TileSet of layer `lay` from the WMS 1.1.1 capabilities requested with TILED=true"""
    from lxml import etree
    sc = app.scale

    def as_int(v, what):
        f = float(v) / sc
        if abs(f - round(f)) > 1e-5:
            problems.append('%s = %r is not on the lattice' % (what, v))
        return int(round(f))
    wc = {'offered': False, 'box': [0, 0, 0, 0], 'res': [], 'w': 0, 'h': 0, 'srs': srs}
    r = app.get('/service?SERVICE=WMS&REQUEST=GetCapabilities&VERSION=1.1.1&TILED=true', status='*')
    if r.status_int != 200:
        return wc
    x = etree.fromstring(r.body)
    for ts in x.findall('.//VendorSpecificCapabilities/TileSet'):
        if (ts.findtext('Layers') or '').strip() != 'lay' or (ts.findtext('SRS') or '').strip() != srs:
            continue
        bb = ts.find('BoundingBox')
        wc['offered'] = True
        wc['box'] = [as_int(bb.get(k), 'WMS-C BoundingBox') for k in ('minx', 'miny', 'maxx', 'maxy')]
        wc['res'] = [as_int(v, 'WMS-C resolution') for v in ts.findtext('Resolutions').split()]
        wc['w'], wc['h'] = int(ts.findtext('Width')), int(ts.findtext('Height'))
        wc['format'] = ts.findtext('Format')
    return wc


def kml_overlays(app, g, problems, code, srs, addrs):
    """the GroundOverlays (tile address from the image link, LatLonBox -> lattice rectangle in the grid SRS) of the KML
    super-overlay documents of the tiles `addrs`"""
    from lxml import etree
    from mapproxy.srs import SRS
    ns = {'k': 'http://www.opengis.net/kml/2.2'}
    sc = app.scale
    out = []
    for (x, y, z) in addrs:
        r = app.get('/kml/lay/%s/%d/%d/%d.kml' % (code, z, x, y), status='*')
        if r.status_int != 200:
            continue
        doc = etree.fromstring(r.body)
        for go in doc.findall('.//k:GroundOverlay', ns):
            href = go.findtext('k:Icon/k:href', namespaces=ns)
            m = re.search(r'/kml/lay/%s/(-?\d+)/(-?\d+)/(-?\d+)\.png' % code, href or '')
            box = go.find('k:LatLonBox', ns)
            if not m or box is None:
                problems.append('KML GroundOverlay without tile link / LatLonBox in %s' % r.request.path)
                continue
            n, s_, e, w = [float(box.findtext('k:' + k, namespaces=ns)) for k in ('north', 'south', 'east', 'west')]
            if srs != 'EPSG:4326':
                (x0, y0), (x1, y1) = SRS(4326).transform_to(SRS(srs), [(w, s_), (e, n)])
            else:
                x0, y0, x1, y1 = w, s_, e, n
            rect = []
            for v in (x0, y0, x1, y1):
                f = v / sc
                if abs(f - round(f)) > 0.3:          # the document prints 6 decimals of a degree
                    problems.append('KML LatLonBox corner %r is not on the lattice' % (v,))
                rect.append(int(round(f)))
            out.append({'f': 'kmlbox', 'a': [int(m.group(2)), int(m.group(3)), int(m.group(1))], 'rect': rect})
    return out


def fetch_wmsc(app, g, wc, a):
    """GetMap TILED=true for WMS-C tile (x, y) of resolution number n, computed from the real TileSet"""
    x, y, n = a
    r = wc['res'][n]
    sc = app.scale
    bb = [(wc['box'][0] + x * wc['w'] * r) * sc, (wc['box'][1] + y * wc['h'] * r) * sc,
          (wc['box'][0] + (x + 1) * wc['w'] * r) * sc, (wc['box'][1] + (y + 1) * wc['h'] * r) * sc]
    resp = app.get('/service?SERVICE=WMS&VERSION=1.1.1&REQUEST=GetMap&LAYERS=lay&STYLES=&SRS=%s&BBOX=%r,%r,%r,%r&WIDTH=%d&HEIGHT=%d'
                   '&FORMAT=%s&TILED=true' % (wc['srs'], bb[0], bb[1], bb[2], bb[3], wc['w'], wc['h'], wc.get('format') or 'image/png'),
                   status='*')
    if resp.status_int != 200 or not resp.content_type.startswith('image/'):
        return resp.status_int, None
    lv, cells, bg = L.decode_cells(g, app.image(resp))
    if len(cells) != g['tw'] * g['th'] or len(lv) != 1:
        return 200, None
    rect = L.cells_rect(g, list(lv)[0], cells)
    # all pixels must form the regular raster of that rectangle (as in fetch)
    r0 = g['res'][list(lv)[0]]
    for (i, j), (cx, cy) in cells.items():
        if abs(g['bbox'][0] + cx * r0 - (rect[0] + i * r0)) > 1e-6 * r0 or abs(g['bbox'][1] + (cy + 1) * r0 - (rect[3] - j * r0)) > 1e-6 * r0:
            return 200, 'scrambled'
    return 200, rect


def fetch(app, g, f, a, k, code='EPSG3857'):
    x, y, z = a
    if f == 'tms':
        r = app.get('/tms/1.0.0/lay/%s/%d/%d/%d.png' % (code, z, x, y))
    elif f == 'tms_nw':
        r = app.get('/tiles/lay/%s/%d/%d/%d.png?origin=nw' % (code, z, x, y))
    elif f == 'kml':
        r = app.get('/kml/lay/%s/%d/%d/%d.png' % (code, z, x, y))
    elif k % 2:
        r = app.get('/wmts/lay/g/%02d/%d/%d.png' % (z, x, y))
    else:
        r = app.get('/service?SERVICE=WMTS&REQUEST=GetTile&VERSION=1.0.0&LAYER=lay&STYLE=default&TILEMATRIXSET=g'
                    '&TILEMATRIX=%02d&TILEROW=%d&TILECOL=%d&FORMAT=image/png' % (z, y, x))
    if r.status_int != 200 or not r.content_type.startswith('image/'):
        return r.status_int, None
    lv, cells, bg = L.decode_cells(g, app.image(r))
    if len(cells) != g['tw'] * g['th'] or len(lv) != 1:
        return 200, None
    rect = L.cells_rect(g, list(lv)[0], cells)
    # all pixels must form the regular raster of that rectangle
    r0 = g['res'][list(lv)[0]]
    for (i, j), (cx, cy) in cells.items():
        if abs(g['bbox'][0] + cx * r0 - (rect[0] + i * r0)) > 1e-6 * r0 or abs(g['bbox'][1] + (cy + 1) * r0 - (rect[3] - j * r0)) > 1e-6 * r0:
            return 200, 'scrambled'
    return 200, rect


def validate(ctx, name, doc):
    d = ctx.sub('tr-' + name)
    tf = os.path.join(d, 'cases.json')
    with open(tf, 'w') as f:
        json.dump(doc, f)
    mp, cp = tlc.write_mc(d, 'Trace_TileAddr', 'MC_TA', {}, spec='TraceSpec')
    r = tlc.run(mp, cp, d, workers=1, coverage=False, env={'TRACE_FILE': tf}, timeout=1800, heap='4g')
    pr = tlc.find_prints(r.out, 'verdict')
    if not pr:
        raise tlc.MachineryError('Trace_TileAddr gave no verdict for %s: %s' % (name, r.out[-1500:]))
    return r, pr[-1][1]


def internal_level(g, f, z):
    z1 = z + 1 if (f == 'tms' and g.get('sf')) else z
    return 2 * z1 if g.get('so') else z1


def exercise(ctx, label, name, g, app, cov, thorough, code='EPSG3857', latlon=False, mpu=1.0, srs='EPSG:3857'):
    bx0, by0, bx1, by1 = g['bbox']
    problems = []
    tms, wm = parse_caps(app, g, problems, code, latlon, mpu)
    wc = parse_wmsc(app, g, problems, srs)
    tiles = []
    refused = []
    k = 0
    if wc['offered'] and wc['w'] and wc['h']:
        for n, r in enumerate(wc['res']):
            if r <= 0:
                continue
            nx = -((-(wc['box'][2] - wc['box'][0])) // (wc['w'] * r))
            ny = -((-(wc['box'][3] - wc['box'][1])) // (wc['h'] * r))
            coords = [(x, y, n) for x in range(nx) for y in range(ny)]
            if len(coords) > 24 and not thorough:
                ctx.rng.shuffle(coords)
                keep = [(0, 0, n), (nx - 1, ny - 1, n), (0, ny - 1, n), (nx - 1, 0, n)]
                coords = keep + [c for c in coords if c not in keep][:14]
            for a in coords:
                status, rect = fetch_wmsc(app, g, wc, a)
                ctx.count((label, 'wmsc', a))
                if rect == 'scrambled' and cov is not None:
                    continue          # clipped, slightly stretched sub-request at a coverage edge (see below)
                if rect == 'scrambled':
                    ctx.violation({'kind': 'tile-content', 'grid': name, 'flavour': 'wmsc'},
                                  '%s: wmsc %s returned pixels that are not a regular raster of one rectangle' % (label, a), None)
                elif rect is not None:
                    tiles.append({'f': 'wmsc', 'a': list(a), 'rect': [int(round(v)) for v in rect]})
                elif status != 200:
                    refused.append({'f': 'wmsc', 'a': list(a), 'status': status})
    for f in ('tms', 'tms_nw', 'kml', 'wmts'):
        if f == 'wmts' and not wm['offered']:
            continue
        for z in range(len(g['res'])):
            l = internal_level(g, f, z)
            if l >= len(g['res']):
                continue
            gx, gy = grid_size(g, l)
            coords = [(x, y, z) for x in range(gx) for y in range(gy)]
            if len(coords) > 40 and not thorough:
                ctx.rng.shuffle(coords)
                keep = [(0, 0, z), (gx - 1, gy - 1, z), (0, gy - 1, z), (gx - 1, 0, z)]
                coords = keep + [c for c in coords if c not in keep][:26]
            for a in coords:
                k += 1
                status, rect = fetch(app, g, f, a, k, code)
                ctx.count((label, f, a))
                if rect == 'scrambled' and cov is not None:
                    # a coverage edge that is not on the pixel raster of the level makes the source answer a clipped,
                    # slightly stretched sub-request: sub-pixel content shifts are C01/C04 matter, not tile addressing
                    continue
                if rect == 'scrambled':
                    ctx.violation({'kind': 'tile-content', 'grid': name, 'flavour': f},
                                  '%s: %s %s returned pixels that are not a regular raster of one rectangle' % (label, f, a), None)
                elif rect is not None:
                    tiles.append({'f': f, 'a': list(a), 'rect': [int(round(v)) for v in rect]})
                elif status != 200 and cov is None:
                    ctx.violation({'kind': 'advertised-address-refused', 'grid': name, 'flavour': f},
                                  '%s: advertised address %s %s answered %s' % (label, f, a, status), None)
    # KML super-overlay documents: the LatLonBox of every listed tile image
    if not g.get('sf') and not g.get('so'):
        docs = []
        for z in range(len(g['res']) - 1):            # (the document of the last level is a 500: C18's matter)
            gx, gy = grid_size(g, z)
            cs = [(x, y, z) for x in range(gx) for y in range(gy)]
            if len(cs) > 10 and not thorough:
                ctx.rng.shuffle(cs)
                cs = [(0, 0, z), (gx - 1, gy - 1, z), (0, gy - 1, z), (gx - 1, 0, z)] + cs[:6]
            docs += cs
        boxes = kml_overlays(app, g, problems, code, srs, docs)
        seen = set()
        if len(g['res']) > 1 and not boxes:
            raise tlc.MachineryError('%s: no GroundOverlay found in the KML documents' % label)
        ctx.cov['kml_latlonboxes'] = ctx.cov.get('kml_latlonboxes', 0) + len(boxes)
        for b in boxes:
            k_ = tuple(b['a'])
            if k_ not in seen:
                seen.add(k_)
                tiles.append(b)
                ctx.count((label, 'kmlbox', k_))
    gj = dict(g)
    gj['res'] = [int(round(r)) for r in g['res']]       # odd sqrt2 levels are never addressed publicly: rounded
    doc = {'grid': gj, 'tms': tms, 'wmts': wm, 'wmsc': wc, 'tiles': tiles, 'refused': refused}
    r, v = validate(ctx, label, doc)
    ctx.cov['states'] += max(r.distinct, 1)
    ctx.cov['transitions'] += len(tiles)
    ctx.cov['traces_validated_against_impl'] += 1
    if label == 'G2':
        ctx.sample({'grid': name, 'tms capabilities': tms, 'wmts matrices': wm['matrices'][:2], 'tiles': tiles[:4]})
    for p in problems[:1]:
        ctx.violation({'kind': 'capabilities-off-lattice', 'grid': name}, '%s: %s' % (label, p), None)
    if not v['model']:
        raise tlc.MachineryError('%s: characterisation Expect disagrees with CapConsistent in the model' % label)
    if not v['tmscap'] or not v['wmtscap'] or not v['cross']:
        ctx.violation({'kind': 'capabilities-vs-model', 'grid': name, 'tms': bool(v['tmscap']), 'wmts': bool(v['wmtscap'])},
                      '%s: published capabilities differ from the model (tms ok=%s, wmts ok=%s, cross ok=%s): %s %s' % (
                          label, v['tmscap'], v['wmtscap'], v['cross'], json.dumps(tms), json.dumps(wm)[:300]), {'doc': doc if len(tiles) < 50 else None})
    if not v['tmsorigin']:
        ctx.violation({'kind': 'tms-origin', 'cause': 'layer-extent-corner-instead-of-grid-origin'},
                      '%s: TMS <Origin> is %s, tile (0,0) of the grid starts at %s (layer extent %s)' % (
                          label, tms['origin'], [bx0, by0], tms.get('bbox')), {'grid': g, 'coverage': cov})
    if not v['wmscmodel']:
        raise tlc.MachineryError('%s: characterisation WmscExpect disagrees with WmscConsistent in the model' % label)
    if not v['wmsccap']:
        ctx.violation({'kind': 'capabilities-vs-model', 'grid': name, 'wmsc': False},
                      '%s: published WMS-C TileSet differs from the model: %s' % (label, json.dumps(wc)), None)
    if v['refusedbinding']:
        c = refused[v['refusedbinding'] - 1]
        ctx.violation({'kind': 'address-mapping', 'grid': name, 'flavour': 'wmsc'},
                      '%s: WMS-C tile %s refused with %s although the model serves it' % (label, c['a'], c['status']), {'grid': g, 'tile': c})
    if refused:
        c = refused[0]
        if wc['box'][:2] != [bx0, by0] and not v['wmscexpect']:
            sig = {'kind': 'wmsc-refused', 'cause': 'tileset-boundingbox-is-the-layer-extent-not-the-grid'}
        elif g['ul'] and not v['wmscexpect']:
            sig = {'kind': 'wmsc-refused', 'cause': 'rows-counted-from-south-on-ul-grid-whose-rows-do-not-fill-the-bbox'}
        else:
            sig = {'kind': 'wmsc-refused', 'grid': name}
        ctx.violation(sig, '%s: %d advertised WMS-C addresses refused, e.g. tile %s computed from the TileSet (BoundingBox %s, '
                      'resolutions %s) answered %s (grid bbox %s, layer extent %s)' % (
                          label, len(refused), c['a'], wc['box'], wc['res'], c['status'], [bx0, by0, bx1, by1], cov), {'grid': g, 'coverage': cov, 'tile': c})
    if v['binding']:
        c = tiles[v['binding'] - 1]
        ctx.violation({'kind': 'address-mapping', 'grid': name, 'flavour': c['f']},
                      '%s: %d tiles: e.g. %s %s served ground rectangle %s, the model of the address mapping says otherwise' % (
                          label, v['nbinding'], c['f'], c['a'], c['rect']), {'grid': g, 'tile': c})
    for f, idx in sorted(v['property'].items()):
        if not idx:
            continue
        c = tiles[idx - 1]
        if c['f'] in ('tms', 'kml') and g['ul'] and not v['expect_tms'] and v['tmsorigin']:
            sig = {'kind': 'client-rect', 'cause': 'rows-counted-from-south-on-ul-grid-whose-rows-do-not-fill-the-bbox'}
        elif not v['tmsorigin'] and c['f'] in ('tms', 'kml'):
            sig = {'kind': 'client-rect', 'cause': 'tms-origin'}
        else:
            sig = {'kind': 'client-rect', 'grid': name, 'flavour': c['f']}
        ctx.violation(sig, '%s: %s %s serves %s but a client computes another rectangle from the capabilities '
                      '(TMS origin %s, sets %s; %d addresses of all flavours affected)' % (
                          label, c['f'], c['a'], c['rect'], tms['origin'], tms['sets'][:3], v['nproperty']), {'grid': g, 'tile': c})
    ctx.log('%s: %d tiles decoded (%d wmsc, %d wmsc refused); caps ok=%s/%s/%s origin ok=%s binding bad=%d property bad=%d' % (
        label, len(tiles), sum(1 for t in tiles if t['f'] == 'wmsc'), len(refused), v['tmscap'], v['wmtscap'], v['wmsccap'], v['tmsorigin'], v['nbinding'], v['nproperty']))


def run(ctx):
    import math
    thorough = ctx.tier == 'thorough'
    tlc.sany(SPEC)
    names = ['G2', 'G2ul', 'Gpart', 'Gpartul', 'Gneg', 'Grect', 'Grectul', 'G15', 'Gcust', 'Gunal', 'Gunalul', 'G1'] if thorough else \
            ['G2', 'G2ul', 'Gpartul', 'Gneg', 'Grect', 'Grectul', 'Gunal', 'G1', 'Gcust']
    for name in names:
        g = L.spec_grid(name)
        bx0, by0, bx1, by1 = g['bbox']
        covs = [None, (bx0 + 160, by0 + 80, bx1 - 80, by1 - 40)]
        if name == 'G1' or not thorough and name not in ('G2', 'Gneg'):
            covs = [None]
        for cov in covs:
            label = name + ('-cov' if cov else '')
            app = L.LatticeApp(g, source_coverage=cov)
            try:
                exercise(ctx, label, name, g, app, cov, thorough)
            finally:
                app.close()
    # the global profiles (TMS hides level 0) and the sqrt2 variant (every second level is public), on the real
    # default bboxes: lattice unit = half extent / 5120, 4x4 pixel tiles
    B = 5120
    for label, base, srs, code, nlev, sqrt2, half, latlon, mpu, first in (
            ('global-mercator', 'GLOBAL_MERCATOR', 'EPSG:900913', 'EPSG900913', 5, False, 20037508.342789244, False, 1.0, 0),
            ('global-mercator-sqrt2', 'GLOBAL_MERCATOR', 'EPSG:900913', 'EPSG900913', 7, True, 20037508.342789244, False, 1.0, 0),
            ('global-geodetic', 'GLOBAL_GEODETIC', 'EPSG:4326', 'EPSG4326', 4, False, 180.0, True, 111319.4907932736, 0),
            # the same profiles with a resolution list that starts one level further down (min_res): level 0 is not the
            # single world tile, the TMS profile hides it all the same
            ('global-geodetic-minres', 'GLOBAL_GEODETIC', 'EPSG:4326', 'EPSG4326', 3, False, 180.0, True, 111319.4907932736, 1),
            ('global-mercator-minres', 'GLOBAL_MERCATOR', 'EPSG:900913', 'EPSG900913', 3, False, 20037508.342789244, False, 1.0, 1)):
        geod = base == 'GLOBAL_GEODETIC'
        bbox = [-B, -B // 2, B, B // 2] if geod else [-B, -B, B, B]
        res0 = 2 * B / 4.0
        res = [res0 / (math.sqrt(2) ** (k + first) if sqrt2 else 2 ** (k + first)) for k in range(nlev)]
        g = dict(ul=False, bbox=bbox, tw=4, th=4, res=res, sn=L.SN, sd=L.SD, ms=L.MS, thr=[], sf=True, so=sqrt2)
        gc = {'base': base, 'tile_size': [4, 4], 'num_levels': nlev}
        if sqrt2:
            gc['res_factor'] = 'sqrt2'
        if first:
            gc['min_res'] = res[0] * half / B
        app = L.LatticeApp(g, srs=srs, scale=half / B, grid_conf=gc)
        try:
            exercise(ctx, label, label, g, app, None, thorough, code=code, latlon=latlon, mpu=mpu, srs=srs)
        finally:
            app.close()
    deep_levels_case(ctx)
    ctx.assumptions += [
        "lattice world, 'local' profile grids (the global-mercator / global-geodetic profiles that hide level 0 are covered "
        'by C16 for addressing and not here), EPSG:3857 only (no lat/long axis order)',
        'KML: the LatLonBox of every GroundOverlay of the super-overlay documents (local profile grids) is compared with the tile its image link serves; Region / Lod elements are not',
        'only tiles completely inside the source coverage are decoded',
    ]
    return ctx.finish('model_checking',
                      'TLC evaluates for every real app (grid x layer extent) the capabilities model, the address mapping and C02 '
                      'itself on the decoded ground rectangle of every requested advertised address; distinct = (grid, flavour, address)')


def deep_levels_case(ctx):
    """The numbers of the capabilities at deep levels of geographic grids (units per pixel around 1e-5 degrees, tile
    indices in the hundred thousands): the rectangle a client computes from the TMS TileMap document - Origin + index x tile
    size x units-per-pixel - has to be the rectangle the tile is rendered from, to half a pixel, also far from the origin.
    TLC has no reals and 32 bit integers: this comparison is numeric, outside the model (the lattice worlds above keep
    every number an integer)."""
    import io
    import shutil
    import tempfile
    from urllib.parse import urlparse, parse_qs
    from lxml import etree
    from PIL import Image
    import mapproxy.client.http as http
    from mapproxy.config.loader import ProxyConfiguration
    from mapproxy.wsgiapp import MapProxyApp
    from webtest import TestApp
    d = tempfile.mkdtemp(prefix='verif-c02-deep-')
    asked = []

    def fake_open(client, url, data=None, method=None):
        q = {k.upper(): v[0] for k, v in parse_qs(urlparse(url).query).items()}
        asked.append([float(v) for v in q['BBOX'].split(',')])
        b = io.BytesIO()
        Image.new('RGB', (int(q['WIDTH']), int(q['HEIGHT'])), (10, 20, 30)).save(b, 'PNG')
        b.seek(0)
        b.headers = {'Content-type': 'image/png'}
        b.code = 200
        return b
    orig = http.HTTPClient.open
    http.HTTPClient.open = fake_open
    try:
        conf = {'services': {'tms': {}},
                'layers': [{'name': 'geo', 'title': 'g', 'sources': ['cg']}, {'name': 'merc', 'title': 'm', 'sources': ['cm']}],
                'caches': {'cg': {'grids': ['GLOBAL_GEODETIC'], 'sources': ['up'], 'meta_size': [1, 1], 'meta_buffer': 0, 'disable_storage': True},
                           'cm': {'grids': ['GLOBAL_MERCATOR'], 'sources': ['up'], 'meta_size': [1, 1], 'meta_buffer': 0, 'disable_storage': True}},
                'sources': {'up': {'type': 'wms', 'req': {'url': 'http://upstream.invalid/service', 'layers': 'up'}}},
                'globals': {'cache': {'base_dir': os.path.join(d, 'cd'), 'lock_dir': os.path.join(d, 'l'), 'tile_lock_dir': os.path.join(d, 'tl')}}}
        pc = ProxyConfiguration(conf, conf_base_dir=d, seed=False, renderd=False)
        app = TestApp(MapProxyApp(pc.configured_services(), pc.base_config))
        n = 0
        for lay, code in (('geo', 'EPSG4326'), ('merc', 'EPSG900913')):
            doc = etree.fromstring(app.get('/tms/1.0.0/%s/%s' % (lay, code)).body)
            ox, oy = float(doc.find('Origin').get('x')), float(doc.find('Origin').get('y'))
            bb = [float(doc.find('BoundingBox').get(k)) for k in ('minx', 'miny', 'maxx', 'maxy')]
            tw, th = int(doc.find('TileFormat').get('width')), int(doc.find('TileFormat').get('height'))
            for ts in doc.find('TileSets').findall('TileSet'):
                order, upp = int(ts.get('order')), float(ts.get('units-per-pixel'))
                if order not in (0, 5, 12, 14, 16, 18):
                    continue
                nx, ny = int((bb[2] - ox) / (upp * tw) + 0.5), int((bb[3] - oy) / (upp * th) + 0.5)
                for fx, fy in ((0.0, 0.0), (0.5, 0.5), (0.93, 0.87)):
                    x, y = min(int(nx * fx), nx - 1), min(int(ny * fy), ny - 1)
                    del asked[:]
                    r = app.get('%s/%d/%d.png' % (urlparse(ts.get('href')).path, x, y), status='*', expect_errors=True)
                    n += 1
                    ctx.count(('deep', lay, order, x, y))
                    want = (ox + x * tw * upp, oy + y * th * upp, ox + (x + 1) * tw * upp, oy + (y + 1) * th * upp)
                    if r.status_int != 200 or len(asked) != 1:
                        ctx.violation({'kind': 'deep-level', 'flavour': 'tms', 'what': 'advertised-address-not-served'},
                                      'TMS %s order %d tile %d/%d (listed in the TileMap document) is answered with %s, %d upstream requests' % (
                                          lay, order, x, y, r.status_int, len(asked)), {'layer': lay, 'order': order, 'tile': [x, y]})
                        continue
                    off = max(abs(a - b) for a, b in zip(asked[0], want)) / upp
                    if off > 0.5:
                        ctx.violation({'kind': 'deep-level', 'flavour': 'tms', 'what': 'rectangle-from-the-document-differs'},
                                      'TMS %s order %d (units-per-pixel="%s") tile %d/%d: the rectangle computed from the TileMap document %s and the '
                                      'rectangle the tile is rendered from %s differ by %.1f pixels' % (
                                          lay, order, ts.get('units-per-pixel'), x, y, [round(v, 9) for v in want], [round(v, 9) for v in asked[0]], off),
                                      {'layer': lay, 'order': order, 'tile': [x, y], 'upp': ts.get('units-per-pixel')})
        if n < 20:
            raise tlc.MachineryError('deep levels: only %d addresses requested' % n)
    finally:
        http.HTTPClient.open = orig
        shutil.rmtree(d, ignore_errors=True)


def replay(ctx, data):
    print('C02: rerun ./check C02; case: %s' % json.dumps(data.get('case'))[:300])
    return 0
