"""SYS - the composition spec/MapProxy.tla (not one of the listed properties; extends coverage).

TLC checks the composition exhaustively for a small grid (cross-cutting invariants: stored addresses inside the
grid, cache = union of whole meta tiles, every upstream request is one meta tile that had a missing tile, refused
requests have no effect, no double fetch), and mixed workloads recorded from a real MapProxyApp (tile requests
through all flavours incl. invalid addresses, contained WMS GetMap requests, level clean-ups) are validated by TLC
against spec/trace/Trace_MapProxy.tla with all invariants on every step.
"""
import json
import os
import shutil

from engine import tlc
from engine import lattice as L
from harness.c02 import grid_size, fetch

SPEC = os.path.join(tlc.SPEC_DIR, 'MapProxy.tla')
INVS = ['StoredInsideGrid', 'MetaClosed', 'FetchesAreMetaTiles', 'NoDoubleFetch']
PROPS = ['RefusedNoEffect', 'FetchOnlyMissing']


def cache_listing(app, g):
    from mapproxy.cache.file import FileCache
    from mapproxy.cache.tile import Tile
    c = FileCache(os.path.join(app.dir, 'cache'), 'png')
    # the configured cache directory gets a suffix: find it
    base = os.path.join(app.dir, 'cache')
    out = []
    for root, ds, fs in os.walk(base):
        for f in fs:
            if f.endswith('.png') and 'tile_locks' not in root:
                rel = os.path.relpath(os.path.join(root, f), base).split(os.sep)
                # tc layout: [cachedir?]/zz/xxx/xxx/xxx/yyy/yyy/yyy.png
                parts = rel[-7:]
                z = int(parts[0])
                x = int(parts[1]) * 1000000 + int(parts[2]) * 1000 + int(parts[3])
                y = int(parts[4]) * 1000000 + int(parts[5]) * 1000 + int(parts[6][:-4])
                out.append([x, y, z])
    return sorted(out)


def workload(ctx, g, ms, buf, n):
    app = L.LatticeApp(g, meta_size=ms, meta_buffer=buf)
    rng = ctx.rng
    ev = []
    bx0, by0, bx1, by1 = g['bbox']
    try:
        for k in range(n):
            n0 = len(app.log)
            p = rng.random()
            if p < 0.55:
                f = rng.choice(['tms', 'tms_nw', 'kml', 'wmts'])
                z = rng.choice(list(range(len(g['res']))) + [-1, len(g['res'])])
                gx, gy = grid_size(g, min(max(z, 0), len(g['res']) - 1))
                a = (rng.randint(-1, gx), rng.randint(-1, gy), z)
                status, rect = fetch(app, g, f, a, k)
                e = {'op': 'tile', 'f': f, 'a': list(a), 'ok': status == 200}
            elif p < 0.9:
                r = rng.choice(list(g['res']) + [g['res'][0] * 8, 30, 50])
                w, h = rng.randint(1, 6), rng.randint(1, 6)
                if w * r > bx1 - bx0 or h * r > by1 - by0:
                    w = h = 1
                    r = min(r, bx1 - bx0, by1 - by0)
                x0 = rng.randrange(bx0, bx1 - w * r + 1, 5)
                y0 = rng.randrange(by0, by1 - h * r + 1, 5)
                q = [x0, y0, x0 + w * r, y0 + h * r, w, h]
                resp = app.get('/service?SERVICE=WMS&VERSION=1.1.1&REQUEST=GetMap&LAYERS=lay&STYLES=&SRS=EPSG:3857&BBOX=%d,%d,%d,%d'
                               '&WIDTH=%d&HEIGHT=%d&FORMAT=image/png&TRANSPARENT=TRUE' % tuple(q))
                ok = resp.status_int == 200 and bool(L.decode_cells(g, app.image(resp))[1]) if resp.status_int == 200 else False
                e = {'op': 'map', 'q': q, 'ok': ok, 'status': resp.status_int}
            else:
                lvl = rng.randrange(len(g['res']))
                d = None
                for root, ds, fs in os.walk(os.path.join(app.dir, 'cache')):
                    for dd in ds:
                        if dd == '%02d' % lvl:
                            d = os.path.join(root, dd)
                if d:
                    shutil.rmtree(d)
                e = {'op': 'cleanup', 'level': lvl, 'ok': True}
            up = []
            for u in app.log[n0:]:
                bb = [int(round(float(v))) for v in u['BBOX'].split(',')]
                res = (bb[2] - bb[0]) // int(u['WIDTH'])
                up.append({'l': g['res'].index(res) if res in g['res'] else -1, 'bbox': bb})
            e['up'] = up
            e['cache'] = cache_listing(app, g)
            ev.append(e)
    finally:
        app.close()
    return ev


def run(ctx):
    thorough = ctx.tier == 'thorough'
    tlc.sany(SPEC)
    gsmall = dict(ul=False, bbox=(0, 0, 320, 240), tw=4, th=4, res=(80, 40, 20), sn=5, sd=4, ms=4, thr=())
    reqs = {(0, 0, 320, 240, 4, 3), (40, 40, 200, 120, 4, 2), (100, 100, 260, 180, 8, 4), (0, 0, 320, 240, 1, 1)}
    addrs = {(0, 0, 0), (0, 0, 1), (1, 1, 1), (1, 0, 2), (3, 2, 2), (2, 1, 2), (0, 2, 2), (-1, 0, 1), (4, 0, 2), (0, 0, 3)}
    for ms, buf in (((2, 2), 0), ((3, 2), 1)):
        d = ctx.sub('mc')
        mp, cp = tlc.write_mc(d, 'MapProxy', 'MC_MP', dict(G=gsmall, MS=ms, Buf=buf, Reqs=reqs, Addrs=addrs), spec='MSpec',
                              invariants=INVS, properties=PROPS)
        r = tlc.run(mp, cp, d, timeout=1200)
        ctx.log('MapProxy.tla meta %s buffer %s: %r' % (ms, buf, r))
        if r.violated:
            ctx.violation({'kind': 'model', 'property': r.violated}, 'MapProxy.tla violates %s' % r.violated, {'trace': [a for a, _ in r.trace]})
        elif not r.ok:
            raise tlc.MachineryError('MapProxy.tla: %r %s' % (r, r.out[-800:]))
        else:
            ctx.add_tlc('MapProxy/%sx%s/buf%s' % (ms[0], ms[1], buf), r)
    for gname, ms, buf in (('G2', (2, 2), 0), ('Gneg', (3, 2), 2), ('G2ul', (2, 1), 1), ('G15', (2, 2), 0)) + (
            (('Grect', (2, 3), 1), ('Gunal', (2, 2), 5)) if thorough else ()):
        g = L.spec_grid(gname)
        traces = [workload(ctx, g, ms, buf, 120 if thorough else 50) for _ in range(6 if thorough else 2)]
        d = ctx.sub('tr-' + gname)
        tf = os.path.join(d, 'batch.json')
        with open(tf, 'w') as f:
            json.dump(traces, f)
        gq = {k: g[k] for k in ('ul', 'bbox', 'tw', 'th', 'res', 'sn', 'sd', 'ms', 'thr')}
        mp, cp = tlc.write_mc(d, 'Trace_MapProxy', 'MC_TMP', dict(G=gq, MS=ms, Buf=buf, Reqs=set(), Addrs=set()), spec='TraceSpec',
                              invariants=INVS, properties=PROPS, post='TraceAccepted')
        r = tlc.run(mp, cp, d, workers=1, coverage=False, env={'TRACE_FILE': tf}, timeout=3000)
        ctx.cov['traces_validated_against_impl'] += len(traces)
        ctx.cov['states'] += r.distinct
        ctx.cov['transitions'] += r.generated
        for t in traces:
            ctx.count((gname, json.dumps([[e['op'], e.get('a') or e.get('q') or e.get('level')] for e in t])))
        if r.violated and r.violated != 'postcondition':
            st = r.trace[-1][1] if r.trace else {}
            ctx.violation({'kind': 'composition-invariant', 'grid': gname, 'invariant': r.violated},
                          '%s: %s violated in a recorded workload at event %s' % (gname, r.violated, st.get('l')), {'traces': traces})
            continue
        pr = tlc.find_prints(r.out, 'matched')
        if not pr:
            raise tlc.MachineryError('Trace_MapProxy: no verdict: %s' % r.out[-1200:])
        mv = pr[-1][1]
        matched = list(mv) if isinstance(mv, tuple) else [mv[k] for k in sorted(mv)]
        nrej = 0
        for i, t in enumerate(traces):
            if matched[i] < len(t):
                nrej += 1
                e = t[matched[i]]
                ctx.violation({'kind': 'composition-trace-rejected', 'grid': gname, 'op': e['op']},
                              '%s: recorded workload is not a behaviour of MapProxy.tla at event %d: %s' % (
                                  gname, matched[i], json.dumps({k: e[k] for k in e if k != 'cache'})[:400]),
                              {'grid': g, 'events': t[:matched[i] + 1]})
        if gname == 'G2':
            ctx.sample({'grid': gname, 'events': [{k: e[k] for k in e if k != 'cache'} for e in traces[0][:6]]})
        ctx.log('%s: %d workloads validated (%d rejected)' % (gname, len(traces), nrej))
    ctx.assumptions += ['sequential client requests; file cache (tc layout); WMS requests contained in the grid bbox']
    rc = 1 if ctx.violations else 0
    ctx.finish_no_evidence = True
    return ctx.finish('model_checking', 'composition MapProxy.tla: exhaustive for the small instance; recorded mixed workloads validated by TLC')


def replay(ctx, data):
    return 0
