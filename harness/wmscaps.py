"""WMSCAPS - the WMS capabilities mean what they say (not one of the listed properties; extends coverage: the counterpart
of C02 for the WMS).

spec/WmsCaps.tla: the sets of layers, map formats and reference systems listed by the capabilities of each protocol
version (parsed from the real documents), the sets the configuration enables; every listed combination is answered with
a picture of that format and size, unlisted values with a service exception; configured = listed in every version.
Binding: a real MapProxy application (cache layer, direct layer, group; png / jpeg / gif / tiff / GeoTIFF; EPSG:4326,
3857, 900913, 25832, 31467, CRS:84); every combination of every version is requested and the answers are validated by
TLC (spec/trace/Trace_WmsCaps.tla).
"""
import io
import json
import os
import shutil
import tempfile

from engine import tlc

SPEC = os.path.join(tlc.SPEC_DIR, 'WmsCaps.tla')
VERSIONS = ['1.0.0', '1.1.0', '1.1.1', '1.3.0']
FORMATS = ['image/png', 'image/jpeg', 'image/gif', 'image/GeoTIFF', 'image/tiff']
SRS = ['EPSG:4326', 'EPSG:3857', 'EPSG:900913', 'EPSG:25832', 'EPSG:31467', 'CRS:84']
BBOX = {'EPSG:4326': (5, 45, 15, 55), 'CRS:84': (5, 45, 15, 55), 'EPSG:3857': (500000, 5500000, 1500000, 6500000),
        'EPSG:900913': (500000, 5500000, 1500000, 6500000), 'EPSG:25832': (300000, 5200000, 700000, 5600000),
        'EPSG:31467': (3300000, 5200000, 3700000, 5600000), 'EPSG:9999': (0, 0, 10, 10)}
NE = {'EPSG:4326', 'EPSG:31467'}
PIL_FMT = {'image/png': 'PNG', 'image/jpeg': 'JPEG', 'image/gif': 'GIF', 'image/tiff': 'TIFF', 'image/GeoTIFF': 'TIFF'}
W, H = 40, 30
UNLISTED = ['image/png; mode=8bit', 'image/jpeg; quality=80', 'png', 'foo/png', 'IMAGE/PNG', 'image/geotiff', 'image/png ', 'jpeg', 'image/tif']


def vkey(v):
    return 'v' + v.replace('.', '')


class World(object):
    def __init__(self):
        import mapproxy.client.http as http
        from urllib.parse import urlparse, parse_qs
        from mapproxy.config.loader import ProxyConfiguration
        from mapproxy.wsgiapp import MapProxyApp
        from webtest import TestApp
        self.dir = d = tempfile.mkdtemp(prefix='verif-wmscaps-')

        def fake_open(client, url, data=None, method=None):
            from PIL import Image
            q = {k.lower(): v[0] for k, v in parse_qs(urlparse(url).query).items()}
            if q.get('request', '').lower() in ('getfeatureinfo', 'feature_info'):
                b = io.BytesIO(b'feature info of the upstream')
                b.headers = {'Content-type': 'text/plain'}
                b.code = 200
                return b
            b = io.BytesIO()
            Image.new('RGB', (int(q.get('width', 256)), int(q.get('height', 256))), (0, 200, 0)).save(b, 'PNG')
            b.seek(0)
            b.headers = {'Content-type': 'image/png'}
            b.code = 200
            return b
        self._http, self._orig = http, http.HTTPClient.open
        http.HTTPClient.open = fake_open
        conf = {'services': {'wms': {'md': {'title': 't'}, 'srs': list(SRS), 'image_formats': list(FORMATS)}},
                'layers': [{'name': 'grp', 'title': 'g', 'layers': [{'name': 'lay', 'title': 'l', 'sources': ['c']},
                                                                   {'name': 'qry', 'title': 'q', 'sources': ['q']},
                                                                   {'name': 'dir', 'title': 'd', 'sources': ['s']}]}],
                'caches': {'c': {'grids': ['GLOBAL_MERCATOR'], 'sources': ['s'], 'format': 'image/png',
                                 'cache': {'type': 'file', 'directory': os.path.join(d, 'cache')}}},
                # 'lay' (cached) is queryable through its source, 'dir' (source without feature info) is not
                'sources': {'s': {'type': 'wms', 'req': {'url': 'http://up.invalid/s', 'layers': 'x'}},
                            'q': {'type': 'wms', 'req': {'url': 'http://up.invalid/q', 'layers': 'x'}, 'wms_opts': {'featureinfo': True}}},
                'globals': {'cache': {'base_dir': d, 'lock_dir': d + '/l', 'tile_lock_dir': d + '/tl'}, 'image': {'paletted': False}}}
        pc = ProxyConfiguration(conf, conf_base_dir=d, seed=False, renderd=False)
        self.app = TestApp(MapProxyApp(pc.configured_services(), pc.base_config))

    def close(self):
        self._http.HTTPClient.open = self._orig
        shutil.rmtree(self.dir, ignore_errors=True)

    def advertised(self, ver):
        from lxml import etree
        r = self.app.get('/service?SERVICE=WMS&REQUEST=%s&%s=%s' % ('capabilities' if ver == '1.0.0' else 'GetCapabilities',
                                                                    'WMTVER' if ver == '1.0.0' else 'VERSION', ver))
        x = etree.fromstring(r.body)
        ns = {'w': 'http://www.opengis.net/wms'} if ver == '1.3.0' else {}
        p = 'w:' if ver == '1.3.0' else ''
        if ver == '1.0.0':
            fmts = [e.tag for e in x.find('.//Request/Map/Format')]
        else:
            fmts = [e.text for e in x.findall('.//%sRequest/%sGetMap/%sFormat' % (p, p, p), ns)]
        srss = set()
        for e in x.findall('.//%sLayer/%s' % (p, p + ('CRS' if ver == '1.3.0' else 'SRS')), ns):
            srss |= set((e.text or '').split())
        lays = {e.text for e in x.findall('.//%sLayer/%sName' % (p, p), ns)}
        qlays = {e.find('%sName' % p, ns).text for e in x.findall('.//%sLayer' % p, ns)
                 if e.find('%sName' % p, ns) is not None and e.get('queryable') == '1'}
        return {'fmt': sorted(set(fmts)), 'srs': sorted(srss), 'lay': sorted(lays), 'qlay': sorted(qlays)}

    def getinfo(self, ver, lay, ql):
        q = 'SERVICE=WMS&REQUEST=%s&%s=%s&LAYERS=%s&QUERY_LAYERS=%s&STYLES=&%s=EPSG:3857&BBOX=%s&WIDTH=%d&HEIGHT=%d&FORMAT=image/png&%s' % (
            'feature_info' if ver == '1.0.0' else 'GetFeatureInfo', 'WMTVER' if ver == '1.0.0' else 'VERSION', ver, lay, ql,
            'CRS' if ver == '1.3.0' else 'SRS', ','.join(map(str, BBOX['EPSG:3857'])), W, H, 'I=5&J=5' if ver == '1.3.0' else 'X=5&Y=5')
        ev = {'op': 'info', 'v': vkey(ver), 'f': '-', 's': '-', 'l': lay, 'ql': ql, 'ct': '-'}
        import logging
        logging.disable(logging.CRITICAL)
        try:
            r = self.app.get('/service?' + q, status='*', expect_errors=True)
        except Exception as ex:
            ev['out'] = 'raised'
            ev['detail'] = str(ex)[-160:]
            return ev
        finally:
            logging.disable(logging.NOTSET)
        if b'ServiceException' in r.body or b'WMTException' in r.body:
            ev['out'] = 'exception'
        elif r.status_int == 200 and b'feature info of the upstream' in r.body:
            ev['out'] = 'info'
        else:
            ev['out'] = 'error:%d' % r.status_int
            ev['detail'] = r.text[:100]
        return ev

    def getmap(self, ver, fmt, srs, lay):
        from PIL import Image
        bb = BBOX.get(srs, (0, 0, 10, 10))
        if ver == '1.3.0' and srs in NE:
            bb = (bb[1], bb[0], bb[3], bb[2])
        q = 'SERVICE=WMS&REQUEST=%s&%s=%s&LAYERS=%s&STYLES=&%s=%s&BBOX=%s&WIDTH=%d&HEIGHT=%d&FORMAT=%s' % (
            'map' if ver == '1.0.0' else 'GetMap', 'WMTVER' if ver == '1.0.0' else 'VERSION', ver, lay, 'CRS' if ver == '1.3.0' else 'SRS', srs,
            ','.join(map(str, bb)), W, H, fmt.replace('+', '%2B').replace(' ', '%20').replace(';', '%3B'))
        ev = {'op': 'map', 'v': vkey(ver), 'f': fmt, 's': srs, 'l': lay, 'ct': '-'}
        import logging
        logging.disable(logging.CRITICAL)
        try:
            r = self.app.get('/service?' + q, status='*', expect_errors=True)
        except Exception as ex:
            ev['out'] = 'raised'
            ev['detail'] = str(ex)[-160:]
            return ev
        finally:
            logging.disable(logging.NOTSET)
        ct = r.content_type or ''
        if r.status_int == 200 and ct.startswith('image/'):
            try:
                img = Image.open(io.BytesIO(r.body))
                img.load()
            except Exception as ex:
                ev['out'] = 'undecodable'
                ev['detail'] = str(ex)[:100]
                return ev
            if img.size != (W, H):
                ev['out'] = 'size:%dx%d' % img.size
            elif img.format != PIL_FMT.get(ct, '?'):
                ev['out'] = 'format:%s-as-%s' % (img.format, ct)
            else:
                ev['out'] = 'image'
                ev['ct'] = ct
        elif b'ServiceException' in r.body or b'WMTException' in r.body:
            ev['out'] = 'exception'
        else:
            ev['out'] = 'error:%d' % r.status_int
            ev['detail'] = r.text[:100]
        return ev


def run(ctx):
    tlc.sany(SPEC)
    w = World()
    try:
        adv = {vkey(v): w.advertised(v) for v in VERSIONS}
        events = []
        for v in VERSIONS:
            a = adv[vkey(v)]
            for lay in a['lay'] + ['nolayer']:
                for fmt in a['fmt'] + ['image/unknown']:
                    for srs in a['srs'] + ['EPSG:9999']:
                        if sum(x in ('nolayer', 'image/unknown', 'EPSG:9999') for x in (lay, fmt, srs)) > 1:
                            continue
                        events.append(w.getmap(v, fmt, srs, lay))
                        ctx.count((v, fmt, srs, lay))
            # GetFeatureInfo: every listed layer as LAYERS and QUERY_LAYERS, and one that is not listed
            for lay in a['lay'] + ['nolayer']:
                for ql in a['lay'] + ['nolayer']:
                    if lay == ql or lay == 'grp' or (lay == 'nolayer') != (ql == 'nolayer') and 'nolayer' in (lay, ql):
                        events.append(w.getinfo(v, lay, ql))
                        ctx.count((v, 'info', lay, ql))
            # spellings that are close to a listed format but are not listed
            for fmt in UNLISTED:
                if fmt not in a['fmt']:
                    events.append(w.getmap(v, fmt, 'EPSG:3857', 'lay'))
                    ctx.count((v, fmt, 'EPSG:3857', 'lay'))
    finally:
        w.close()
    mime = {f: f for f in FORMATS}
    mime.update({'PNG': 'image/png', 'JPEG': 'image/jpeg', 'GIF': 'image/gif', 'TIFF': 'image/tiff', 'GeoTIFF': 'image/GeoTIFF', 'image/unknown': '-'})
    for a in adv.values():
        for f in a['fmt']:
            mime.setdefault(f, f)
    alias = {vkey(v): ({f: f for f in FORMATS} if v != '1.0.0' else
                       {'image/png': 'PNG', 'image/jpeg': 'JPEG', 'image/gif': 'GIF', 'image/tiff': 'TIFF'}) for v in VERSIONS}
    consts = dict(Ver={vkey(v) for v in VERSIONS}, Adv={k: {kk: set(vv) for kk, vv in a.items()} for k, a in adv.items()},
                  Conf={'fmt': set(FORMATS), 'srs': set(SRS), 'lay': {'grp', 'lay', 'dir', 'qry'}}, Alias=alias, Mime=mime)
    d = ctx.sub('tr')
    tf = os.path.join(d, 'batch.json')
    with open(tf, 'w') as f:
        json.dump([[{k: v for k, v in e.items() if k != 'detail'} for e in events]], f)
    mp, cp = tlc.write_mc(d, 'Trace_WmsCaps', 'MC_T', consts, spec='TraceSpec', properties=['AdvertisedIsServed', 'QueryableIsServed'], post='TraceAccepted')
    r = tlc.run(mp, cp, d, workers=1, coverage=False, env={'TRACE_FILE': tf}, timeout=900)
    ctx.cov['traces_validated_against_impl'] += 1
    ctx.cov['states'] += r.distinct
    ctx.cov['transitions'] += len(events)
    caps = tlc.find_prints(r.out, 'caps')
    pr = tlc.find_prints(r.out, 'matched')
    if not pr or not caps:
        raise tlc.MachineryError('Trace_WmsCaps: no verdict: %s' % r.out[-1500:])
    c = caps[-1][1]
    if not c['configured_is_advertised'] or not c['advertised_is_configured']:
        diff = {k: {'listed-not-configured': sorted(set(a['fmt']) - {alias[k][f] for f in FORMATS if f in alias[k]}) + sorted(set(a['srs']) - set(SRS)),
                    'configured-not-listed': sorted({alias[k][f] for f in FORMATS if f in alias[k]} - set(a['fmt'])) + sorted(set(SRS) - set(a['srs']))}
                for k, a in adv.items()}
        ctx.violation({'kind': 'capabilities-vs-configuration'}, 'the capabilities do not list exactly what the configuration enables: %s' % json.dumps(diff), {'adv': adv})
    mv = pr[-1][1]
    matched = (list(mv) if isinstance(mv, tuple) else [mv[k2] for k2 in sorted(mv)])[0]
    seen = set()
    k = matched
    # report every kind of failing request once (the trace stops at the first one: check the rest directly)
    for e in events:
        if e['op'] == 'info':
            a = adv[e['v']]
            want = 'info' if (e['l'] in a['lay'] and e['ql'] in a['qlay']) else 'exception'
            if e['out'] != want:
                sig = {'kind': 'queryable-not-served' if want == 'info' else 'unlisted-query-layer-not-refused', 'out': e['out'].split(':')[0]}
                key = json.dumps(sig, sort_keys=True)
                if key not in seen:
                    seen.add(key)
                    ctx.violation(sig, 'WMS %s GetFeatureInfo LAYERS=%s QUERY_LAYERS=%s is answered with %s %s (expected: %s)' % (
                        e['v'], e['l'], e['ql'], e['out'], e.get('detail', ''),
                        'the feature info' if want == 'info' else 'a service exception - the layer is not listed, or not marked queryable'), {'request': e})
            continue
        want = 'image' if (e['f'] in adv[e['v']]['fmt'] and e['s'] in adv[e['v']]['srs'] and e['l'] in adv[e['v']]['lay']) else 'exception'
        if e['out'] != want:
            sig = {'kind': 'advertised-not-served' if want == 'image' else 'unlisted-not-refused', 'format': e['f'] if want == 'image' else '-',
                   'srs': e['s'] if want == 'image' and e['out'] in ('raised', 'error:500') else '-', 'out': e['out'].split(':')[0]}
            key = json.dumps(sig, sort_keys=True)
            if key in seen:
                continue
            seen.add(key)
            ctx.violation(sig, 'WMS %s GetMap LAYERS=%s FORMAT=%s SRS=%s (all listed in the capabilities of that version) is answered with: %s %s' % (
                e['v'], e['l'], e['f'], e['s'], e['out'], e.get('detail', '')) if want == 'image' else
                'WMS %s GetMap LAYERS=%s FORMAT=%s SRS=%s (not all listed) is answered with %s' % (e['v'], e['l'], e['f'], e['s'], e['out']), {'request': e})
    if matched < len(events) and not seen:
        raise tlc.MachineryError('the trace is rejected at event %d but the direct comparison finds nothing: %s' % (matched + 1, events[matched]))
    if not any(e['out'] == 'exception' for e in events) or not any(e['out'] == 'image' for e in events):
        raise tlc.MachineryError('vacuity: no refused or no served request')
    ctx.sample({'kind': 'requests for the combinations listed by the capabilities', 'advertised': adv, 'first': events[:3]})
    ctx.assumptions += ['one configuration (cache layer, direct layer, group; five formats; six reference systems incl. CRS:84 and a '
                        'north/east axis EPSG code); GetMap over formats and reference systems, GetFeatureInfo over layers and query layers (info formats and '
                        'GetLegendGraphic are C18 matter)']
    return ctx.finish('model_checking', 'every combination of layer x format x reference system listed by the capabilities of WMS 1.0.0 / 1.1.0 / '
                      '1.1.1 / 1.3.0 (and one unlisted value per dimension) is requested from a real application; TLC validates the '
                      'answers against WmsCaps.tla and compares listed with configured sets')


def replay(ctx, data):
    return 0
