"""Subprocess of C08: build the caches of one configuration the way a freshly started MapProxy process does and print
the lock file every cache would use for a few (meta) tiles.  Run twice with different PYTHONHASHSEED values: TileCreate.tla
identifies the lock of a meta tile by the meta tile alone (LockName), so all processes sharing a cache must agree."""
import json
import os
import sys


def main():
    base = sys.argv[1]
    from mapproxy.config.loader import ProxyConfiguration
    from mapproxy.cache.tile import Tile
    caches = {
        'file': {'type': 'file'},
        'file_tms': {'type': 'file', 'directory_layout': 'tms'},
        'sqlite': {'type': 'sqlite'},
        'mbtiles': {'type': 'mbtiles', 'filename': os.path.join(base, 'x.mbtiles')},
        'geopackage': {'type': 'geopackage', 'filename': os.path.join(base, 'x.gpkg'), 'table_name': 't'},
        'geopackage_levels': {'type': 'geopackage', 'directory': os.path.join(base, 'gpkgs'), 'levels': True, 'table_name': 't'},
        'compact1': {'type': 'compact', 'version': 1},
        'compact2': {'type': 'compact', 'version': 2},
        # two cache definitions on ONE store (a second configuration, a seeding configuration with its own names, ...):
        # the lock belongs to the store, both definitions have to use the same lock files
        'shared_a': {'type': 'file', 'directory': os.path.join(base, 'shared_dir')},
        'shared_b': {'type': 'file', 'directory': os.path.join(base, 'shared_dir')},
        'mbshared_a': {'type': 'mbtiles', 'filename': os.path.join(base, 'shared.mbtiles')},
        'mbshared_b': {'type': 'mbtiles', 'filename': os.path.join(base, 'shared.mbtiles')},
    }
    conf = {
        'globals': {'cache': {'base_dir': os.path.join(base, 'cache_data'), 'lock_dir': os.path.join(base, 'locks'),
                              'tile_lock_dir': os.path.join(base, 'tile_locks')}},
        'grids': {'g': {'srs': 'EPSG:3857', 'bbox': [0, 0, 640, 640], 'res': [80, 40, 20], 'tile_size': [4, 4]}},
        'sources': {'up': {'type': 'wms', 'req': {'url': 'http://upstream.invalid/service', 'layers': 'x'}}},
        'caches': {n: {'grids': ['g'], 'sources': ['up'], 'cache': c, 'meta_size': [2, 2]} for n, c in caches.items()},
        'layers': [{'name': n, 'title': n, 'sources': [n]} for n in caches],
        'services': {'tms': {}},
    }
    pc = ProxyConfiguration(conf, conf_base_dir=base, seed=False, renderd=False)
    out = {}
    for n in sorted(caches):
        grid, extent, mgr = pc.caches[n].caches()[0]
        names = []
        for coord in ((0, 0, 1), (1, 1, 1), (3, 2, 2)):
            lock = mgr.lock(Tile(coord))
            names.append(os.path.relpath(getattr(lock, 'lock_file', repr(lock)), base))
        out[n] = names
        mgr.cleanup()
    print('LOCKNAMES ' + json.dumps(out, sort_keys=True))


if __name__ == '__main__':
    main()
