"""MULTIAPP - the project application cache of mapproxy.multiapp.MultiMapProxy (not one of the listed properties;
extends coverage).

spec/MultiApp.tla models handle() / proj_app(): lazily built project applications in an LRU dictionary of bounded
size, rebuilt when a configuration file is newer than the time stamp recorded with the application, 404 for unknown
projects.  TLC explores all histories of requests, configuration writes and removals for 3 projects and a cache of
size 2 (ServedCurrent, GoneIsGone, NoRaise, BoundedCache ...).  Binding: a real MultiMapProxy on a directory of real
YAML files; every answer names the version of the configuration it was rendered from (layer title), the LRU
dictionary of the real object is read after every step.  TLC behaviours are executed step by step, random histories
are validated by TLC (spec/trace/Trace_MultiApp.tla).  The variant Removed="asfound" (a cached project whose file was
removed makes the WSGI application raise) is the code before the repair; its counterexample is run on the real code.
"""
import json
import os
import shutil
import tempfile

from engine import tlc
from harness.c05 import parse_action

SPEC = os.path.join(tlc.SPEC_DIR, 'MultiApp.tla')
INVS = ['NoRaise', 'BoundedCache', 'NoDuplicates', 'CacheNotFromFuture']
PROPS = ['ServedCurrent', 'GoneIsGone']
BASE = 1700000000
PROJ = ('p1', 'p2', 'p3')
INCLUDES = ('p1', 'p2')          # the projects whose configuration includes shared/base.yaml
SIZE = 2


class World(object):
    def __init__(self):
        from mapproxy.multiapp import MultiMapProxy, DirectoryConfLoader
        from webtest import TestApp
        self.dir = tempfile.mkdtemp(prefix='verif-multiapp-')
        self.clock = 1
        self.hw = {f: 0 for f in PROJ + ('base',)}
        os.mkdir(os.path.join(self.dir, 'shared'))
        self._write_base(0, 0)
        for p in PROJ:
            self._write(p, 0, 0)
        self.mm = MultiMapProxy(DirectoryConfLoader(self.dir), list_apps=True, app_cache_size=SIZE)
        self.app = TestApp(self.mm)

    def close(self):
        shutil.rmtree(self.dir, ignore_errors=True)

    def file(self, p):
        return os.path.join(self.dir, p + '.yaml')

    def base_file(self):
        return os.path.join(self.dir, 'shared', 'base.yaml')

    def _put(self, path, conf, m):
        import yaml
        tmp = path + '.tmp'
        with open(tmp, 'w') as f:
            yaml.safe_dump(conf, f)
        os.utime(tmp, (BASE + m, BASE + m))
        os.rename(tmp, path)

    def _write(self, p, ver, m):
        """version `ver` of the configuration of p, with the time stamp m (not necessarily the time of writing)"""
        conf = {'services': {'wms': {'md': {'title': 'version-%d' % ver}}},
                'globals': {'cache': {'base_dir': os.path.join(self.dir, 'cache_' + p)}}}
        if p in INCLUDES:
            conf['base'] = 'shared/base.yaml'
        else:
            conf.update({'layers': [{'name': 'lay', 'title': 'lay', 'sources': ['s']}], 'sources': {'s': {'type': 'debug'}}})
        self._put(self.file(p), conf, m)

    def _write_base(self, ver, m):
        self._put(self.base_file(), {'services': {'wms': {'md': {'abstract': 'base-%d' % ver}}},
                                     'layers': [{'name': 'lay', 'title': 'lay', 'sources': ['s']}], 'sources': {'s': {'type': 'debug'}}}, m)

    def lru(self):
        out = []
        for k in self.mm.apps.last_used:
            app, stamps = self.mm.apps.values[k]
            ts = [v for f, v in stamps.items() if f == self.file(k)]
            bs = [v for f, v in stamps.items() if os.path.abspath(f) == os.path.abspath(self.base_file())]
            out.append([k, int(round(ts[0] - BASE)) if ts else -1, int(round(bs[0] - BASE)) if bs else 0])
        return out

    def do(self, op, p, m=None):
        import re
        ev = {'op': op, 'p': p, 'status': 0, 'ver': 0, 'bver': 0}
        if op == 'request':
            try:
                r = self.app.get('/%s/service?SERVICE=WMS&REQUEST=GetCapabilities&VERSION=1.1.1' % p, status='*')
                ev['status'] = r.status_int
                if r.status_int == 200:
                    mm = re.search(r'<Title>version-(\d+)</Title>', r.text)
                    ev['ver'] = int(mm.group(1)) if mm else -1
                    mb = re.search(r'<Abstract>base-(\d+)</Abstract>', r.text)
                    ev['bver'] = int(mb.group(1)) if mb else (-1 if p in INCLUDES else 0)
            except Exception as ex:
                ev['status'] = 999
                ev['raised'] = '%s: %s' % (type(ex).__name__, ex)
        elif op in ('write', 'writebase'):
            f = p if op == 'write' else 'base'
            m = self.clock if m is None else m
            if m not in (self.clock, self.hw[f] + 1):
                raise tlc.MachineryError('time stamp %r outside the stamps of the model' % m)
            if op == 'write':
                self._write(p, self.clock, m)
            else:
                self._write_base(self.clock, m)
            self.hw[f] = m
            ev['m'] = m
            self.clock += 1
        elif op == 'remove':
            os.remove(self.file(p))
            self.clock += 1
        ev['lru'] = self.lru()
        return ev


OPS = {'Request': 'request', 'WriteConf': 'write', 'RemoveConf': 'remove', 'WriteBase': 'writebase', 'WriteConfAny': 'write', 'WriteBaseAny': 'writebase'}


def replay_behaviour(beh, lenient=False):
    w = World()
    try:
        n = 0
        for act, st in beh[1:]:
            name, args = parse_action(act)
            n += 1
            if name in ('WriteBase', 'WriteBaseAny'):
                ev = w.do('writebase', 'base', int(st['base']['mtime']) if st else (args[0] if args else None))
            elif name in ('WriteConf', 'WriteConfAny'):
                ev = w.do('write', args[0], int(st['files'][args[0]]['mtime']) if st else (args[1] if len(args) > 1 else None))
            else:
                ev = w.do(OPS[name], args[0])
            if name == 'Request' and st:
                want = (int(st['last']['status']), int(st['last']['ver']), int(st['last']['bver']))
                if (ev['status'], ev['ver'], ev['bver']) != want:
                    return 'diverged', 'step %d %s: spec answers (status, version of the project file, of the base file) %s, real %s %s' % (
                        n, act, want, (ev['status'], ev['ver'], ev['bver']), ev.get('raised', '')), ev
            if st:
                spec = [[str(e['proj']), int(e['mtime']), int(e['bmtime'])] for e in st['lru']]
                if ev['lru'] != spec:
                    return 'diverged', 'step %d %s: spec cache %s, real %s' % (n, act, spec, ev['lru']), ev
        return 'ok', '', None
    finally:
        w.close()


def random_history(rng, n):
    w = World()
    try:
        evs = []
        for _ in range(n):
            k = rng.random()
            p = rng.choice(PROJ)
            exists = os.path.exists(w.file(p))
            if k < 0.55:
                evs.append(w.do('request', p))
            elif k < 0.7:
                evs.append(w.do('writebase', 'base', rng.choice([w.clock, w.hw['base'] + 1])))
            elif k < 0.88 or not exists:
                evs.append(w.do('write', p, rng.choice([w.clock, w.hw[p] + 1])))
            else:
                evs.append(w.do('remove', p))
        return evs
    finally:
        w.close()


def detect_variant():
    w = World()
    try:
        w.do('request', 'p1')
        w.do('remove', 'p1')
        ev = w.do('request', 'p1')
        return ('asfound' if ev['status'] == 999 else 'repaired'), ev
    finally:
        w.close()


def run(ctx):
    thorough = ctx.tier == 'thorough'
    tlc.sany(SPEC)
    variant, ev = detect_variant()
    ctx.log('the tree implements Removed=%s (%s)' % (variant, ev.get('raised') or ev['status']))
    base = dict(Proj=set(PROJ), Size=SIZE, MaxClock=5 if thorough else 4, Includes=set(INCLUDES))
    # the as-found variant violates NoRaise: reproduce the counterexample
    d = ctx.sub('mc-asfound')
    mp, cp = tlc.write_mc(d, 'MultiApp', 'MC_MA', dict(base, Removed='asfound'), invariants=['NoRaise'], constraint='Bounded')
    r = tlc.run(mp, cp, d, timeout=900, coverage=False, workers=4)
    if r.violated != 'NoRaise':
        raise tlc.MachineryError('the as-found variant should violate NoRaise: %r' % r)
    status, detail, _ = replay_behaviour(r.trace)
    ctx.sample({'kind': 'counterexample of Removed=asfound run on the real MultiMapProxy', 'actions': [a for a, _ in r.trace[1:]],
                'result': status, 'detail': detail})
    if status == 'ok':
        ctx.violation({'kind': 'raises', 'cause': 'cached-project-whose-configuration-was-removed'},
                      'MultiMapProxy raises instead of answering: %s' % [a for a, _ in r.trace[1:]], {'behaviour': [a for a, _ in r.trace]})
    consts = dict(base, Removed='repaired' if variant == 'repaired' else 'asfound')
    d = ctx.sub('mc')
    invs = INVS if variant == 'repaired' else [i for i in INVS if i != 'NoRaise']
    mp, cp = tlc.write_mc(d, 'MultiApp', 'MC_MA', consts, invariants=invs, properties=PROPS, constraint='Bounded')
    r = tlc.run(mp, cp, d, timeout=1800)
    ctx.log('MultiApp.tla: %r' % r)
    if r.violated:
        ctx.violation({'kind': 'model', 'property': r.violated}, 'MultiApp.tla violates %s' % r.violated, {'trace': [a for a, _ in r.trace]})
    elif not r.ok:
        raise tlc.MachineryError('MultiApp.tla: %r %s' % (r, r.out[-800:]))
    else:
        ctx.add_tlc('MultiApp', r)
        for a in ('Request', 'WriteConfAny', 'RemoveConf', 'WriteBaseAny'):
            if r.coverage.get(a, (0, 0))[0] == 0:
                raise tlc.MachineryError('vacuity: %s never taken' % a)
    # spec -> code
    d = ctx.sub('sim')
    mp, cp = tlc.write_mc(d, 'MultiApp', 'MC_Sim', dict(consts, MaxClock=12), constraint='Bounded')
    prefix = os.path.join(d, 'beh')
    tlc.run(mp, cp, d, workers=1, simulate='file=%s,num=%d' % (prefix, 60 if thorough else 20), depth=25, seed=ctx.seed + 9,
            coverage=False, timeout=600)
    k = 0
    for f, beh in tlc.sim_traces(prefix):
        if len(beh) < 2:
            continue
        k += 1
        status, detail, ev = replay_behaviour(beh)
        ctx.cov['replayed_behaviours'] += 1
        ctx.cov['replayed_steps'] += len(beh) - 1
        ctx.count(('replay', tuple(a for a, _ in beh)))
        if status != 'ok':
            ctx.violation({'kind': 'replay-' + status}, detail, {'behaviour': [a for a, _ in beh]})
            break
    if k == 0:
        raise tlc.MachineryError('no behaviours')
    # code -> spec
    traces = [random_history(ctx.rng, 40) for _ in range(40 if thorough else 12)]
    for t in traces:
        ctx.count(('hist', json.dumps([[e['op'], e['p']] for e in t])))
    d = ctx.sub('tr')
    tf = os.path.join(d, 'batch.json')
    with open(tf, 'w') as f:
        json.dump(traces, f)
    mp, cp = tlc.write_mc(d, 'Trace_MultiApp', 'MC_TMA', dict(consts, MaxClock=999), spec='TraceSpec', invariants=invs,
                          properties=PROPS, post='TraceAccepted')
    r = tlc.run(mp, cp, d, workers=1, coverage=False, env={'TRACE_FILE': tf}, timeout=1800)
    ctx.cov['traces_validated_against_impl'] += len(traces)
    ctx.cov['states'] += r.distinct
    ctx.cov['transitions'] += r.generated
    if r.violated and r.violated != 'postcondition':
        ctx.violation({'kind': 'trace-invariant', 'invariant': r.violated}, '%s violated in a recorded history' % r.violated, None)
    else:
        pr = tlc.find_prints(r.out, 'matched')
        if not pr:
            raise tlc.MachineryError('Trace_MultiApp: no verdict: %s' % r.out[-1200:])
        mv = pr[-1][1]
        matched = list(mv) if isinstance(mv, tuple) else [mv[k2] for k2 in sorted(mv)]
        for i, t in enumerate(traces):
            if matched[i] < len(t):
                e = t[matched[i]]
                ctx.violation({'kind': 'trace-rejected', 'op': e['op']},
                              'recorded history is not a behaviour of MultiApp.tla at event %d: %s' % (matched[i], e), {'trace': t[:matched[i] + 1]})
    ctx.log('replayed %d behaviours, validated %d histories' % (k, len(traces)))
    ctx.sample({'kind': 'recorded history', 'events': traces[0][:8]})
    ctx.assumptions += ['sequential requests (the LRU dictionary is read outside the lock: concurrent requests are not covered); one '
                        'configuration file per project, two of the three projects include one shared base file; a file change carries the time of writing or the '
                        'oldest stamp that is still newer than every stamp the path has had (a stamp that is not newer cannot be noticed by the reload rule)']
    return ctx.finish('model_checking', 'TLC: all histories of requests / writes / removals for 3 projects, cache size 2, bounded clock; '
                      'behaviours executed on and histories recorded from a real MultiMapProxy')


def replay(ctx, data):
    return 0
