"""C10 world: one in-process MapProxy on an integer lattice with flat-colour synthetic upstreams.

Layer tree (unnamed root):  a,  g = [b, c]  (optionally fewer layers; g optionally absent).
Layer kinds:
  wmsT   direct WMS source, `transparent: true`  (never opaque for the WMS layer pruning), feature info
  wmsO   direct WMS source, `transparent: false` (is_opaque() is True -> layers below are pruned), feature info
  cache  png cache over a WMS source with feature info      -> also a TMS / KML / WMTS tile layer
  cachej jpeg cache over a WMS source with feature info     -> also a tile layer (jpeg tiles)
Oblique worlds (FRAMES): the same layer trees on a tile grid in a polar stereographic SRS; lattice coordinates are mapped
to SRS coordinates by an origin and a scale, limited_to geometries are given in EPSG:4326.
Worlds with an SRS extent (World(ext=...)): the WMS service declares the lattice rectangle `ext` as the extent of the request
SRS and of its alias code (`services: wms: bbox_srs`): GetMap requests are reduced to / answered blank outside that extent.
Every upstream paints its whole answer with the colour of its layer; feature info upstreams answer `info:<layer>`.
Upstream requests are logged (layer, kind).  Caches do not store (disable_storage), so every request that renders a
layer reaches its upstream.
"""
import io
import logging
import os
import re
import shutil

COLOURS = {'a': (230, 20, 20), 'b': (20, 170, 20), 'c': (20, 20, 230), 'g': (230, 200, 0)}
BG = (255, 255, 255)
SRS = 'EPSG:3857'
SRS_ALIAS = 'EPSG:900913'
SECOND_GRID = ['GLOBAL_GEODETIC']     # (EPSG:4326: none of the worlds uses it, the tile set is only listed)
SRS_PATH = 'EPSG3857'
GRID = dict(bbox=(0, 0, 1280, 640), res=(40, 20, 10), tile_size=(4, 4))      # level sizes: 8x4, 16x8, 32x16 tiles
# window of all limited_to geometries (the outer ring of cells is never a member)
WINDOW = (-400, -400, 1680, 1040)

# "oblique" worlds: the tile grid lives in a polar stereographic SRS, limited_to geometries are given natively in
# EPSG:4326 (parallels are circles around the pole, straight lines of the lon/lat plane are curves in the grid SRS and
# vice versa).  Lattice coordinates stay integers: SRS x = origin[0] + scale * lattice x (same for y).  The pole is
# outside the grid, `d` lattice units above the middle of its upper edge region; the tile column that straddles the
# meridian through the pole has an upper edge that bulges several pixels over the parallel through its corners.
#   A: level 0 tile column 2 is SRS x -32 .. 32 (symmetric), upper grid edge 24 units from the pole
#   B: level 1 tile column 5 is SRS x -16 .. 16 (symmetric), level 0 column 2 is -48 .. 16, upper grid edge 16 units
#   C: tiles of 32 x 32 pixels (more pixels per bulge: tiles away from that column are curved by several pixels, too),
#      level 0 tile column 2 is SRS x -32 .. 32, upper grid edge 40 units from the pole
FRAMES = {
    'A': dict(srs='EPSG:3995', srs_path='EPSG3995', scale=20000, origin=(-160 * 20000, -(24 + 128) * 20000),
              grid=dict(bbox=(0, 0, 256, 128), res=(4, 2, 1), tile_size=(16, 16))),
    'B': dict(srs='EPSG:3995', srs_path='EPSG3995', scale=20000, origin=(-176 * 20000, -(16 + 128) * 20000),
              grid=dict(bbox=(0, 0, 256, 128), res=(4, 2, 1), tile_size=(16, 16))),
    'C': dict(srs='EPSG:3995', srs_path='EPSG3995', scale=25000, origin=(-160 * 25000, -(40 + 128) * 25000),
              grid=dict(bbox=(0, 0, 256, 128), res=(2, 1), tile_size=(32, 32))),
}

_TRANSF = {}


def lattice_to_lonlat(frame, xs, ys):
    """lattice coordinates (arrays) of an oblique frame -> lon, lat (pyproj point transforms only)"""
    import numpy as np
    from pyproj import Transformer
    fr = FRAMES[frame]
    key = (fr['srs'], 'inv')
    if key not in _TRANSF:
        _TRANSF[key] = Transformer.from_crs(fr['srs'], 'EPSG:4326', always_xy=True)
    x = fr['origin'][0] + fr['scale'] * np.asarray(xs, dtype=float)
    y = fr['origin'][1] + fr['scale'] * np.asarray(ys, dtype=float)
    return _TRANSF[key].transform(x, y)


def lonlat_to_lattice(frame, lons, lats):
    import numpy as np
    from pyproj import Transformer
    fr = FRAMES[frame]
    key = (fr['srs'], 'fwd')
    if key not in _TRANSF:
        _TRANSF[key] = Transformer.from_crs('EPSG:4326', fr['srs'], always_xy=True)
    x, y = _TRANSF[key].transform(np.asarray(lons, dtype=float), np.asarray(lats, dtype=float))
    return (np.asarray(x) - fr['origin'][0]) / fr['scale'], (np.asarray(y) - fr['origin'][1]) / fr['scale']


_PNG = {}


def flat_png(size, colour):
    key = (tuple(size), colour)
    if key not in _PNG:
        from PIL import Image
        b = io.BytesIO()
        Image.new('RGB', size, colour).save(b, 'png')
        _PNG[key] = b.getvalue()
    return _PNG[key]


class _Resp(io.BytesIO):
    pass


class World(object):
    def __init__(self, kinds, group=('b', 'c'), group_this=None, frame=None, ext=None):
        """kinds: {'a': 'wmsT', 'b': 'cache', ...} (insertion order = bottom-to-top order of the tree).
        frame: None (lattice = EPSG:3857 metres) or a key of FRAMES (oblique world).
        ext: None or (x0, y0, x1, y1) in lattice units: the WMS service declares this rectangle as the extent of the
        request SRS and of its alias code (`services: wms: bbox_srs`), see the module docstring."""
        self.frame = frame
        self.ext = tuple(ext) if ext else None
        assert not (frame and ext)
        fr = FRAMES[frame] if frame else None
        self.srs = fr['srs'] if fr else SRS
        self.srs_path = fr['srs_path'] if fr else SRS_PATH
        self.grid = fr['grid'] if fr else GRID
        self.origin = fr['origin'] if fr else (0, 0)
        self.scale = fr['scale'] if fr else 1
        self.kinds = dict(kinds)
        self.names = [n for n in ('a', 'b', 'c') if n in kinds]
        self.group = tuple(n for n in group if n in kinds)
        self.group_this = group_this          # None or a kind: the group layer `g` has sources of its own
        if group_this:
            self.kinds['g'] = group_this

    @property
    def tile_layers(self):
        return [n for n in self.names + (['g'] if self.group_this else []) if self.kinds[n].startswith('cache')]

    def key(self):
        return '%s|%s|%s|%s|%s' % (','.join('%s=%s' % (n, self.kinds[n]) for n in self.names), ','.join(self.group),
                                   self.group_this or '-', self.frame or '-', ','.join(map(str, self.ext)) if self.ext else '-')

    def sx(self, lx):
        """lattice x -> SRS x"""
        return self.origin[0] + self.scale * lx

    def sy(self, ly):
        return self.origin[1] + self.scale * ly


class App(object):
    def __init__(self, world, workdir):
        import mapproxy.client.http as H
        from mapproxy.config.loader import ProxyConfiguration
        from mapproxy.wsgiapp import MapProxyApp
        import webtest
        lg = logging.getLogger('mapproxy')
        if not any(isinstance(h, logging.NullHandler) for h in lg.handlers):
            lg.addHandler(logging.NullHandler())
        lg.propagate = False
        self.w = world
        self.dir = workdir
        os.makedirs(workdir, exist_ok=True)
        self.log = []
        self.unknown = []
        self._H = H
        if not App._live:
            App._orig_open = H.HTTPClient.open

            def fake_open(client, url, data=None, method=None):
                return App._current._upstream(url)
            H.HTTPClient.open = fake_open
        App._live += 1
        App._current = self
        try:
            pc = ProxyConfiguration(self._conf(), conf_base_dir=workdir, seed=False, renderd=False)
            self.wsgi = MapProxyApp(pc.configured_services(), pc.base_config)
            self._webtest = webtest
        except Exception:
            self.close()
            raise

    _live = 0
    _current = None
    _orig_open = None

    def close(self):
        App._live -= 1
        if App._live == 0:
            self._H.HTTPClient.open = App._orig_open
        shutil.rmtree(self.dir, ignore_errors=True)

    def _conf(self):
        w = self.w
        d = self.dir
        gb = w.grid['bbox']
        grids = {'g': {'srs': w.srs, 'bbox': [w.sx(gb[0]), w.sy(gb[1]), w.sx(gb[2]), w.sy(gb[3])],
                       'res': [w.scale * r for r in w.grid['res']], 'tile_size': list(w.grid['tile_size']), 'origin': 'ul'}}
        sources, caches = {}, {}

        def layer_sources(n):
            kind = w.kinds[n]
            src = {'type': 'wms', 'req': {'url': 'http://up-%s/service' % n, 'layers': n,
                                          'transparent': kind != 'wmsO'},
                   'supported_srs': [w.srs], 'wms_opts': {'featureinfo': True}}
            sources['s' + n] = src
            if kind in ('wmsT', 'wmsO'):
                return ['s' + n]
            # every cached layer has a second tile set (another grid): the capabilities of the tile services list both
            caches['c' + n] = {'grids': ['g'] + SECOND_GRID, 'sources': ['s' + n], 'meta_size': [2, 2], 'meta_buffer': 0,
                               'format': 'image/jpeg' if kind == 'cachej' else 'image/png', 'disable_storage': True}
            return ['c' + n]

        def leaf(n):
            return {'name': n, 'title': n, 'sources': layer_sources(n)}
        layers = []
        for n in w.names:
            if n in w.group:
                continue
            layers.append(leaf(n))
        if w.group:
            g = {'name': 'g', 'title': 'g', 'layers': [leaf(n) for n in w.group]}
            if w.group_this:
                g['sources'] = layer_sources('g')
            layers.append(g)
        services = {'tms': {}, 'kml': {}, 'wmts': {'restful': True, 'kvp': True,
                                                    'featureinfo_formats': [{'mimetype': 'text/plain', 'suffix': 'txt'}]},
                    'wms': {'srs': [SRS, SRS_ALIAS] if not w.frame else [w.srs], 'image_formats': ['image/png', 'image/jpeg'],
                            'featureinfo_types': ['text']}}
        if w.ext:
            services['wms']['bbox_srs'] = [{'srs': code, 'bbox': [w.sx(w.ext[0]), w.sy(w.ext[1]), w.sx(w.ext[2]), w.sy(w.ext[3])]}
                                           for code in (SRS, SRS_ALIAS)]
        return {
            'globals': {'image': {'paletted': False, 'resampling_method': 'nearest'},
                        'cache': {'base_dir': os.path.join(d, 'cache'), 'lock_dir': os.path.join(d, 'locks'),
                                  'tile_lock_dir': os.path.join(d, 'tile_locks'), 'concurrent_tile_creators': 1}},
            'services': services, 'grids': grids, 'sources': sources, 'caches': caches, 'layers': layers}

    def _upstream(self, url):
        m = re.match(r'^http://up-(\w+)/service\?(.*)$', url)
        if not m:
            self.unknown.append(url)
            raise IOError('unknown upstream %s' % url)
        n = m.group(1)
        q = dict(p.split('=', 1) for p in m.group(2).split('&') if '=' in p)
        q = {k.lower(): v for k, v in q.items()}
        req = q.get('request', '').lower()
        if req == 'getfeatureinfo':
            self.log.append((n, 'fi'))
            r = _Resp(('info:%s\n' % n).encode())
            r.headers = {'Content-type': 'text/plain'}
            r.code = 200
            return r
        self.log.append((n, 'map'))
        lay = q.get('layers', n).replace('%2C', ',').split(',')
        if set(lay) != {n}:       # (a layer that is named twice in LAYERS is asked for twice, in one combined request)
            self.unknown.append('combined request: ' + url)
        r = _Resp(flat_png((int(q['width']), int(q['height'])), COLOURS[n]))
        r.headers = {'Content-type': 'image/png'}
        r.code = 200
        return r

    def get(self, url, callback):
        del self.log[:]
        del self.unknown[:]
        App._current = self
        env = {}
        if callback is not None:
            env['mapproxy.authorize'] = callback
        app = self._webtest.TestApp(self.wsgi, extra_environ=env)
        resp = app.get(url, expect_errors=True)
        return resp, list(self.log), list(self.unknown)
