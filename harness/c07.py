"""C07 - file locks are exclusive and semaphores bounded under every interleaving.

spec/FileLock.tla is checked exhaustively by TLC (mutual exclusion, timeout soundness, re-lock, no stuck
state, termination under fairness); TLC behaviours are forced onto the real FileLock/SemLock at system-call
granularity with the baton scheduler (spec -> code); random schedules of the real classes are recorded
and validated by TLC against spec/trace/Trace_FileLock.tla (code -> spec).  The model's counterexample
for the protocol *without* the inode check is replayed too: on code that follows the protocol with the
check it is not executable; on code without it, it puts two contenders inside the section.
"""
import json
import os
import weakref
import re
import shutil
import tempfile

from engine import tlc
from engine.sched import Baton, Deadlock

SPEC = os.path.join(tlc.SPEC_DIR, 'FileLock.tla')
TRACE_SPEC = os.path.join(tlc.SPEC_DIR, 'trace', 'Trace_FileLock.tla')
MC = os.path.join(tlc.SPEC_DIR, 'mc')


# --------------------------------------------------------------------------------------------
# interposition: the real FileLock/SemLock/LockFile with every system call a yield point
# --------------------------------------------------------------------------------------------
class _FileProxy(object):
    def __init__(self, world, real, ino_id, slot, owner):
        self._w = world
        self._real = real
        self._id = ino_id
        self._slot = slot
        self._owner = owner
        self._closed = False
        self.name = real.name

    def fileno(self):
        return self._real.fileno()

    def write(self, s):
        return self._real.write(s)

    def truncate(self, *a):
        return self._real.truncate(*a)

    def flush(self):
        return self._real.flush()

    def close(self):
        if self._closed:
            return
        self._w.sched.point('close')
        self._closed = True
        self._real.close()
        self._w.open_fds[self._id] -= 1
        self._w.emit('close', ino=self._id)

    def __del__(self):
        try:
            if not self._closed:
                self.close()
        except Exception:
            pass


class _OsProxy(object):
    """`os` as seen by mapproxy.util.lock / lockfile: remove() and stat() are yield points."""
    def __init__(self, world):
        self._w = world

    def __getattr__(self, name):
        return getattr(os, name)

    def remove(self, path):
        w = self._w
        slot = w.slot_of(path)
        if slot is None or w.sched.me() is None:
            return os.remove(path)
        w.sched.point('unlink')
        try:
            os.remove(path)
        except OSError:
            w.emit('unlink', ok=False, slot=slot)
            raise
        w.path_id[slot] = 0
        w.emit('unlink', ok=True, slot=slot)

    unlink = remove

    def stat(self, path, *a, **kw):
        w = self._w
        slot = w.slot_of(path)
        if slot is None or w.sched.me() is None:
            return os.stat(path, *a, **kw)
        w.sched.point('verify')
        ref = w.cur_fd.get(w.sched.current())
        cur = ref() if ref is not None else None
        same = cur is not None and not cur._closed and w.path_id[slot] == cur._id
        w.emit('verify', same=bool(same))
        return os.stat(path, *a, **kw)


class _TimeProxy(object):
    def __init__(self, world):
        self._w = world

    def time(self):
        w = self._w
        if w.sched.me() is None:
            return float(w.now)
        w.sched.point('clock')
        w.emit('clock')
        return float(w.now)

    def sleep(self, s):
        w = self._w
        if w.sched.me() is None:
            return
        w.sched.point('sleep')
        w.emit('wake')


class _RandomProxy(object):
    def __init__(self, world):
        self._w = world

    def randint(self, a, b):
        w = self._w
        me = w.sched.current()
        w.sched.point('choose')
        v = w.choice.get(me)
        if v is None:
            v = w.rng.randint(a, b)
        return v


class LockWorld(object):
    """One lock directory with n slot files and contenders that run the real lock classes."""

    def __init__(self, nslots, remove, timeout, cycles, contenders, rng):
        import mapproxy.util.lock as lockmod
        import mapproxy.util.ext.lockfile as lfmod
        self.lockmod, self.lfmod = lockmod, lfmod
        self.dir = tempfile.mkdtemp(prefix='verif-c07-')
        self.nslots, self.remove, self.timeout, self.cycles = nslots, remove, timeout, cycles
        self.base = os.path.join(self.dir, 'l.lck')
        self.paths = [self.base] if nslots == 1 else [self.base + str(i) for i in range(nslots)]
        self.rng = rng
        self.sched = Baton()
        self.now = 0
        self.next_id = 1
        self.path_id = [0] * nslots          # slot -> inode id (0: path absent)
        self.real_ino = {}                   # id -> real st_ino
        self.born = {}                       # id -> virtual time the inode was created
        self.last_open = {}                  # id -> virtual time of the last open(path, 'w+') (truncates: refreshes mtime)
        self.opened_at = {}                  # contender -> virtual time of its last open()
        self.open_fds = {}                   # id -> number of open descriptors
        self.cur_fd = {}                     # contender -> last proxy opened
        self.inside = []                     # contenders between lock() return and their release call
        self.choice = {}
        self.max_inside = 0
        self.problems = []
        self.events = self.sched.events
        self._saved = (lfmod.__dict__.get('open'), lfmod._lock_file, lfmod.os, lockmod.os, lockmod.time,
                       lockmod.random)
        lfmod.open = self._open
        lfmod._lock_file = self._flock
        lfmod.os = _OsProxy(self)
        lockmod.os = lfmod.os
        lockmod.time = _TimeProxy(self)
        lockmod.random = _RandomProxy(self)
        self.contenders = list(contenders)
        for c in contenders:
            self.sched.spawn(c, self._driver(c))
        for c in contenders:          # run every contender to its first yield point
            self.sched.step(c)

    def close(self):
        # let unfinished contenders run to their end so that no thread is left blocked
        try:
            self.timeout = -1
            self.now += 10 ** 6
            self.sched.finish_all(limit=5000)
        except Exception:
            pass
        lfmod, lockmod = self.lfmod, self.lockmod
        o, lf, os1, os2, tm, rnd = self._saved
        if o is None:
            lfmod.__dict__.pop('open', None)
        else:
            lfmod.open = o
        lfmod._lock_file = lf
        lfmod.os = os1
        lockmod.os = os2
        lockmod.time = tm
        lockmod.random = rnd
        shutil.rmtree(self.dir, ignore_errors=True)

    def slot_of(self, path):
        try:
            return self.paths.index(path)
        except ValueError:
            return None

    def emit(self, ev, **f):
        return self.sched.emit(ev, **f)

    # ---- interposed calls ----------------------------------------------------------------
    def _open(self, path, mode='r', *a, **kw):
        slot = self.slot_of(path)
        if slot is None or self.sched.me() is None:
            return open(path, mode, *a, **kw)
        self.sched.point('open')
        me = self.sched.current()
        existed = os.path.exists(path)
        real = open(path, mode, *a, **kw)
        st = os.fstat(real.fileno())
        if existed != (self.path_id[slot] != 0):
            self.problems.append('bookkeeping: existence of %s differs from the harness view' % path)
        if existed and self.path_id[slot] != 0:
            iid = self.path_id[slot]
            if self.real_ino.get(iid) != st.st_ino:
                self.problems.append('bookkeeping: path inode changed behind the harness')
        else:
            iid = self.next_id
            self.next_id += 1
            self.real_ino[iid] = st.st_ino
            self.path_id[slot] = iid
            self.born[iid] = self.now
        self.last_open[iid] = self.now
        self.opened_at[me] = self.now
        self.open_fds[iid] = self.open_fds.get(iid, 0) + 1
        p = _FileProxy(self, real, iid, slot, me)
        self.cur_fd[me] = weakref.ref(p)
        self.emit('open', slot=slot, ino=iid)
        return p

    def _flock(self, fp):
        import fcntl
        self.sched.point('flock')
        try:
            fcntl.flock(fp.fileno(), fcntl.LOCK_EX | fcntl.LOCK_NB)
        except (IOError, OSError) as err:
            self.emit('flock_fail', ino=getattr(fp, '_id', 0))
            raise self.lfmod.LockError("Couldn't lock %s: %s" % (fp.name, err))
        self.emit('flock_ok', ino=getattr(fp, '_id', 0))

    # ---- contender driver ----------------------------------------------------------------
    def _driver(self, c):
        def run():
            lockmod = self.lockmod
            for _ in range(self.cycles):
                if self.nslots == 1:
                    fl = lockmod.FileLock(self.base, timeout=self.timeout, step=0.01, remove_on_unlock=self.remove)
                else:
                    fl = lockmod.SemLock(self.base, self.nslots, timeout=self.timeout, step=0.01)
                try:
                    fl.lock()
                except lockmod.LockTimeout:
                    self.emit('timeout_raised')
                    fl = None
                    return 'timeout'
                self.emit('enter')
                fl.unlock()       # the contender counts as inside until the first call of unlock() executed
                fl = None         # drops the LockFile: closes the descriptor of a removed lock file
            return 'done'
        return run

    # ---- controller ----------------------------------------------------------------------
    def kernel_flocks(self):
        """ids of live inodes that carry a flock of this process according to /proc/locks"""
        held = set()
        mypid = str(os.getpid())
        inos = {v: k for k, v in self.real_ino.items() if self.open_fds.get(k, 0) > 0}
        try:
            with open('/proc/locks') as f:
                for line in f:
                    p = line.split()
                    if len(p) >= 6 and p[1] == 'FLOCK' and p[4] == mypid:
                        ino = int(p[5].split(':')[2])
                        if ino in inos:
                            held.add(inos[ino])
        except (IOError, OSError, ValueError):
            return None
        return held

    def step(self, c):
        evs = self.sched.step(c)
        for e in evs:
            if e['ev'] == 'enter':
                self.inside.append(e['c'])
                self.max_inside = max(self.max_inside, len(self.inside))
            elif e['ev'] in ('unlink', 'close') and e['c'] in self.inside:
                self.inside.remove(e['c'])
        obs = {'path': list(self.path_id), 'inside': sorted(self.inside), 'now': self.now}
        for e in evs:
            e.update(obs)
        t = self.sched.ts[c]
        if t.finished and t.exc is not None:
            self.problems.append('contender %s raised %r' % (c, t.exc))
        return evs

    def tick(self):
        self.now += 1
        e = {'c': '-', 'ev': 'tick', 'path': list(self.path_id), 'inside': sorted(self.inside), 'now': self.now}
        self.events.append(e)
        return e

    def pending(self, c):
        p = self.sched.pending(c)
        return p[0] if p else None

    # ---- the janitor ---------------------------------------------------------------------
    def attempting(self, c):
        """between open() and release: the contender has a descriptor of the lock file open"""
        ref = self.cur_fd.get(c)
        cur = ref() if ref is not None else None
        return cur is not None and not cur._closed

    def may_tick(self, hold):
        """assumption of the janitor: nobody stays between open() and release for more than `hold` ticks"""
        return all(self.now + 1 - self.opened_at.get(c, 0) <= hold for c in self.contenders if self.attempting(c))

    def cleanup(self, max_lock_time):
        """cleanup_lockdir of the real code on the lock directory, as one step.  The files carry the time stamps a real
        file system would show in virtual time: modification time = last open(path, 'w+') (it truncates; the pid written
        by the holder comes right after its open), access time = creation of the inode (a lock file is never read)."""
        for slot, iid in enumerate(self.path_id):
            if iid:
                os.utime(self.paths[slot], (float(self.born[iid]), float(self.last_open[iid])))
        self.lockmod.cleanup_lockdir(self.dir, max_lock_time=max_lock_time, force=True)
        removed = []
        for slot, iid in enumerate(self.path_id):
            if iid and not os.path.exists(self.paths[slot]):
                self.path_id[slot] = 0
                removed.append(slot)
        e = {'c': '-', 'ev': 'cleanup', 'removed': bool(removed), 'path': list(self.path_id), 'inside': sorted(self.inside),
             'now': self.now}
        self.events.append(e)
        return e


# --------------------------------------------------------------------------------------------
# spec -> code : force a TLC behaviour onto the real classes
# --------------------------------------------------------------------------------------------
EXPECT = {'Begin': 'clock', 'Retry': 'clock', 'TimeoutStep': 'clock', 'Open': 'open', 'FlockOk': 'flock',
          'FlockFail': 'flock', 'VerifyOk': 'verify', 'VerifyFail': 'verify', 'CloseFail': 'close',
          'CloseUnlock': 'close', 'GcClose': 'close', 'CloseFallback': 'close', 'Unlink': 'unlink', 'Wake': 'sleep'}
RESULT = {'FlockOk': 'flock_ok', 'FlockFail': 'flock_fail', 'Open': 'open', 'Unlink': 'unlink', 'Wake': 'wake',
          'Begin': 'clock', 'Retry': 'clock', 'TimeoutStep': 'clock', 'VerifyOk': 'verify', 'VerifyFail': 'verify',
          'CloseFail': 'close', 'CloseUnlock': 'close', 'GcClose': 'close', 'CloseFallback': 'close'}
_ACT = re.compile(r'^(\w+)(?:\((.*)\))?$')


def parse_action(a):
    m = _ACT.match(a.strip())
    name = m.group(1)
    args = []
    if m.group(2):
        for x in m.group(2).split(','):
            x = x.strip()
            args.append(x.strip('"') if x.startswith('"') else int(x))
    return name, args


def replay_behaviour(beh, cfg, rng, lenient=False):
    """Force `beh` ([(action, state)]) on the real lock classes.

    Returns (status, detail, world_summary): status in
      'ok'          every step was executed and every projected state equalled the spec state
      'diverged'    the real code did something else than the spec behaviour at some step
      'two-holders' more contenders inside the section than slots (observed on the real code)
      'problem'     harness bookkeeping problem / exception in a contender
    """
    contenders = sorted(beh[0][1]['pc'].keys())
    w = LockWorld(cfg['NSlots'], cfg['Remove'], cfg['Timeout'], cfg['Cycles'], contenders, rng)
    n = 0
    try:
        for act, st in beh[1:]:
            name, args = parse_action(act)
            n += 1
            if name == 'Tick':
                w.tick()
            elif name == 'Cleanup':
                e = w.cleanup(cfg['MaxLockTime'])
                if not e['removed']:
                    return 'diverged', 'step %d %s: the janitor of the real code leaves the lock file' % (n, act), w
            else:
                c = args[0]
                while w.pending(c) == 'choose':
                    w.choice[c] = args[1] if name == 'Open' else None
                    w.step(c)
                if lenient:
                    while w.pending(c) == 'verify' and EXPECT[name] != 'verify':
                        evs = w.step(c)   # the real code verifies where the replayed protocol does not
                        if len(w.inside) > w.nslots:
                            return 'two-holders', 'step %d' % n, w
                        if any(e['ev'] == 'verify' and not e['same'] for e in evs):
                            return 'diverged', 'step %d: the code rejects the orphan inode' % n, w
                want = EXPECT[name]
                got = w.pending(c)
                if got != want:
                    return 'diverged', 'step %d %s: spec does %s, code is about to do %s' % (n, act, want, got), w
                evs = w.step(c)
                kinds = [e['ev'] for e in evs]
                if RESULT[name] not in kinds:
                    return 'diverged', 'step %d %s: code produced %s' % (n, act, kinds), w
                if name in ('VerifyOk', 'VerifyFail'):
                    same = [e['same'] for e in evs if e['ev'] == 'verify'][0]
                    if same != (name == 'VerifyOk'):
                        return 'diverged', 'step %d %s: verify outcome %s' % (n, act, same), w
                if name == 'TimeoutStep' and 'timeout_raised' not in kinds:
                    return 'diverged', 'step %d %s: no timeout raised' % (n, act), w
                if name in ('Retry', 'Begin') and 'timeout_raised' in kinds:
                    return 'diverged', 'step %d %s: timeout raised' % (n, act), w
            if len(w.inside) > w.nslots:
                return 'two-holders', 'step %d %s: inside=%s' % (n, act, w.inside), w
            if w.problems:
                return 'problem', '; '.join(w.problems), w
            if lenient:
                continue
            # projection: path -> inode id, contenders inside, kernel flock holders, clock
            spec_path = [st['pathInode'][s] for s in sorted(st['pathInode'])]
            spec_in = sorted(c for c, p in st['pc'].items() if p == 'cs')
            if spec_path != w.path_id or spec_in != sorted(w.inside) or st['now'] != w.now:
                return 'diverged', 'step %d %s: spec path=%s inside=%s now=%s, real path=%s inside=%s now=%s' % (
                    n, act, spec_path, spec_in, st['now'], w.path_id, sorted(w.inside), w.now), w
            kf = w.kernel_flocks()
            if kf is not None:
                spec_held = {i + 1 for i, o in enumerate(st['owner']) if o != 'none'}
                if spec_held != kf:
                    return 'diverged', 'step %d %s: spec flock holders on inodes %s, kernel says %s' % (
                        n, act, sorted(spec_held), sorted(kf)), w
        if lenient:
            for c in contenders:
                if w.pending(c) == 'verify':
                    evs = w.step(c)
                    if len(w.inside) > w.nslots:
                        return 'two-holders', 'after the last step: inside=%s' % w.inside, w
                    if any(e['ev'] == 'verify' and not e['same'] for e in evs):
                        return 'diverged', 'after the last step the code rejects the orphan inode it locked', w
        return 'ok', '%d steps' % n, w
    except Deadlock as ex:
        return 'problem', 'deadlock in the scheduler: %s' % ex, w
    finally:
        w.close()


# --------------------------------------------------------------------------------------------
# code -> spec : random schedules, recorded and validated by TLC
# --------------------------------------------------------------------------------------------
def random_schedule(cfg, contenders, rng, max_steps=400):
    w = LockWorld(cfg['NSlots'], cfg['Remove'], cfg['Timeout'], cfg['Cycles'], contenders, rng)
    try:
        steps = 0
        solo, focus = rng.random() < 0.6, None
        while w.sched.runnable() and steps < max_steps:
            steps += 1
            mlt = cfg.get('MaxLockTime', 0)
            quiet = mlt and not any(w.attempting(c) for c in w.contenders)      # time passes while nobody uses the lock
            if w.now < cfg['MaxTime'] and rng.random() < (0.08 if not mlt else (0.5 if quiet else 0.15)) and (
                    not mlt or w.may_tick(cfg['Hold'])):
                w.tick()
                continue
            if mlt and rng.random() < 0.12:
                w.cleanup(mlt)
                continue
            if quiet and w.now < cfg['MaxTime'] and rng.random() < 0.25:
                # a pause: nobody uses the lock for a while, then the janitor comes
                for _ in range(rng.randint(1, mlt + 1)):
                    if w.now < cfg['MaxTime']:
                        w.tick()
                w.cleanup(mlt)
                continue
            if mlt and solo:
                # one contender at a time, with pauses in which nobody uses the lock (the janitor finds old files then)
                if focus not in w.sched.runnable() or (not w.attempting(focus) and rng.random() < 0.3):
                    focus = rng.choice(w.sched.runnable())
                c = focus if rng.random() < 0.9 else rng.choice(w.sched.runnable())
            else:
                c = rng.choice(w.sched.runnable())
            if w.pending(c) == 'choose':
                w.choice[c] = None
            w.step(c)
        complete = not w.sched.runnable()
        trace = [{k: v for k, v in e.items() if not k.startswith('_')} for e in w.events]
        return trace, w.max_inside, list(w.problems), complete, w.next_id
    finally:
        w.close()


def write_cfg(path, cfg, contenders, spec='Spec', invariants=(), properties=(), post=None):
    with open(path, 'w') as f:
        f.write('SPECIFICATION %s\nCONSTANTS\n' % spec)
        f.write('  Contender = {%s}\n' % ', '.join('"%s"' % c for c in contenders))
        for k in ('NSlots', 'Remove', 'InodeCheck', 'Cycles', 'Timeout', 'MaxTime', 'MaxIno'):
            v = cfg[k]
            f.write('  %s = %s\n' % (k, ('TRUE' if v else 'FALSE') if isinstance(v, bool) else v))
        f.write('  MaxLockTime = %d\n  Hold = %d\n  ExpireBy = "%s"\n' % (cfg.get('MaxLockTime', 0), cfg.get('Hold', 0),
                                                                      cfg.get('ExpireBy', 'mtime')))
        for i in invariants:
            f.write('INVARIANT %s\n' % i)
        for p in properties:
            f.write('PROPERTY %s\n' % p)
        if post:
            f.write('POSTCONDITION %s\n' % post)
        f.write('CHECK_DEADLOCK FALSE\n')


def validate_traces(ctx, name, cfg, contenders, traces):
    """Validate a batch of recorded traces with TLC. Returns list of (index, matched_len) for rejected ones."""
    d = ctx.sub('trace-' + name)
    tf = os.path.join(d, 'batch.json')
    with open(tf, 'w') as f:
        json.dump(traces, f)
    cfgp = os.path.join(d, 'Trace_FileLock.cfg')
    write_cfg(cfgp, cfg, contenders, spec='TraceSpec', invariants=['MutualExclusion', 'HolderOwnsPath'],
              properties=['AttemptFailSound', 'TimeoutSound'], post='TraceAccepted')
    r = tlc.run(TRACE_SPEC, cfgp, d, workers=1, coverage=False, env={'TRACE_FILE': tf}, timeout=1800)
    if r.error and r.violated is None:
        raise tlc.MachineryError('trace validation (%s) failed: %s\n%s' % (name, r.error, r.out[-2000:]))
    matched = None
    pr = tlc.find_prints(r.out, 'matched')
    if pr:
        mv = pr[-1][1]
        matched = list(mv) if isinstance(mv, tuple) else [mv[k] for k in sorted(mv)]
    rejected = []
    if r.violated in ('MutualExclusion', 'HolderOwnsPath', 'AttemptFailSound', 'TimeoutSound'):
        tid = r.trace[-1][1]['tid'] if r.trace else 0
        rejected.append((tid - 1, 'invariant %s violated in a recorded execution' % r.violated, r.trace[-1][1]['l'] if r.trace else 0))
    elif matched is not None:
        for i, tr in enumerate(traces):
            if matched[i] < len(tr):
                rejected.append((i, 'not a behaviour of the specification', matched[i]))
    elif not r.ok:
        raise tlc.MachineryError('trace validation (%s): cannot interpret TLC output\n%s' % (name, r.out[-2000:]))
    return r, rejected


# --------------------------------------------------------------------------------------------
CONFIGS = {
    'remove': dict(NSlots=1, Remove=True, InodeCheck=True, Cycles=2, Timeout=1, MaxTime=2, MaxIno=7),
    'keep': dict(NSlots=1, Remove=False, InodeCheck=True, Cycles=2, Timeout=1, MaxTime=2, MaxIno=7),
    'sem': dict(NSlots=2, Remove=False, InodeCheck=True, Cycles=1, Timeout=1, MaxTime=2, MaxIno=7),
    # with the janitor (cleanup_lockdir) running on the lock directory: lock files that were not opened for more than
    # MaxLockTime ticks are removed, nobody holds a lock for longer than that
    'janitor-keep': dict(NSlots=1, Remove=False, InodeCheck=True, Cycles=2, Timeout=1, MaxTime=6, MaxIno=7, MaxLockTime=2, Hold=2),
    # (with remove_on_unlock the file only exists while the lock is held - for at most MaxLockTime: nothing for the janitor)
}
INVS = ['TypeOK', 'MutualExclusion', 'HolderOwnsPath', 'RelockPossible', 'DeadlockFree']
PROPS = ['AttemptFailSound', 'TimeoutSound']


def run(ctx):
    thorough = ctx.tier == 'thorough'
    tlc.sany(SPEC)
    cont3 = ['c1', 'c2', 'c3']
    nsim = 400 if thorough else 60
    nrand = 1500 if thorough else 250

    for name, cfg in CONFIGS.items():
        conts = cont3 if not (thorough and name != 'sem') else cont3
        if 'janitor' in name and not thorough:
            conts = ['c1', 'c2']          # three contenders: 37 million states, thorough tier only
        # (M) exhaustive model check of the protocol the code is supposed to follow
        d = ctx.sub('mc-' + name)
        cfgp = os.path.join(d, 'FileLock.cfg')
        # (three contenders with the janitor: clock bound 4 instead of 6 - 37 million states)
        write_cfg(cfgp, dict(cfg, MaxTime=4) if ('janitor' in name and len(conts) > 2) else cfg, conts, invariants=INVS, properties=PROPS)
        r = tlc.run(SPEC, cfgp, d, workers=16, timeout=3000)
        ctx.log('model %s: %r' % (name, r))
        if not r.ok:
            if r.violated:
                ctx.violation({'kind': 'model', 'config': name, 'property': r.violated},
                              'FileLock.tla (%s) violates %s' % (name, r.violated),
                              {'trace': [(a, str(s)) for a, s in r.trace]})
                continue
            raise tlc.MachineryError('TLC failed on %s: %s' % (name, r.error))
        ctx.add_tlc('FileLock/' + name, r)
        for a in ('Open', 'FlockOk', 'FlockFail', 'VerifyOk', 'CloseFail', 'Retry', 'TimeoutStep') + (('Cleanup',) if 'janitor' in name else ()):
            if r.coverage.get(a, (0, 0))[0] == 0:
                raise tlc.MachineryError('vacuity: action %s never taken in %s' % (a, name))
        if name == 'remove' and r.coverage.get('VerifyFail', (0, 0))[0] == 0:
            raise tlc.MachineryError('vacuity: VerifyFail never taken')

        # liveness: every contender finishes (no timeouts possible: clock frozen)
        d = ctx.sub('live-' + name)
        lcfg = dict(cfg, MaxTime=0, Cycles=2 if name != 'sem' else 1, MaxLockTime=0, Hold=0)
        cfgp = os.path.join(d, 'FileLock.cfg')
        write_cfg(cfgp, lcfg, ['c1', 'c2'] if name != 'sem' else cont3, spec='FairSpec', properties=['Termination'])
        r = tlc.run(SPEC, cfgp, d, workers=16, timeout=3000, coverage=False)
        if not r.ok:
            if r.violated:
                ctx.violation({'kind': 'model-liveness', 'config': name}, 'FileLock.tla (%s): Termination fails' % name,
                              {'trace': [(a, str(s)) for a, s in r.trace]})
            else:
                raise tlc.MachineryError('TLC liveness failed on %s: %s' % (name, r.error))
        else:
            ctx.add_tlc('FileLock/%s/liveness' % name, r)

        # (R) spec -> code: simulated behaviours of the model forced onto the real classes
        d = ctx.sub('sim-' + name)
        cfgp = os.path.join(d, 'FileLock.cfg')
        write_cfg(cfgp, cfg, conts)
        prefix = os.path.join(d, 'beh')
        r = tlc.run(SPEC, cfgp, d, workers=1, simulate='file=%s,num=%d' % (prefix, nsim), depth=60,
                    seed=ctx.seed + 7, coverage=False, timeout=600)
        nb = 0
        for f, beh in tlc.sim_traces(prefix):
            if len(beh) < 2:
                continue
            nb += 1
            status, detail, w = replay_behaviour(beh, cfg, ctx.rng)
            ctx.cov['replayed_behaviours'] += 1
            ctx.cov['replayed_steps'] += len(beh) - 1
            acts = tuple(a for a, _ in beh[1:])
            ctx.count(('replay', name, acts))
            if nb == 1:
                ctx.sample({'kind': 'spec behaviour replayed on the real %s' % ('SemLock' if name == 'sem' else 'FileLock'),
                            'config': name, 'actions': list(acts)[:40], 'result': status})
            if status != 'ok':
                sig = {'kind': 'replay-' + status, 'config': name}
                ctx.violation(sig, 'spec behaviour not reproduced by the real code (%s): %s' % (name, detail),
                              {'config': cfg, 'behaviour': [a for a, _ in beh], 'detail': detail})
                break
        ctx.log('replayed %d behaviours for %s' % (nb, name))
        if nb == 0:
            raise tlc.MachineryError('no simulation behaviours produced for %s' % name)

        # (T) code -> spec: random schedules recorded from the real classes, validated by TLC
        traces = []
        for i in range(nrand):
            n = ctx.rng.choice([2, 3, 3, 4]) if thorough else ctx.rng.choice([2, 3])
            conts_i = ['c%d' % (k + 1) for k in range(n)]
            tr, maxin, problems, complete, nid = random_schedule(cfg, conts_i, ctx.rng)
            ctx.count(('sched', name, tuple((e['c'], e['ev']) for e in tr)))
            if maxin > cfg['NSlots']:
                ctx.violation({'kind': 'two-holders', 'config': name},
                              '%d contenders inside a %d-slot lock in a random schedule of the real code' % (maxin, cfg['NSlots']),
                              {'config': cfg, 'trace': tr})
            if problems:
                ctx.violation({'kind': 'contender-problem', 'config': name}, problems[0], {'config': cfg, 'trace': tr})
            traces.append(tr)
        tcfg = dict(cfg, MaxIno=max(8, max(max([e.get('ino', 0) for e in tr] + [0]) for tr in traces) + 2))
        r, rejected = validate_traces(ctx, name, tcfg, ['c1', 'c2', 'c3', 'c4'], traces)
        ctx.cov['traces_validated_against_impl'] += len(traces)
        ctx.cov['states'] += r.distinct
        ctx.cov['transitions'] += r.generated
        ctx.sample({'kind': 'recorded schedule of the real code (validated by Trace_FileLock)', 'config': name,
                    'events': [(e['c'], e['ev']) for e in traces[0]][:40]})
        for i, why, upto in rejected:
            nxt = traces[i][upto] if upto < len(traces[i]) else None
            ctx.violation({'kind': 'trace-rejected', 'config': name, 'event': nxt['ev'] if nxt else None},
                          'recorded execution %s (%s): matched %d of %d events, next event %s' % (
                              why, name, upto, len(traces[i]), nxt),
                          {'config': tcfg, 'trace': traces[i], 'matched': upto})
        ctx.log('validated %d recorded schedules for %s (%d rejected)' % (len(traces), name, len(rejected)))

    # (A) the attack: counterexample of the protocol WITHOUT the inode check, replayed on the real code
    cfg = dict(CONFIGS['remove'], InodeCheck=False)
    d = ctx.sub('attack')
    cfgp = os.path.join(d, 'FileLock.cfg')
    write_cfg(cfgp, cfg, cont3, invariants=['MutualExclusion'])
    r = tlc.run(SPEC, cfgp, d, workers=4, timeout=600, coverage=False)
    if r.violated != 'MutualExclusion':
        raise tlc.MachineryError('the unchecked protocol is expected to violate MutualExclusion in the model: %r' % r)
    status, detail, w = replay_behaviour(r.trace, cfg, ctx.rng, lenient=True)
    ctx.count(('attack', tuple(a for a, _ in r.trace)))
    ctx.sample({'kind': 'model counterexample of the unchecked protocol forced on the real FileLock',
                'actions': [a for a, _ in r.trace][1:], 'result': status, 'detail': detail})
    ctx.log('attack schedule on the real code: %s (%s)' % (status, detail))
    if status == 'two-holders':
        ctx.violation({'kind': 'two-holders', 'config': 'remove', 'cause': 'flock-succeeds-on-unlinked-inode'},
                      'two contenders inside the section: flock on a lock file that the previous holder unlinked',
                      {'config': cfg, 'behaviour': [a for a, _ in r.trace]})
    elif status == 'problem':
        ctx.violation({'kind': 'contender-problem', 'config': 'remove'}, detail, {'behaviour': [a for a, _ in r.trace]})

    # (A2) the janitor must look at a time stamp that every open() refreshes: the model with ExpireBy = "born" puts two
    # contenders inside; its counterexample is forced on the real code (janitor of the real code included)
    cfg = dict(CONFIGS['janitor-keep'], ExpireBy='born')
    d = ctx.sub('attack-janitor')
    cfgp = os.path.join(d, 'FileLock.cfg')
    write_cfg(cfgp, cfg, ['c1', 'c2'], invariants=['MutualExclusion'])
    r = tlc.run(SPEC, cfgp, d, workers=4, timeout=600, coverage=False)
    if r.violated != 'MutualExclusion':
        raise tlc.MachineryError('a janitor that looks at the creation time is expected to violate MutualExclusion in the model: %r' % r)
    status, detail, w = replay_behaviour(r.trace, cfg, ctx.rng, lenient=True)
    ctx.count(('attack-janitor', tuple(a for a, _ in r.trace)))
    ctx.sample({'kind': 'model counterexample of a janitor that expires lock files by their creation time, forced on the real code',
                'actions': [a for a, _ in r.trace][1:], 'result': status, 'detail': detail})
    ctx.log('janitor attack schedule on the real code: %s (%s)' % (status, detail))
    if status == 'two-holders':
        ctx.violation({'kind': 'two-holders', 'config': 'janitor-keep', 'cause': 'janitor-removes-a-held-lock-file'},
                      'two contenders inside the section: cleanup_lockdir removed the lock file of a lock that was taken a moment ago '
                      '(the file was created long ago; its age is not judged by a time stamp that open() refreshes)',
                      {'config': cfg, 'behaviour': [a for a, _ in r.trace]})
    elif status == 'problem':
        ctx.violation({'kind': 'contender-problem', 'config': 'janitor-keep'}, detail, {'behaviour': [a for a, _ in r.trace]})

    ctx.assumptions += [
        'contenders are threads with separate lock objects sharing one lock directory; flock conflicts between two open '
        'file descriptions of one process behave as between processes (Linux flock semantics)',
        'time is the virtual clock of the harness; sleep() is a yield point',
        'the janitor (cleanup_lockdir) is part of two configurations; its own stat-then-unlink is one step (a lock taken inside '
        'that window on a file older than max_lock_time would be removed: outside the model), and nobody holds a lock longer '
        'than max_lock_time',
    ]
    return ctx.finish('model_checking',
                      'TLC: all interleavings of 3 contenders x 2 cycles (semaphore: 3 contenders, 2 slots) at system-call '
                      'granularity; distinct = distinct action sequences replayed on the real classes plus distinct recorded '
                      'schedules of the real classes validated by TLC')


def replay(ctx, data):
    case = data.get('case') or {}
    cfg = case.get('config')
    if 'behaviour' in case:
        ctx.log('replaying stored behaviour')
        tlc.sany(SPEC)
        # rebuild states are not stored: run leniently and report what the real code does
        beh = [(a, {'pc': {'c1': 0, 'c2': 0, 'c3': 0}}) for a in case['behaviour']]
        status, detail, w = replay_behaviour(beh, cfg, ctx.rng, lenient=True)
        print('replay result: %s (%s)' % (status, detail))
        if status in ('two-holders', 'problem'):
            print('VIOLATION property=C07 replay=%s' % 'replays/(given)')
            return 1
        return 0
    if 'trace' in case:
        r, rejected = validate_traces(ctx, 'replay', cfg, ['c1', 'c2', 'c3', 'c4'], [case['trace']])
        print('trace validation: %s' % ('rejected %r' % (rejected,) if rejected else 'accepted'))
        return 1 if rejected else 0
    return 0
