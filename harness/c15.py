"""C15 - parallel fan-out returns every result exactly once and in input order.

spec/Pool.tla models mapproxy.util.async_.ThreadPool (imap/map/starmap/starcall -> _single_call | map_each:
sequential branch, task queue, workers, result queue, the consumer's _get_results loops with their separate
emptiness reads, the re-sequencing dictionary, join, shutdown, forced shutdown in raise mode) with one action per
Queue operation / item call in the caller's thread / thread start.

  (M) TLC checks the property exhaustively (all completion orders and all consumer/worker interleavings).
  (R) spec -> code: TLC behaviours (simulation, targeted counterexamples) are forced on the real ThreadPool with
      the baton scheduler: mapproxy.util.async_.Queue is replaced by an instrumented Queue whose put / get /
      empty / join / task_done are yield points, worker threads are adopted by the scheduler; after EVERY step
      both queues, unfinished_tasks, the values handed to the caller, the exception that reached the caller and
      the position of every worker are compared with the spec state.
  (T) code -> spec: seeded random schedules of the real ThreadPool with larger constants are recorded and
      validated by TLC against spec/trace/Trace_Pool.tla, all invariants evaluated on the recorded states.

Two decisions of the code are parameters of the model (as written / as the property needs).  The harness finds
out which variant the code follows by forcing the model's counterexample for the as-written variant on the real
code; if the real code reproduces it, that is a violation of the property established on the real code.
"""
import json
import os
import queue as _queue
import re
import threading
import traceback

from engine import tlc
from engine.sched import Baton, Deadlock, _T

SPEC = os.path.join(tlc.SPEC_DIR, 'Pool.tla')
TRACE_SPEC = os.path.join(tlc.SPEC_DIR, 'trace', 'Trace_Pool.tla')

ENTRIES = ('imap', 'star1', 'star2')
APIS = {'imap': ('imap', 'map', 'imap2'), 'star1': ('starmap', 'starcall'), 'star2': ('starmap', 'starcall')}

SIG_SEQ = {'kind': 'exception-yielded-as-value', 'path': 'sequential branch (pool size < 2)', 'mode': 'raise'}
SIG_STAR = {'kind': 'items-dropped', 'entry': 'starmap/starcall',
            'cause': 'single-call shortcut chosen by the arity of the first argument tuple'}
SIG_REUSE = {'kind': 'result-of-an-earlier-call', 'path': 'pool', 'cause': 'queues of the pool object shared by all calls'}
GOOD = {'SeqRaises': True, 'StarByCount': True, 'FreshQueues': True}


# --------------------------------------------------------------------------------------------
# the real ThreadPool under the baton scheduler
# --------------------------------------------------------------------------------------------
class HarnessBlocked(Exception):
    """A blocking Queue call was executed although it cannot proceed (the scheduler never does that)."""


class ItemError(Exception):
    def __init__(self, i, key=None):
        Exception.__init__(self, 'item %d failed' % i)
        self.i = i
        self.key = i if key is None else key


class Arg(object):
    """argument of an item: i = pool-wide identity of the item, key = its index in its call"""

    def __init__(self, i, key=None):
        self.i = i
        self.key = i if key is None else key


class Val(object):
    def __init__(self, i, serial, key=None):
        self.i = i
        self.serial = serial
        self.key = i if key is None else key


_WORLD = [None]


class IQueue(_queue.Queue):
    """queue.Queue whose operations are yield points of the baton scheduler."""

    def __init__(self, maxsize=0):
        _queue.Queue.__init__(self, maxsize)
        self._w = _WORLD[0]
        self._role = self._w.new_queue(self)

    def put(self, item, block=True, timeout=None):
        self._w.sched.point('put', q=self._role, qo=self)
        return _queue.Queue.put(self, item, block, timeout)

    def get(self, block=True, timeout=None):
        w = self._w
        blocking = block and timeout is None
        w.sched.point('get' if blocking else 'get_nowait', q=self._role, qo=self)
        t = w.sched.me()
        if blocking and t is not None and self.qsize() == 0:
            raise HarnessBlocked('get on empty %s queue' % self._role)
        item = _queue.Queue.get(self, block, timeout)
        if t is not None and self._role == 'task' and t.name != 'consumer':
            t.got = 'none' if item is None else (w.task_id(item) if w.body is None else item[0])
        return item

    def empty(self):
        self._w.sched.point('empty', q=self._role, qo=self)
        return _queue.Queue.empty(self)

    def join(self):
        self._w.sched.point('join', q=self._role, qo=self)
        if self._w.sched.me() is not None and self.unfinished_tasks:
            raise HarnessBlocked('join with unfinished tasks')
        return _queue.Queue.join(self)

    def task_done(self):
        self._w.sched.point('task_done', q=self._role, qo=self)
        return _queue.Queue.task_done(self)


class _QueueModule(object):
    """what mapproxy.util.async_ sees as the `Queue` module"""
    Queue = IQueue
    Empty = _queue.Empty
    Full = _queue.Full


class PoolWorld(object):
    """Calls of the real ThreadPool: n items, failing set, mode, pool size, entry point; `more`: further calls on the
    same pool object ([{n, fail, raise_mode, entry, api}], fail = indices within that call).  Items have a pool-wide
    identity (base of the call + index); self.fail / self.none hold identities."""

    def __init__(self, n, fail, raise_mode, size, entry, api=None, body=None, more=None):
        import mapproxy.util.async_ as amod
        self.body = body          # end-to-end mode: the caller runs body(world) instead of a direct pool call
        self.amod = amod
        self.n, self.fail, self.raise_mode, self.size, self.entry = n, frozenset(fail), bool(raise_mode), size, entry
        self.api = api or APIS[entry][0]
        self.first = {'n': n, 'fail': sorted(self.fail), 'raise': self.raise_mode, 'size': size, 'entry': entry, 'api': self.api}
        self.plan = [None] + [dict(c) for c in (more or [])]
        self.callno = 0
        self.base = 0
        self.call_n = {0: n}      # base of a call -> number of its items
        self.qbase = {}           # id(queue) -> base of the call that was current when the queue was made
        self.judged = []
        self.wobj = {}
        # items whose REGULAR result is None (a blank tile in TileCreator._create_bulk_meta_tile is such a result):
        # every second world has some, so that "no result buffered" and "the buffered result is None" stay apart
        self.none = frozenset(i for i in range(n) if i % 3 == 1 and i not in self.fail) if (n + size + len(self.fail)) % 2 == 0 \
            else frozenset()
        self.sched = Baton(step_timeout=15.0)
        self.queues = []
        self.workers = []
        self.out = []
        self.raised = -1
        self.calls = []
        self.serial = 0
        self.problems = []
        self.events = []
        self.schedule = []
        self.stuck = False
        self._lock = threading.Lock()
        self._saved = (amod.Queue, amod.ThreadWorker)
        world = self
        base = amod.ThreadWorker

        class BatonWorker(base):
            def start(self):
                world.register(self)
                base.start(self)

            def run(self):
                t = self._bt
                world.sched._byid[threading.get_ident()] = t
                t.go.acquire()
                try:
                    base.run(self)
                except BaseException as ex:  # noqa
                    t.exc = ex
                    t.tb = traceback.format_exc()
                t.finished = True
                t.pending = None
                world.sched.active = None
                world.sched.back.release()

        amod.Queue = _QueueModule
        amod.ThreadWorker = BatonWorker
        _WORLD[0] = self
        self.pool = None
        try:
            if body is None:
                self.pool = amod.ThreadPool(size)
        except Exception:
            self.close()
            raise
        self.sched.spawn('consumer', self._consumer if body is None else (lambda: body(self)))

    # ---- plumbing ------------------------------------------------------------------------
    def new_queue(self, q):
        if self.body is not None and len(self.queues) >= 2:
            self.queues = []          # end-to-end mode: a new pool per call of the code under test
        self.queues.append(q)
        self.qbase[id(q)] = self.base
        # a pool creates its queues in pairs, task queue first (in __init__; a tree that gives every call its own
        # queues creates another pair per call): the latest complete pair is the one of the current call
        return 'task' if len(self.queues) % 2 == 1 else 'result'

    @property
    def tq(self):
        k = len(self.queues) // 2 * 2
        return self.queues[k - 2] if k >= 2 else (self.queues[0] if self.queues else None)

    @property
    def rq(self):
        k = len(self.queues) // 2 * 2
        return self.queues[k - 1] if k >= 2 else None

    def detached(self, name):
        """a worker of an earlier call that works on queues the current call does not use"""
        wo = self.wobj.get(name)
        return wo is not None and self.body is None and getattr(wo, 'task_queue', None) is not self.tq

    def register(self, worker):
        name = 'w%d' % (len(self.workers) + 1)
        t = _T(name, None)
        t.got = None
        worker._bt = t
        self.sched.ts[name] = t
        self.workers.append(name)
        self.wobj[name] = worker

    def close(self):
        try:
            self.drain()
        except Exception:
            pass
        self.amod.Queue, self.amod.ThreadWorker = self._saved
        if _WORLD[0] is self:
            _WORLD[0] = None

    # ---- the item functions and the caller -------------------------------------------------
    def _item(self, a, *rest):
        me = self.sched.current()
        if me == 'consumer':
            self.sched.point('call', q='-')
        with self._lock:
            self.calls.append((a.i, me))
            self.serial += 1
            serial = self.serial
        if a.i in self.fail:
            raise ItemError(a.i, a.key)
        if a.i in self.none:
            return None
        return Val(a.i, serial, a.key)

    def _consumer(self):
        self._one_call()
        for k in range(1, len(self.plan)):
            self.sched.point('newcall', q='-')
            self._switch(self.plan[k])
            self.sched.point('start')
            self._one_call()
        return 'done'

    def _switch(self, c):
        """the call has ended; the next call on the same pool object begins"""
        self.judged.append(self.judge(switching=True))
        self.base += self.n
        self.callno += 1
        self.n, self.raise_mode, self.entry = c['n'], bool(c['raise_mode']), c['entry']
        self.call_n[self.base] = self.n
        self.api = c.get('api') or APIS[c['entry']][0]
        self.fail = frozenset(self.fail | set(self.base + i for i in c['fail']))
        self.out = []
        self.raised = -1
        self.calls = []

    def _one_call(self):
        pool, f, n = self.pool, self._item, self.n
        kw = {} if self.raise_mode else {'use_result_objects': True}
        items = [Arg(self.base + i, i) for i in range(n)]
        try:
            if self.api == 'map':
                res = pool.map(f, items, **kw)
            elif self.api == 'imap':
                res = pool.imap(f, items, **kw)
            elif self.api == 'imap2':
                res = pool.imap(f, items, list(range(n)), **kw)
            elif self.api == 'starmap':
                args = [(a,) for a in items] if self.entry == 'star1' else [(a, 'x') for a in items]
                res = pool.starmap(f, args, **kw)
            elif self.api == 'starcall':
                if self.entry == 'star1':
                    args = [((lambda a=a: f(a)),) for a in items]
                else:
                    args = [(f, a) for a in items]
                res = pool.starcall(args, **kw)
            else:
                raise ValueError(self.api)
            for v in res:
                self.out.append(self.project(v))
        except ItemError as ex:
            self.raised = ex.i

    def project(self, v):
        """what the caller received -> [kind, item]; a None result is attributed to the position it arrives at
        (legitimate only if that item returns None)"""
        pos = self.base + len(self.out)
        if not self.raise_mode:
            if not isinstance(v, self.amod.AsyncResult):
                return ['bad', -1]
            if v.exception is None:
                if v.result is None:
                    return ['val', pos] if pos in self.none else ['bad', -1]
                return ['val', v.result.i] if isinstance(v.result, Val) else ['bad', -1]
            ex = v.exception
            if v.result is None and isinstance(ex, tuple) and len(ex) == 3 and isinstance(ex[1], ItemError) \
                    and ex[0] is ItemError:
                return ['exc', ex[1].i]
            return ['bad', -1]
        if isinstance(v, Val):
            return ['val', v.i]
        if v is None:
            return ['val', pos] if pos in self.none else ['bad', -1]
        if isinstance(v, tuple) and len(v) == 3 and isinstance(v[1], ItemError):
            return ['exc', v[1].i]
        return ['bad', -1]

    def task_id(self, t):
        try:
            i, func, args = t
            a = args[0]
            if isinstance(a, Arg):
                return a.i if a.key == i else -2
            if callable(a) and len(args) >= 2 and isinstance(args[1], Arg):     # starcall: (f, Arg)
                return args[1].i if args[1].key == i else -2
            if callable(a) and len(args) == 1:                                   # starcall with thunks
                return a.__defaults__[0].i if a.__defaults__[0].key == i else -2
            return -2
        except Exception:
            return -2

    def result_id(self, r):
        try:
            i, res = r
            if isinstance(res, Val):
                return res.i if (res.key == i and res.i not in self.fail) else -2
            if res is None:
                # a None carries no identity: it belongs to a call that this queue has served (the one that was current
                # when the queue was made, or a later one) and that has an item at this index whose regular result is None
                # - a worker of the previous call may put its result after the next call has begun
                since = self.qbase.get(id(self.rq), 0)
                for b in sorted(self.call_n):
                    if b >= since and i < self.call_n[b] and (b + i) in self.none:
                        return b + i
                return -2
            if isinstance(res, tuple) and len(res) == 3 and isinstance(res[1], ItemError):
                return res[1].i if (res[1].key == i and res[1].i in self.fail) else -2
            return -2
        except Exception:
            return -2

    # ---- observation ---------------------------------------------------------------------
    def snapshot(self):
        tq = [(-1 if t is None else self.task_id(t)) for t in list(self.tq.queue)]
        rq = [self.result_id(r) for r in list(self.rq.queue)]
        wn = {'start': 0, 'idle': 0, 'gotNone': 0, 'exited': 0}
        nn = self.base + self.n
        hold = ['-'] * nn
        for name in self.workers:
            if self.detached(name):
                continue
            t = self.sched.ts[name]
            p = None if t.finished else t.pending
            if p is None:
                wn['exited'] += 1
                if t.exc is not None and ('worker %s raised %r' % (name, t.exc)) not in self.problems:
                    self.problems.append('worker %s raised %r' % (name, t.exc))
            elif p[0] == 'start':
                wn['start'] += 1
            elif p[0] == 'get' and p[1].get('q') == 'task':
                wn['idle'] += 1
            elif p[0] == 'put' and p[1].get('q') == 'result' and isinstance(t.got, int) and 0 <= t.got < nn:
                hold[t.got] = 'put'
            elif p[0] == 'task_done' and p[1].get('q') == 'task' and t.got == 'none':
                wn['gotNone'] += 1
            elif p[0] == 'task_done' and p[1].get('q') == 'task' and isinstance(t.got, int) and 0 <= t.got < nn:
                hold[t.got] = 'taskDone'
            else:
                msg = 'worker %s at an unexpected point %r (holding %r)' % (name, p, t.got)
                if msg not in self.problems:
                    self.problems.append(msg)
        c = self.sched.ts['consumer']
        done = bool(c.finished) or (c.pending is not None and c.pending[0] == 'newcall')
        if c.finished and c.exc is not None:
            msg = 'the call raised %r' % (c.exc,)
            if msg not in self.problems:
                self.problems.append(msg)
        return {'tq': tq, 'rq': rq, 'unf': self.tq.unfinished_tasks, 'out': [list(x) for x in self.out],
                'hasout': bool(self.api != 'map' or (done and self.raised == -1)),
                'raised': self.raised, 'done': done, 'wn': wn, 'hold': hold}

    # ---- controller ----------------------------------------------------------------------
    def names(self):
        return ['consumer'] + list(self.workers)

    def pending(self, name):
        return self.sched.pending(name)

    def enabled(self, name):
        t = self.sched.ts[name]
        if t.finished:
            return False
        op, info = t.pending
        q = info.get('q')
        if op == 'get':
            qq = info.get('qo') or (self.tq if q == 'task' else self.rq)
            return qq.qsize() > 0
        if op == 'join':
            qq = info.get('qo') or (self.tq if q == 'task' else self.rq)
            return qq.unfinished_tasks == 0
        return True

    def enabled_names(self):
        return [x for x in self.names() if self.enabled(x)]

    def step(self, name):
        t = self.sched.ts[name]
        op, info = t.pending
        item = -1
        if name != 'consumer' and isinstance(getattr(t, 'got', None), int) and op in ('put', 'task_done'):
            item = t.got
        if name != 'consumer' and self.detached(name):
            # works on the queues of an earlier call: no step of the model (the model dropped it when the current
            # call got its own queues); whatever it still does must not show in the state of the current call
            self.sched.step(name)
            if op == 'task_done' and not t.finished:
                t.got = None
            self.schedule.append(name)
            return None
        nxt = self.plan[self.callno + 1] if op == 'newcall' else None
        self.sched.step(name)
        ev = {'c': name, 'op': op, 'q': info.get('q', '-'), 'item': item}
        if nxt is not None:
            ev['call'] = {'n': nxt['n'], 'fail': sorted(nxt['fail']), 'raise': bool(nxt['raise_mode']), 'entry': nxt['entry']}
        if self.body is None:
            ev.update(self.snapshot())
        if name != 'consumer' and op == 'task_done' and not t.finished:
            t.got = None
        self.events.append(ev)
        self.schedule.append(name)
        return ev

    def all_finished(self):
        return not self.sched.runnable()

    def drain(self, limit=5000):
        """run everything to the end (round robin over whoever can move)"""
        k = 0
        while not self.all_finished() and k < limit:
            en = self.enabled_names()
            if not en:
                self.stuck = True
                return False
            for name in en:
                if self.enabled(name):
                    self.step(name)
                    k += 1
        return self.all_finished()

    def header(self):
        h = dict(self.first)
        if len(self.plan) > 1:
            h['more'] = [dict(c) for c in self.plan[1:]]
        return h

    def record(self):
        h = dict(self.first)
        h['ev'] = self.events
        return h

    # ---- the property, stated on observed values only ------------------------------------------
    def judge(self, switching=False):
        """None if what the caller observed satisfies the property statement, else (class, text)."""
        for j in self.judged:
            if j is not None:
                return j
        c = self.sched.ts['consumer']
        exp_kind = lambda i: 'exc' if i in self.fail else 'val'  # noqa
        if not c.finished and not switching:
            return ('not-terminated', 'the call did not terminate: caller waits at %r, nobody can move' % (c.pending,))
        if c.exc is not None:
            return ('unexpected-exception', 'the call raised %r' % (c.exc,))
        cur = set(range(self.base, self.base + self.n))
        tag = '' if not self.callno else 'call %d on the same pool object (items %d..%d): ' % (
            self.callno + 1, self.base, self.base + self.n - 1)
        j = self._judge_call(cur, exp_kind)
        return None if j is None else (j[0], tag + j[1])

    def _judge_call(self, cur, exp_kind):
        for q, (k, i) in enumerate(self.out):
            p = self.base + q
            if self.raise_mode and k == 'exc' and i == p and i in self.fail:
                return ('exception-as-value', 'raise mode: position %d of the results is the exc_info of item %d '
                                              'instead of the exception being raised; out=%r' % (p, i, self.out))
            if i != p or k != exp_kind(p):
                return ('wrong-order-or-value', 'position %d of the results is %r (expected %r); out=%r' % (
                    p, [k, i], [exp_kind(p), p], self.out))
        if self.raise_mode and (self.fail & cur):
            if self.raised not in (self.fail & cur):
                return ('exception-swallowed', 'raise mode, failing items %s: no exception of a failing item reached the '
                                               'caller (raised=%s, out=%r)' % (sorted(self.fail & cur), self.raised, self.out))
        else:
            if self.raised != -1:
                return ('spurious-exception', 'exception of item %s raised although not expected' % self.raised)
            if len(self.out) != self.n:
                return ('missing-results', '%d results for %d inputs: out=%r' % (len(self.out), self.n, self.out))
            called = sorted(i for i, _ in self.calls if i in cur)
            if called != sorted(cur):
                return ('call-count', 'items were not called exactly once each: %r' % (called,))
        called = [i for i, _ in self.calls if i in cur]
        if len(set(called)) != len(called):
            return ('call-count', 'an item was called more than once: %r' % (sorted(called),))
        return None


def model_path(entry, n, size, variants):
    """the branch the model takes for this call: 'single' | 'seq' | 'pool'"""
    if entry == 'imap':
        single = n == 1
    elif variants['StarByCount']:
        single = n == 1
    else:
        single = entry == 'star1'
    return 'single' if single else ('seq' if size < 2 else 'pool')


KNOWN_JUDGEMENTS = {'seq': ('exception-as-value',), 'star': ('missing-results', 'exception-swallowed')}


def _v(variants):
    v = dict(GOOD)
    v.update(variants or {})
    return v


def known_class(w, variants, judgement=None):
    """is the failure observed on world w the known effect of an as-written decision (reported once by the probes)?"""
    variants = _v(variants)
    path = model_path(w.entry, w.n, w.size, variants)
    if not variants['FreshQueues'] and w.callno >= 1:
        return SIG_REUSE
    if not variants['SeqRaises'] and w.raise_mode and path == 'seq':
        if judgement is None or judgement in KNOWN_JUDGEMENTS['seq']:
            return SIG_SEQ
    if not variants['StarByCount'] and w.entry != 'imap' and w.n > 1 and path == 'single':
        if judgement is None or judgement in KNOWN_JUDGEMENTS['star']:
            return SIG_STAR
    return None


# --------------------------------------------------------------------------------------------
# spec -> code
# --------------------------------------------------------------------------------------------
_ACT = re.compile(r'^(\w+)(?:\((.*)\))?$')
C_EXPECT = {'Dispatch': ('start', None), 'SingleCall': ('call', '-'), 'SeqCall': ('call', '-'), 'CPut': ('put', 'task'),
            'CPutNone': ('put', 'task'), 'CEmptyT': ('empty', 'task'), 'CEmptyR': ('empty', 'result'),
            'CGet': ('get', 'result'), 'CJoin': ('join', 'task'), 'FEmptyT': ('empty', 'task'),
            'FGetTOk': ('get_nowait', 'task'), 'FGetTEmpty': ('get_nowait', 'task'), 'FDoneT': ('task_done', 'task'),
            'FEmptyR': ('empty', 'result'), 'FGetR': ('get_nowait', 'result'), 'FDoneR': ('task_done', 'result'),
            'NewCall': ('newcall', '-')}
W_EXPECT = {'WStart': ('start', None), 'WGetTask': ('get', 'task'), 'WGetNone': ('get', 'task'), 'WPut': ('put', 'result'),
            'WTaskDone': ('task_done', 'task'), 'WExit': ('task_done', 'task')}


def parse_action(a):
    m = _ACT.match(a.strip())
    name = m.group(1)
    if name == 'NewCallWith':
        return 'NewCall', []
    args = [int(x) for x in m.group(2).split(',')] if m.group(2) else []
    return name, args


def spec_obs(st):
    n = st['base'] + st['n']
    hold = st['hold']
    if isinstance(hold, dict):
        hold = [hold[i] for i in range(n)]
    else:
        hold = list(hold)[:n]
    return {'tq': list(st['taskQ']), 'rq': list(st['resultQ']), 'unf': st['unfinished'],
            'out': [list(x) for x in st['out']], 'raised': st['raised'], 'done': st['cpc'] == 'done',
            'wn': {k: st['wn'][k] for k in ('start', 'idle', 'gotNone', 'exited')}, 'hold': hold}


def call_of(st):
    b = st.get('base', 0)
    return dict(n=st['n'], fail=sorted(i - b for i in st['fail'] if i >= b), raise_mode=st['raiseMode'], size=st['size'],
                entry=str(st['entry']))


def calls_of(beh):
    """the first call of a behaviour and the calls that follow on the same pool object (states after NewCall)"""
    c = call_of(beh[0][1])
    more = []
    for act, st in beh[1:]:
        if parse_action(act)[0] == 'NewCall':
            m = call_of(st)
            m.pop('size')
            more.append(m)
    return c, more


def pick_worker(w, name, args, rng):
    want = W_EXPECT[name]
    cands = []
    for x in w.workers:
        t = w.sched.ts[x]
        if t.finished or w.detached(x):
            continue
        op, info = t.pending
        if op != want[0] or (want[1] is not None and info.get('q') != want[1]):
            continue
        if name in ('WPut', 'WTaskDone') and t.got != args[0]:
            continue
        if name == 'WExit' and t.got != 'none':
            continue
        if name in ('WGetTask', 'WGetNone') and t.got is not None:
            continue
        cands.append(x)
    if not cands:
        return None
    return rng.choice(cands) if rng is not None else cands[0]


def replay_behaviour(beh, rng, api=None, keep_open=False):
    """Force behaviour `beh` ([(action, state)], first element = initial state) on the real ThreadPool.

    Returns (status, detail, world): 'ok' | 'diverged' | 'problem'."""
    c, more = calls_of(beh)
    if rng is not None:
        for m in more:
            m['api'] = rng.choice(APIS[m['entry']])
    w = PoolWorld(c['n'], c['fail'], c['raise_mode'], c['size'], c['entry'], api=api, more=more)
    k = 0
    try:
        for act, st in beh[1:]:
            k += 1
            name, args = parse_action(act)
            if rng is not None:
                # workers of an earlier call that work on queues of their own: they move whenever they like
                loose = [x for x in w.workers if w.detached(x) and not w.sched.ts[x].finished and w.enabled(x)]
                while loose and rng.random() < 0.4:
                    w.step(rng.choice(loose))
                    loose = [x for x in w.workers if w.detached(x) and not w.sched.ts[x].finished and w.enabled(x)]
            if name in C_EXPECT:
                who, want = 'consumer', C_EXPECT[name]
                p = w.pending(who)
                if p is None or p[0] != want[0] or (want[1] is not None and p[1].get('q') != want[1]):
                    return 'diverged', 'step %d %s: the spec does %s, the caller is about to do %s' % (
                        k, act, want, (p[0], p[1].get('q')) if p else 'nothing (finished)'), w
            else:
                who = pick_worker(w, name, args, rng)
                if who is None:
                    return 'diverged', 'step %d %s: no worker of the real pool is at that point (workers: %s)' % (
                        k, act, [(x, w.pending(x), w.sched.ts[x].got) for x in w.workers]), w
            if not w.enabled(who):
                return 'diverged', 'step %d %s: enabled in the spec, would block in the real code' % (k, act), w
            ev = w.step(who)
            if w.problems:
                return 'problem', 'step %d %s: %s' % (k, act, '; '.join(w.problems)), w
            so = spec_obs(st)
            for key in ('tq', 'rq', 'unf', 'raised', 'done', 'wn', 'hold', 'out'):
                if key == 'out' and not ev['hasout']:
                    continue
                if so[key] != ev[key]:
                    return 'diverged', 'step %d %s: %s is %r in the spec and %r in the real pool' % (
                        k, act, key, so[key], ev[key]), w
        return 'ok', '%d steps' % k, w
    except Deadlock as ex:
        return 'problem', 'scheduler: %s' % ex, w
    finally:
        if not keep_open:
            w.close()


# --------------------------------------------------------------------------------------------
# code -> spec
# --------------------------------------------------------------------------------------------
POLICIES = ('uniform', 'consumer-eager', 'workers-eager', 'reverse', 'one-slow', 'burst')


def random_run(call, rng, policy, api=None, prefix=None, max_steps=3000, body=None):
    """One call of the real ThreadPool under a random schedule. Returns the world (closed)."""
    w = PoolWorld(call['n'], call['fail'], call['raise_mode'], call['size'], call['entry'], api=api, body=body,
                  more=call.get('more'))
    try:
        slow = None
        burst = None
        steps = 0
        for name in (prefix or []):
            if w.sched.ts.get(name) is None or not w.enabled(name):
                break
            w.step(name)
        while not w.all_finished() and steps < max_steps:
            en = w.enabled_names()
            if not en:
                w.stuck = True
                break
            steps += 1
            if policy == 'uniform':
                name = rng.choice(en)
            elif policy == 'consumer-eager':
                name = 'consumer' if ('consumer' in en and rng.random() < 0.7) else rng.choice(en)
            elif policy == 'workers-eager':
                ws = [x for x in en if x != 'consumer']
                name = rng.choice(ws) if (ws and rng.random() < 0.85) else rng.choice(en)
            elif policy == 'reverse':
                # let the worker that holds the highest item finish first; the caller mostly waits
                ws = [x for x in en if x != 'consumer']
                holding = [x for x in ws if isinstance(w.sched.ts[x].got, int) and w.pending(x)[0] == 'put']
                getters = [x for x in ws if w.pending(x)[0] in ('get', 'start')]
                if getters and rng.random() < 0.8:
                    name = rng.choice(getters)
                elif holding and rng.random() < 0.8:
                    name = max(holding, key=lambda x: w.sched.ts[x].got)
                else:
                    name = rng.choice(en)
            elif policy == 'one-slow':
                if slow is None and w.workers:
                    slow = rng.choice(w.workers)
                fast = [x for x in en if x != slow]
                name = rng.choice(fast) if (fast and rng.random() < 0.93) else rng.choice(en)
            else:  # burst: stay with one thread for a while
                if burst not in en or rng.random() < 0.25:
                    burst = rng.choice(en)
                name = burst
            w.step(name)
            if w.problems:
                break
        return w
    except Deadlock as ex:
        w.problems.append('scheduler: %s' % ex)
        return w
    finally:
        w.close()


# --------------------------------------------------------------------------------------------
# sanity layer: the order-sensitive users of the pool under adversarial completion orders
# --------------------------------------------------------------------------------------------
class _FakeImg(object):
    def __init__(self, i):
        self.i = i
        self.opacity = None


class _FakeLayer(object):
    """stands for a source (TileCreator) / a WMS layer (LayerRenderer)"""
    coverage = None
    opacity = None

    def __init__(self, i):
        self.i = i

    def get_map(self, query):
        return _FakeImg(self.i)

    def combined_layer(self, other, query):
        return None


class _Obj(object):
    def __init__(self, **kw):
        self.__dict__.update(kw)


def end_to_end_order(ctx, rng, thorough):
    import mapproxy.cache.tile as tmod
    import mapproxy.service.wms as wmod
    query = _Obj(size=(4, 4), bbox=(0, 0, 1, 1), srs=None)
    runs = 0
    for k in ((2, 3, 5, 7) if thorough else (2, 3, 5)):
        for policy in ('reverse', 'uniform', 'one-slow', 'workers-eager', 'consumer-eager'):
            # TileCreator._query_sources: sources are merged bottom-up in configuration order
            got = []
            saved = tmod.merge_images
            tmod.merge_images = lambda layers, **kw: got.append([l[0].i for l in layers]) or 'merged'
            try:
                tc = tmod.TileCreator.__new__(tmod.TileCreator)
                tc.sources = [_FakeLayer(i) for i in range(k)]
                tc.image_merger = None
                tc.tile_mgr = _Obj(image_opts=None)
                w = random_run(dict(n=k, fail=[], raise_mode=True, size=k, entry='imap'), rng, policy,
                               body=lambda world: tc._query_sources(query))
            finally:
                tmod.merge_images = saved
            runs += 1
            ctx.count(('e2e', 'tile', k, tuple(w.schedule)))
            if w.problems or w.stuck or got != [list(range(k))]:
                ctx.violation({'kind': 'end-to-end-layer-order', 'user': 'TileCreator._query_sources'},
                              'sources %s were handed to merge_images as %r under schedule policy %s (%s)' % (
                                  list(range(k)), got, policy, '; '.join(w.problems) or ('stuck' if w.stuck else 'completed')),
                              {'k': k, 'policy': policy, 'schedule': list(w.schedule)})
            # LayerRenderer.render: layers are added to the merger in request order
            for cr in (2, k):
                for rs in (True, False):
                    order = []
                    merger = _Obj(add=lambda img, coverage=None: order.append(img.i), cacheable=True)
                    lr = wmod.LayerRenderer([_FakeLayer(i) for i in range(k)], query, None, raise_source_errors=rs,
                                            concurrent_rendering=cr)
                    w = random_run(dict(n=k, fail=[], raise_mode=False, size=cr, entry='imap'), rng, policy,
                                   body=lambda world: lr.render(merger))
                    runs += 1
                    ctx.count(('e2e', 'wms', k, cr, rs, tuple(w.schedule)))
                    if w.problems or w.stuck or order != list(range(k)):
                        ctx.violation({'kind': 'end-to-end-layer-order', 'user': 'LayerRenderer.render'},
                                      'layers %s reached the merger as %r (concurrent_rendering=%d, policy %s; %s)' % (
                                          list(range(k)), order, cr, policy,
                                          '; '.join(w.problems) or ('stuck' if w.stuck else 'completed')),
                                      {'k': k, 'policy': policy, 'schedule': list(w.schedule)})
    return runs



def mc_consts(variants, minn, maxn, sizes, entries=ENTRIES, modes=(True, False), maxcalls=1):
    variants = _v(variants)
    return {'MinN': minn, 'MaxN': maxn, 'Sizes': frozenset(sizes), 'Entries': frozenset(entries),
            'Modes': frozenset(modes), 'SeqRaises': variants['SeqRaises'], 'StarByCount': variants['StarByCount'],
            'MaxCalls': maxcalls, 'FreshQueues': variants['FreshQueues']}


TRACE_INVS = ['OrderedPrefixX', 'DoneCompleteX', 'RaisedSound', 'StuckFree', 'CounterOK']


def validate_traces(ctx, name, variants, records):
    """Validate a batch of recorded calls with TLC. Returns (result, [(index, why, matched)])."""
    d = ctx.sub('trace-' + name)
    tf = os.path.join(d, 'batch.json')
    with open(tf, 'w') as f:
        json.dump(records, f)
    maxn = max([r['n'] for r in records] + [e['call']['n'] for r in records for e in r['ev'] if 'call' in e] + [1])
    maxcalls = max([1] + [1 + sum(1 for e in r['ev'] if 'call' in e) for r in records])
    sizes = sorted(set(r['size'] for r in records))
    mp, cp = tlc.write_mc(d, 'Trace_Pool', 'MC_Trace_Pool', consts=mc_consts(variants, 0, maxn, sizes, maxcalls=maxcalls),
                          spec='TraceSpec', invariants=TRACE_INVS, post='TraceAccepted')
    r = tlc.run(mp, cp, d, workers=1, coverage=False, env={'TRACE_FILE': tf}, timeout=1800)
    if r.error and r.violated is None:
        raise tlc.MachineryError('trace validation (%s) failed: %s\n%s' % (name, r.error, r.out[-2000:]))
    matched = None
    pr = tlc.find_prints(r.out, 'matched')
    if pr:
        mv = pr[-1][1]
        matched = list(mv) if isinstance(mv, tuple) else [mv[k] for k in sorted(mv)]
    rejected = []
    if r.violated in TRACE_INVS or r.violated == 'TypeOK':
        st = r.trace[-1][1] if r.trace else {}
        rejected.append((st.get('tid', 1) - 1, 'invariant %s violated in a recorded execution' % r.violated,
                         st.get('l', 1) - 1))
    elif matched is not None:
        for i, rec in enumerate(records):
            if matched[i] < len(rec['ev']):
                rejected.append((i, 'not a behaviour of the specification', matched[i]))
    elif not r.ok:
        raise tlc.MachineryError('trace validation (%s): cannot interpret TLC output\n%s' % (name, r.out[-2000:]))
    return r, rejected


# --------------------------------------------------------------------------------------------
# model checking instances
# --------------------------------------------------------------------------------------------
INVS = ['TypeOK', 'OrderedPrefix', 'DoneComplete', 'RaisedSound', 'StuckFree', 'NoLeak', 'CounterOK']
POOL_ACTIONS = ['Dispatch', 'CPut', 'CEmptyT', 'CEmptyR', 'CGet', 'CJoin', 'CPutNone', 'FEmptyT', 'FGetTOk', 'FGetTEmpty',
                'FDoneT', 'FEmptyR', 'FGetR', 'FDoneR', 'WStart', 'WGetTask', 'WGetNone', 'WPut', 'WTaskDone', 'WExit']

TARGETS = [   # (name, constants, state predicate): adversarial situations reached by a shortest TLC counterexample
    ('reverse-completion', dict(minn=4, maxn=4, sizes=[4], entries=['imap'], modes=[False]),
     'resultQ = <<3, 2, 1, 0>>'),
    ('all-buffered-before-first', dict(minn=4, maxn=4, sizes=[3], entries=['imap'], modes=[False]),
     'Cardinality(buf) = 3 /\\ nextR = 0'),
    ('first-loop-ends-with-work-in-flight', dict(minn=3, maxn=3, sizes=[3], entries=['imap'], modes=[False]),
     'cpc = "join" /\\ unfinished = 3 /\\ resultQ = <<>>'),
    ('result-arrives-between-emptiness-reads', dict(minn=3, maxn=3, sizes=[2], entries=['imap'], modes=[False]),
     'cpc = "emptyR" /\\ resultQ # <<>> /\\ phase = 1 /\\ Len(out) = 0'),
    ('exception-found-after-join', dict(minn=3, maxn=3, sizes=[2], entries=['imap'], modes=[True]),
     'cpc = "fEmptyT" /\\ phase = 2 /\\ culprit = 2'),
    ('exception-overtakes-earlier-value', dict(minn=3, maxn=3, sizes=[3], entries=['imap'], modes=[True]),
     'cpc = "fEmptyT" /\\ culprit = 2 /\\ Len(out) = 0 /\\ fail = {2}'),
    ('forced-shutdown-get-finds-queue-emptied', dict(minn=4, maxn=4, sizes=[2], entries=['imap'], modes=[True]),
     'cpc = "fGetT" /\\ taskQ = <<>>'),
    ('forced-shutdown-drains-results', dict(minn=4, maxn=4, sizes=[3], entries=['star2'], modes=[True]),
     'cpc = "fDoneR" /\\ Len(resultQ) = 1'),
    ('starmap-single-item-through-the-pool', dict(minn=1, maxn=1, sizes=[2], entries=['star2'], modes=[False]),
     'cpc = "join" /\\ unfinished = 0 /\\ phase = 1 /\\ entry = "pool" /\\ ~StarByCount'),
    # a call ended by an exception while results that arrived ahead of their turn are buffered; the pool object is
    # used again (the continuation runs a second call of three items on it)
    ('second-call-after-abort-with-buffered-results', dict(minn=3, maxn=3, sizes=[3], entries=['imap'], modes=[True],
                                                          more=[dict(n=3, fail=[], raise_mode=False, entry='imap')]),
     'cpc = "done" /\\ raised = 0 /\\ Cardinality(buf) = 2 /\\ calls = 1'),
    ('second-call-while-a-worker-of-the-first-still-runs', dict(minn=3, maxn=3, sizes=[3], entries=['imap'], modes=[True],
                                                               more=[dict(n=3, fail=[], raise_mode=True, entry='imap')]),
     'cpc = "done" /\\ raised = 0 /\\ hold[2] = "put" /\\ calls = 1'),
]


def model_check(ctx, name, variants, minn, maxn, sizes, reduced=False, workers=16, invariants=INVS, entries=ENTRIES,
                modes=(True, False), timeout=3000, maxcalls=1):
    d = ctx.sub('mc-' + name)
    mp, cp = tlc.write_mc(d, 'Pool', 'MC_Pool', consts=mc_consts(variants, minn, maxn, sizes, entries, modes, maxcalls),
                          invariants=invariants, constraint='StartFirst' if reduced else None)
    if reduced:
        with open(cp, 'a') as f:
            f.write('CONSTANT FailSets <- FewFailSets\n')
    return tlc.run(mp, cp, d, workers=workers, timeout=timeout)


def in_parallel(jobs):
    """jobs: {name: thunk}. Runs them in threads, returns {name: result}, re-raises the first exception."""
    res, errs = {}, {}

    def runner(k, fn):
        try:
            res[k] = fn()
        except BaseException as ex:  # noqa
            errs[k] = ex
    ths = [threading.Thread(target=runner, args=(k, fn)) for k, fn in jobs.items()]
    for t in ths:
        t.start()
    for t in ths:
        t.join()
    if errs:
        raise list(errs.values())[0]
    return res


def report_world_violation(ctx, w, variants, kind, text, extra=None):
    """classify a failure seen on world w and report it"""
    j = w.judge()
    path = model_path(w.entry, w.n, w.size, {'SeqRaises': True, 'StarByCount': True})
    if j is not None:
        if known_class(w, variants, j[0]) is not None:
            return 'known-variant'       # reported once by the probe
        sig = {'kind': j[0], 'path': path, 'mode': 'raise' if w.raise_mode else 'result'}
        text = '%s; %s' % (j[1], text)
    else:
        sig = {'kind': kind, 'path': path, 'mode': 'raise' if w.raise_mode else 'result'}
    case = {'call': w.header(), 'schedule': list(w.schedule), 'variants': variants}
    if extra:
        case.update(extra)
    return ctx.violation(sig, text, case)


def probe_variants(ctx):
    """Does the real code follow the as-written decisions of the model?  The as-written model violates the property;
    its counterexample is forced on the real code."""
    variants = dict(GOOD)
    probes = [
        ('SeqRaises', dict(minn=2, maxn=2, sizes=[1], entries=['imap'], modes=[True]), SIG_SEQ,
         'ThreadPool(1) in raise mode hands the exc_info tuple of a failing item to the caller as if it were a result '
         'and never raises (sequential branch of map_each)'),
        ('StarByCount', dict(minn=2, maxn=2, sizes=[2], entries=['star1'], modes=[False]), SIG_STAR,
         'starmap/starcall with one-element argument tuples run only the first item and return one result for '
         'several inputs (len(args[0]) == 1 tests the arity of the first tuple, not the number of items)'),
        ('FreshQueues', dict(minn=2, maxn=2, sizes=[2], entries=['imap'], modes=[True, False], maxcalls=2), SIG_REUSE,
         'a ThreadPool object used for a second call after a call that was ended by an exception: a worker of the first call '
         'that was still running delivers its result into the queue of the pool object, and the second call hands it out '
         'as the result of its own item with the same index'),
    ]
    for flag, c, sig, text in probes:
        v = dict(GOOD)
        v[flag] = False
        r = model_check(ctx, 'aswritten-' + flag, v, c['minn'], c['maxn'], c['sizes'], workers=2 if flag != 'FreshQueues' else 6,
                        invariants=['OrderedPrefix', 'DoneComplete'], entries=c['entries'], modes=c['modes'], timeout=600,
                        maxcalls=c.get('maxcalls', 1))
        if r.violated not in ('OrderedPrefix', 'DoneComplete') or not r.trace:
            raise tlc.MachineryError('the as-written variant %s=FALSE is expected to violate the property in the model: %r\n%s'
                                     % (flag, r, r.out[-1500:]))
        status, detail, w = replay_behaviour(r.trace, None, keep_open=True)
        try:
            j = w.judge() if status == 'ok' else None
            if status == 'ok' and not w.all_finished():
                w.drain()
                j = w.judge()
        finally:
            w.close()
        ctx.count(('probe', flag, status))
        ctx.log('probe %s: counterexample of the as-written model on the real code: %s (%s)%s' % (
            flag, status, detail, '; real code: %s' % (j[1],) if j else ''))
        if status == 'ok' and j is not None:
            variants[flag] = False
            ctx.sample({'kind': 'model counterexample (as-written variant %s=FALSE) reproduced on the real ThreadPool' % flag,
                        'call': w.header(), 'actions': [a for a, _ in r.trace][1:], 'observed': j[1]})
            ctx.violation(dict(sig), text + ': ' + j[1],
                          {'call': w.header(), 'schedule': list(w.schedule), 'variants': v,
                           'behaviour': [a for a, _ in r.trace]})
        elif status == 'problem':
            ctx.violation({'kind': 'problem', 'probe': flag}, detail, {'call': w.header(), 'schedule': list(w.schedule)})
    return variants


def run(ctx):
    thorough = ctx.tier == 'thorough'
    tlc.sany(SPEC)
    rng = ctx.rng

    # (A) which variant does the code follow?  (the as-written variants violate the property in the model)
    variants = probe_variants(ctx)
    good = dict(GOOD)
    ctx.log('code follows variants %s' % variants)

    # (M) exhaustive model checking
    if thorough:
        plan = {
            'n0-4.sizes1-4': lambda: model_check(ctx, 'a', good, 0, 4, [1, 2, 3, 4], workers=4),
            'n5.sizes2-3': lambda: model_check(ctx, 'b', good, 5, 5, [2, 3], reduced=True, workers=3),
            'n5.size4': lambda: model_check(ctx, 'c', good, 5, 5, [4], reduced=True, workers=3, entries=['imap']),
            'n6.sizes2-3': lambda: model_check(ctx, 'd', good, 6, 6, [2, 3], reduced=True, workers=6, entries=['imap']),
        }
    else:
        plan = {
            'n0-4.sizes1-3': lambda: model_check(ctx, 'a', good, 0, 4, [1, 2, 3], workers=5),
            'n0-4.size4': lambda: model_check(ctx, 'b', good, 0, 4, [4], reduced=True, workers=6),
            'n5-6.size2': lambda: model_check(ctx, 'c', good, 5, 6, [2], reduced=True, workers=5, entries=['imap']),
        }
    # several calls on one pool object: every way the first call can end x every second call
    plan['two-calls.n0-2.sizes1-2'] = lambda: model_check(ctx, 'r', good, 0, 2, [1, 2], workers=4, maxcalls=2)
    if thorough:
        plan['two-calls.n3.size2-3'] = lambda: model_check(ctx, 'r3', good, 3, 3, [2, 3], reduced=True, workers=6, maxcalls=2,
                                                           entries=['imap'])
    plan['liveness'] = lambda: tlc.run(*_live_cfg(ctx, good), workers=2, timeout=3000, coverage=False)
    if variants != good:
        plan['as-written'] = lambda: model_check(ctx, 'w', variants, 0, 3, [1, 2], workers=2,
                                                 invariants=['TypeOK', 'OrderedPrefixX', 'DoneCompleteX', 'RaisedSound',
                                                             'StuckFree', 'NoLeak', 'CounterOK'])
    results = in_parallel(plan)
    for name, r in results.items():
        ctx.log('model %s: %r' % (name, r))
        if not r.ok:
            if r.violated:
                ctx.violation({'kind': 'model', 'instance': name, 'property': r.violated},
                              'Pool.tla (%s) violates %s' % (name, r.violated),
                              {'trace': [(a, str(s)) for a, s in r.trace]})
                continue
            raise tlc.MachineryError('TLC failed on %s: %s' % (name, r.error))
        ctx.add_tlc('Pool/' + name, r)
        if name == 'liveness' or name == 'as-written':
            continue
        for a in POOL_ACTIONS + (['NewCallWith'] if name.startswith('two-calls') else []):
            if r.coverage.get(a, (0, 0))[1] == 0:
                raise tlc.MachineryError('vacuity: action %s never taken in %s' % (a, name))
        if 'sizes1' in name:
            for a in ('SingleCall', 'SeqCall'):
                if r.coverage.get(a, (0, 0))[1] == 0:
                    raise tlc.MachineryError('vacuity: action %s never taken in %s' % (a, name))

    # (R) spec -> code, 1: simulated behaviours of the model forced on the real pool
    seen_actions = set()
    top = 5 if thorough else 4
    sims = [('pool', 2, top, [2, 3, 4] if thorough else [2, 3], 900 if thorough else 150, 1),
            ('seq', 0, 3, [1], 150 if thorough else 40, 1),
            ('mixed', 0, top, [1, 2, 3], 450 if thorough else 70, 1),
            ('two-calls', 1, 3, [2, 3], 400 if thorough else 80, 2)]
    nb = 0
    bad = False
    for sname, lo, hi, sizes, nsim, maxcalls in sims:
        d = ctx.sub('sim-' + sname)
        mp, cp = tlc.write_mc(d, 'Pool', 'MC_PoolSim', consts=mc_consts(variants, lo, hi, sizes, maxcalls=maxcalls))
        prefix = os.path.join(d, 'beh')
        r = tlc.run(mp, cp, d, workers=1, simulate='file=%s,num=%d' % (prefix, nsim), depth=200 * maxcalls, seed=ctx.seed + 15,
                    coverage=False, timeout=900)
        nb0 = nb
        for f, beh in tlc.sim_traces(prefix):
            if len(beh) < 2 or bad:
                continue
            nb += 1
            c = call_of(beh[0][1])
            api = rng.choice(APIS[c['entry']])
            status, detail, w = replay_behaviour(beh, rng, api=api)
            if status == 'ok' and not w.judge() is None and known_class(w, variants, w.judge()[0]) is None:
                status, detail = 'problem', w.judge()[1]
            ctx.cov['replayed_behaviours'] += 1
            ctx.cov['replayed_steps'] += len(beh) - 1
            acts = tuple(a for a, _ in beh[1:])
            seen_actions.update(parse_action(a)[0] for a in acts)
            ctx.count(('replay', json.dumps(c, sort_keys=True), acts))
            if nb == 1:
                ctx.sample({'kind': 'spec behaviour replayed on the real ThreadPool', 'call': w.header(),
                            'actions': list(acts)[:60], 'result': status})
            if status != 'ok':
                report_world_violation(ctx, w, variants, 'replay-' + status,
                                       'spec behaviour not reproduced by the real code: %s' % detail,
                                       {'behaviour': [a for a, _ in beh], 'detail': detail})
                bad = True
        if nb == nb0 and not bad:
            raise tlc.MachineryError('no simulation behaviours produced (%s): %s' % (sname, r.out[-800:]))
    ctx.log('replayed %d simulated behaviours (%d steps)' % (nb, ctx.cov['replayed_steps']))

    # (R) spec -> code, 2: adversarial situations (shortest counterexamples of "this never happens"), then a random
    # continuation; the whole recorded call goes into the trace batch as well
    records, worlds = [], []
    jobs = {}
    for tname, c, pred in TARGETS:
        if tname == 'starmap-single-item-through-the-pool' and variants['StarByCount']:
            continue

        def job(tname=tname, c=c, pred=pred):
            dd = ctx.sub('target-' + tname)
            mp, cp = tlc.write_mc(dd, 'Pool', 'MC_PoolT', consts=mc_consts(variants, c['minn'], c['maxn'], c['sizes'],
                                                                         c['entries'], c['modes']),
                                  invariants=['NotTarget'], extra_defs='NotTarget == ~(%s)' % pred)
            return tlc.run(mp, cp, dd, workers=2, timeout=600, coverage=False)
        jobs[tname] = job
    tres = in_parallel(jobs)
    for tname, c, pred in TARGETS:
        if tname not in tres:
            continue
        r = tres[tname]
        if r.violated != 'NotTarget' or not r.trace:
            raise tlc.MachineryError('target situation %s is not reachable in the model: %r' % (tname, r))
        if bad:
            continue
        status, detail, w = replay_behaviour(r.trace, rng)
        ctx.cov['replayed_behaviours'] += 1
        ctx.cov['replayed_steps'] += len(r.trace) - 1
        acts = tuple(a for a, _ in r.trace[1:])
        seen_actions.update(parse_action(a)[0] for a in acts)
        ctx.count(('target', tname, acts))
        ctx.sample({'kind': 'adversarial situation "%s" forced on the real ThreadPool' % tname, 'call': w.header(),
                    'actions': list(acts), 'result': status}, limit=4)
        if status != 'ok':
            report_world_violation(ctx, w, variants, 'replay-' + status,
                                   'situation %s: spec behaviour not reproduced by the real code: %s' % (tname, detail),
                                   {'behaviour': [a for a, _ in r.trace], 'detail': detail})
            continue
        # same prefix again, continued to the end by a random schedule, validated as a trace below
        for rep_ in range(6 if c.get('more') else 1):
            cc = call_of(r.trace[0][1])
            if c.get('more'):
                cc['more'] = [dict(m) for m in c['more']]
            w2 = random_run(cc, rng, rng.choice(POLICIES) if rep_ else 'uniform', prefix=list(w.schedule))
            worlds.append(('target:' + tname, w2))
    ctx.log('forced %d adversarial situations' % len(TARGETS))
    missing = [a for a in POOL_ACTIONS + ['SingleCall', 'SeqCall'] if a not in seen_actions]
    if missing and not bad:
        raise tlc.MachineryError('vacuity: actions never replayed on the real code: %s' % missing)

    # (T) code -> spec: random schedules of the real pool with larger constants
    nrand = 2500 if thorough else 420
    for i in range(nrand):
        entry = rng.choice(['imap', 'imap', 'imap', 'star1', 'star2'])
        size = rng.choice([1, 2, 2, 3, 3, 4, 5, 6]) if thorough else rng.choice([1, 2, 2, 3, 3, 4, 5])
        n = rng.choice([0, 1, 2, 3, 4, 5, 6, 6, 7, 8, 9, 10]) if thorough else rng.choice([0, 1, 2, 3, 4, 5, 6, 6, 7, 8])
        if entry != 'imap':
            n = max(n, 1)
        raise_mode = rng.random() < 0.5
        nf = rng.choice([0, 1, 1, 2, 3, n])
        fail = sorted(rng.sample(range(n), min(nf, n))) if n else []
        call = dict(n=n, fail=fail, raise_mode=raise_mode, size=size, entry=entry)
        if rng.random() < 0.3:
            # the pool object is used for a second call
            e2 = rng.choice(['imap', 'imap', 'star1', 'star2'])
            n2 = rng.choice([0, 1, 2, 3, 4, 5, 6]) if e2 == 'imap' else rng.choice([1, 2, 3, 4, 5])
            call['more'] = [dict(n=n2, fail=sorted(rng.sample(range(n2), min(rng.choice([0, 0, 1, 2]), n2))) if n2 else [],
                                 raise_mode=rng.random() < 0.5, entry=e2, api=rng.choice(APIS[e2]))]
        w = random_run(call, rng, rng.choice(POLICIES), api=rng.choice(APIS[entry]))
        worlds.append(('random', w))
    for kind, w in worlds:
        ctx.count(('sched', json.dumps(w.header(), sort_keys=True), tuple(w.schedule)))
        if w.problems:
            report_world_violation(ctx, w, variants, 'problem', w.problems[0])
            continue
        j = w.judge()
        if j is not None and known_class(w, variants, j[0]) is None:
            report_world_violation(ctx, w, variants, j[0], '%s schedule of the real code' % kind)
        records.append(w.record())
    if records:
        r, rejected = validate_traces(ctx, 'rand', variants, records)
        ctx.cov['traces_validated_against_impl'] += len(records)
        ctx.cov['states'] += r.distinct
        ctx.cov['transitions'] += r.generated
        ctx.sample({'kind': 'recorded schedule of the real ThreadPool (validated by Trace_Pool)',
                    'call': {k: v for k, v in records[-1].items() if k != 'ev'},
                    'events': [(e['c'], e['op'], e['q']) for e in records[-1]['ev']][:60]})
        for i, why, upto in rejected:
            rec = records[i]
            nxt = rec['ev'][upto] if upto < len(rec['ev']) else None
            hdr = {k: v for k, v in rec.items() if k != 'ev'}
            path = 'pool' if any(e['c'] != 'consumer' for e in rec['ev']) else 'caller-thread'
            ctx.violation({'kind': 'trace-rejected' if 'not a behaviour' in why else 'trace-invariant', 'why': why,
                           'path': path, 'mode': 'raise' if rec['raise'] else 'result'},
                          'recorded execution %s: matched %d of %d events of call %s, next event %s' % (
                              why, upto, len(rec['ev']), hdr, {k: nxt[k] for k in ('c', 'op', 'q', 'item')} if nxt else None),
                          {'call': hdr, 'schedule': [e['c'] for e in rec['ev']], 'variants': variants, 'matched': upto})
        ctx.log('validated %d recorded calls (%d events, %d rejected)' % (
            len(records), sum(len(x['ev']) for x in records), len(rejected)))

    # (E) sanity layer: the order-sensitive users of the pool, end to end, under adversarial completion orders
    ne = end_to_end_order(ctx, rng, thorough)
    ctx.log('end-to-end: %d calls of TileCreator._query_sources / LayerRenderer.render under adversarial schedules' % ne)

    ctx.assumptions += [
        'the threads share state only through the two Queue objects (and thread start); every Queue operation is atomic '
        '(queue.Queue holds its mutex) - so one model action per Queue call is the complete interleaving granularity',
        'worker threads are interchangeable: the model counts workers per program point (quotient under renaming)',
        'item functions raise subclasses of Exception; a BaseException in a worker (thread dies without task_done) and '
        'results that look like exc_info tuples are outside the model',
        'a ThreadPool object is used for one call everywhere in mapproxy; two calls on one object are modelled (NewCall) '
        'and exercised, a third call is not',
        ('exhaustive instances (thorough): n <= 4 x pool sizes 1-4 unreduced; n = 5 x sizes 2-4 and n = 6 x sizes 2-3 with '
         'the two documented sound reductions (workers start first; result mode explores none/each single/all failing); '
         if thorough else
         'exhaustive instances (quick): n <= 4 x pool sizes 1-3 unreduced; n <= 4 x size 4 and n = 5, 6 x size 2 with the '
         'two documented sound reductions (workers start first; result mode explores none/each single/all failing); ') +
        'instances with n >= 5 at size >= 4 (thorough) or n >= 5 (quick) use the imap entry only (the entry point only selects the branch); '
        'larger pools / more items are covered by validated random schedules only',
    ]
    return ctx.finish('model_checking',
                      'TLC: all interleavings at Queue-operation granularity of calls with up to 6 items x pool sizes x '
                      'failing sets x both modes x entry points; distinct = distinct action sequences forced on the real '
                      'ThreadPool plus distinct recorded schedules of the real ThreadPool validated by TLC')


def _live_cfg(ctx, variants):
    d = ctx.sub('mc-live')
    mp, cp = tlc.write_mc(d, 'Pool', 'MC_PoolLive', consts=mc_consts(variants, 0, 3, [1, 2, 3]), spec='FairSpec',
                          properties=['Terminates'])
    with open(cp, 'a') as f:
        f.write('CONSTANT FailSets <- FewFailSets\n')
    return mp, cp, d


def replay(ctx, data):
    """Re-execute a stored case: the recorded schedule is forced on the current tree, the property statement is
    evaluated on what the caller observed, and the recorded events are validated against the specification."""
    case = data.get('case') or {}
    call = case.get('call')
    if not call or 'schedule' not in case:
        print('nothing to replay')
        return 0
    c = dict(n=call['n'], fail=call['fail'], raise_mode=call['raise'], size=call['size'], entry=call['entry'],
             more=call.get('more'))
    w = random_run(c, ctx.rng, 'uniform', api=call.get('api'), prefix=case['schedule'], max_steps=0)
    finished = w.all_finished()
    w2 = None
    if not finished and not w.stuck:
        w2 = random_run(c, ctx.rng, 'uniform', api=call.get('api'), prefix=case['schedule'])
    j = (w2 or w).judge()
    print('schedule of %d steps re-executed (%d accepted by the real code); caller observed out=%r raised=%r' % (
        len(case['schedule']), len(w.schedule), (w2 or w).out, (w2 or w).raised))
    rc = 0
    if j is not None:
        print('property violated on the real code: %s' % j[1])
        rc = 1
    variants = case.get('variants') or dict(GOOD)
    r, rejected = validate_traces(ctx, 'replay', dict(GOOD), [(w2 or w).record()])
    print('trace validation against the specification (repaired variants): %s' % (
        'rejected %r' % (rejected,) if rejected else 'accepted'))
    if rejected:
        rc = 1
    if rc:
        print('VIOLATION property=C15 replay=(given)')
    import shutil
    shutil.rmtree(ctx.workdir, ignore_errors=True)
    return rc
