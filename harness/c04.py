"""C04 - a tile is the same image however it was produced.

spec/MetaTile.tla transcribes MetaGrid (meta size clamp, main tile, buffered bbox with truncation and per-side
buffers, request size, crop pattern) on top of spec/Lattice.tla and states declaratively that the content cut
out for a tile sits at the tile's own ground position (exactly when no buffer was cut, within one pixel
otherwise) and that nothing deep inside the extent falls outside the meta image.  For every case TLC checks
statement vs transcription, transcription vs the MetaTile object built by the real MetaGrid, and the tiles the
real TileManager stored under every creation strategy (single, meta, request-minimising meta, bulk, concurrent
creators), decoded through a position-encoding upstream (spec/trace/Trace_MetaTile.tla).
"""
import io
import json
import os

from engine import tlc
from engine import lattice as L

SPEC = os.path.join(tlc.SPEC_DIR, 'MetaTile.tla')
BG = (255, 255, 255)
# half of the cases run with a half-transparent upstream (RGBA, alpha 60..219 as a function of the position) and a transparent
# cache: whatever cuts, pads or pastes the tiles must keep the four channels as they came
ALPHA = [False]


def alpha_of(cx, cy):
    return 60 + (int(cx) * 3 + int(cy) * 5) % 160


def make_painter(g, supports_meta, holes=None):
    """holes: (grid, set of tile coordinates) for which the source has no picture (BlankImage), as a tile source with a
    coverage has for tiles beyond its border"""
    from mapproxy.layer import MapLayer, MapExtent, BlankImage
    from mapproxy.image import ImageSource
    from mapproxy.image.opts import ImageOptions
    from mapproxy.srs import SRS
    from PIL import Image
    gx0, gy0 = g['bbox'][0], g['bbox'][1]

    class Painter(MapLayer):
        supports_meta_tiles = supports_meta

        def __init__(self):
            MapLayer.__init__(self, ImageOptions(format='image/png', colors=0))
            self.extent = MapExtent((-10 ** 7, -10 ** 7, 10 ** 7, 10 ** 7), SRS(3857))
            self.log = []

        def get_map(self, query):
            bx0, by0, bx1, by1 = query.bbox
            w, h = query.size
            self.log.append((tuple(query.bbox), tuple(query.size)))
            if holes is not None:
                hgrid, hset = holes
                for u in hset:
                    if all(abs(a - b) < 1e-6 for a, b in zip(hgrid.tile_bbox(u), query.bbox)):
                        raise BlankImage()
            rx, ry = (bx1 - bx0) / float(w), (by1 - by0) / float(h)
            lres = min(g['res'], key=lambda r: abs(r - rx))
            img = Image.new('RGBA' if ALPHA[0] else 'RGB', (w, h))
            px = img.load()
            for j in range(h):
                cy = int(((by1 - (j + 0.5) * ry) - gy0) // lres)
                for i in range(w):
                    cx = int(((bx0 + (i + 0.5) * rx) - gx0) // lres)
                    px[i, j] = ((cx + 20) % 256, (cy + 20) % 256, 100) + ((alpha_of(cx, cy),) if ALPHA[0] else ())
            return ImageSource(img, size=query.size, image_opts=ImageOptions(format='image/png', colors=0, transparent=bool(ALPHA[0])))
    return Painter()


def make_cache():
    from mapproxy.cache.base import TileCacheBase
    from mapproxy.image import ImageSource

    class RecCache(TileCacheBase):
        supports_timestamp = False

        def __init__(self):
            TileCacheBase.__init__(self)
            self.d = {}
            self.store_calls = []
            self.lock_cache_id = 'rec'

        def is_cached(self, tile, dimensions=None):
            return tile.coord is None or tile.source is not None or tile.coord in self.d

        def load_tile(self, tile, with_metadata=False, dimensions=None):
            if tile.source is not None or tile.coord is None:
                return True
            if tile.coord in self.d:
                tile.source = ImageSource(io.BytesIO(self.d[tile.coord]))
                return True
            return False

        def _put(self, tile):
            buf = tile.source.as_buffer(seekable=True)
            buf.seek(0)
            self.d[tile.coord] = buf.read()

        def store_tile(self, tile, dimensions=None):
            self.store_calls.append([tile.coord])
            self._put(tile)
            return True

        def store_tiles(self, tiles, dimensions=None):
            self.store_calls.append([t.coord for t in tiles])
            for t in tiles:
                self._put(t)
            return True

        def remove_tile(self, tile, dimensions=None):
            self.d.pop(tile.coord, None)

        def load_tile_metadata(self, tile, dimensions=None):
            tile.timestamp = -1
    return RecCache()


def manager(grid, g, strategy, ms, buf, holes=None):
    from mapproxy.cache.tile import TileManager
    from mapproxy.cache.dummy import DummyLocker
    from mapproxy.image.opts import ImageOptions
    cache = make_cache()
    opts = ImageOptions(format='image/png', colors=0, transparent=bool(ALPHA[0]))
    if strategy == 'single':
        src = make_painter(g, True)
        m = TileManager(grid, cache, [src], 'png', locker=DummyLocker(), image_opts=opts)
    elif strategy in ('bulk', 'bulkholes'):
        src = make_painter(g, False, holes=(grid, set(holes)) if holes else None)
        m = TileManager(grid, cache, [src], 'png', locker=DummyLocker(), image_opts=opts, meta_size=list(ms), meta_buffer=0,
                        bulk_meta_tiles=True, concurrent_tile_creators=2)
    else:
        src = make_painter(g, True)
        m = TileManager(grid, cache, [src], 'png', locker=DummyLocker(), image_opts=opts, meta_size=list(ms), meta_buffer=buf,
                        minimize_meta_requests=(strategy == 'minimal'),
                        concurrent_tile_creators=2 if strategy == 'concurrent' else 1)
    return m, cache, src


def tile_bbox_l(g, t):
    x, y, l = t
    r = g['res'][l]
    x0 = g['bbox'][0] + x * r * g['tw']
    if g['ul']:
        y1 = g['bbox'][3] - y * r * g['th']
        return (x0, y1 - r * g['th'], x0 + r * g['tw'], y1)
    y0 = g['bbox'][1] + y * r * g['th']
    return (x0, y0, x0 + r * g['tw'], y0 + r * g['th'])


def decode(g, t, data):
    """position error / background summary of a stored tile (pure observation, no model involved)"""
    from PIL import Image
    img = Image.open(io.BytesIO(data)).convert('RGBA' if ALPHA[0] else 'RGB')
    r = g['res'][t[2]]
    b = tile_bbox_l(g, t)
    px = img.load()
    errs_x, errs_y = set(), set()
    bg_inside = foreign = 0
    if img.size != (g['tw'], g['th']):
        return {'ex': 10 ** 6, 'ey': 10 ** 6, 'spread': 10 ** 6, 'bg_inside': 0, 'foreign': 1}
    for pj in range(g['th']):
        for pi in range(g['tw']):
            x0 = b[0] + pi * r
            y1 = b[3] - pj * r
            own_cx = (x0 - g['bbox'][0]) // r
            own_cy = (y1 - r - g['bbox'][1]) // r
            c = px[pi, pj]
            if ALPHA[0]:
                if c[3] == 0:
                    c = BG                      # nothing there (padding beyond the extent)
                elif c[3] != alpha_of(c[0] - 20, c[1] - 20) and c[2] == 100:
                    foreign += 1                # the colour says which cell it is, the alpha is not that cell's
                    continue
                else:
                    c = c[:3]
            deep = (x0 - r >= g['bbox'][0] and x0 + 2 * r <= g['bbox'][2] and y1 + r <= g['bbox'][3] and y1 - 2 * r >= g['bbox'][1])
            if c == BG:
                if deep:
                    bg_inside += 1
                continue
            if c[2] != 100:
                foreign += 1
                continue
            inside = (x0 >= g['bbox'][0] and x0 + r <= g['bbox'][2] and y1 <= g['bbox'][3] and y1 - r >= g['bbox'][1])
            if inside:
                errs_x.add((c[0] - 20 - own_cx) * r)
                errs_y.add((c[1] - 20 - own_cy) * r)
    ex = max(errs_x, key=abs) if errs_x else 0
    ey = max(errs_y, key=abs) if errs_y else 0
    spread = max((max(errs_x) - min(errs_x)) if errs_x else 0, (max(errs_y) - min(errs_y)) if errs_y else 0)
    return {'ex': ex, 'ey': ey, 'spread': spread, 'bg_inside': bg_inside, 'foreign': foreign}


def grid_size(g, l):
    w, h = g['bbox'][2] - g['bbox'][0], g['bbox'][3] - g['bbox'][1]
    r = g['res'][l]
    return (max(-((-(w // r)) // g['tw']), 1), max(-((-(h // r)) // g['th']), 1))


def run_strategy(grid, g, strategy, ms, buf, t, extra, meta_bbox=None, holes=None, pre=()):
    m, cache, src = manager(grid, g, strategy, ms, buf, holes=holes)
    if pre:
        # some tiles of the meta tile are in the cache already (made one by one earlier): the cache is partially filled
        m1, cache1, _src1 = manager(grid, g, 'single', ms, buf)
        m1.load_tile_coords(list(pre))
        for u in pre:
            cache.d[u] = cache1.d[u]
    req = [t] + list(extra)
    try:
        m.load_tile_coords(req)
    except Exception as ex:
        return {'s': strategy, 'ex': 10 ** 6, 'ey': 10 ** 6, 'spread': 0, 'bg_inside': 0, 'foreign': 1, 'stored': [], 'nstore': 0,
                'nreq': len(src.log), 'req': [list(x) for x in req], 'error': repr(ex)[:200]}
    if t not in cache.d:
        return {'s': strategy, 'ex': 10 ** 6, 'ey': 10 ** 6, 'spread': 0, 'bg_inside': 0, 'foreign': 1, 'stored': [], 'nstore': 0,
                'nreq': len(src.log), 'req': [list(x) for x in req]}
    o = decode(g, t, cache.d[t])
    calls = [c for c in cache.store_calls if t in c]
    o.update({'s': strategy, 'stored': [list(c) for c in (calls[0] if calls else [])], 'nstore': len(calls),
              'req': [list(x) for x in req]})
    # upstream requests that produced the stored batch: all requests unless other meta tiles were also created
    if strategy == 'bulkholes':
        o['holes'] = [list(u) for u in sorted(holes)]
        # every other tile of the batch shows its own ground too; nothing is stored for a tile without picture
        for u in (calls[0] if calls else []):
            if u != t and u in cache.d:
                ou = decode(g, u, cache.d[u])
                if ou['foreign'] or ou['ex'] or ou['ey'] or ou['bg_inside']:
                    o['foreign'] += 1
        o['foreign'] += len([u for u in holes if u in cache.d])
    if pre:
        o['pre'] = [list(u) for u in pre]
    if strategy == 'concurrent':
        # a second meta tile is created in the same call: count the requests for THIS meta tile (its bbox)
        o['nreq'] = len([q for q in src.log if all(abs(a - b) < 1e-6 for a, b in zip(q[0], meta_bbox))])
    else:
        o['nreq'] = len(src.log)
    return o


def observe(name, g, ctx, n_cases):
    from mapproxy.grid import MetaGrid
    grid = L.real_grid(name, L.EXACT)
    rng = ctx.rng
    combos = []
    for l in range(len(g['res'])):
        gx, gy = grid_size(g, l)
        for ms in ((2, 2), (3, 2), (2, 1), (1, 3), (4, 4)):
            for buf in (0, 1, 2, 5):
                for x in range(gx):
                    for y in range(gy):
                        combos.append((ms, buf, (x, y, l)))
    rng.shuffle(combos)
    # always include border tiles with buffers (truncation) - they are the interesting ones
    combos.sort(key=lambda c: 0 if (c[1] > 0 and (c[2][0] in (0, grid_size(g, c[2][2])[0] - 1) or c[2][1] in (0, grid_size(g, c[2][2])[1] - 1))) else 1)
    chosen = combos[:n_cases // 2] + combos[n_cases // 2:][:: max(1, len(combos) // max(1, n_cases // 2))][:n_cases // 2]
    cases = []
    for ms, buf, t in chosen:
        mg = MetaGrid(grid, meta_size=ms, meta_buffer=buf)
        mt = mg.meta_tile(t)
        real = {'main': list(mg.main_tile(t)), 'bbox': [int(round(v)) for v in mt.bbox], 'size': list(mt.size),
                'tiles': [list(c) if c is not None else [-1, -1, -1] for c, _ in mt.tile_patterns],
                'crop': [list(o) for _, o in mt.tile_patterns]}
        if any(abs(v - round(v)) > 1e-6 for v in mt.bbox):
            real['bbox'] = [0, 0, 0, 0]
        ALPHA[0] = rng.random() < 0.5
        obs = [run_strategy(grid, g, 'meta', ms, buf, t, [])]
        k = rng.random()
        gx, gy = grid_size(g, t[2])
        if k < 0.35:
            obs.append(run_strategy(grid, g, 'single', ms, buf, t, []))
        elif k < 0.6:
            nb = [(t[0] + dx, t[1] + dy, t[2]) for dx, dy in ((1, 0), (0, 1), (-1, 0), (1, 1), (2, 0)) if 0 <= t[0] + dx < gx and 0 <= t[1] + dy < gy]
            if nb:
                obs.append(run_strategy(grid, g, 'minimal', ms, buf, t, nb[:rng.randint(1, min(2, len(nb)))]))
        elif k < 0.7:
            real_b = None
            obs.append(run_strategy(grid, g, 'bulk', ms, 0, t, []))
            if buf != 0:
                obs[-1]['s'] = 'bulk'
        elif k < 0.8:
            # bulk creation with tiles the source has no picture for (checkerboard around t)
            mt0 = MetaGrid(grid, meta_size=ms, meta_buffer=0).meta_tile(t)
            holes = [u for u in mt0.tiles if u is not None and u != t and (u[0] + u[1]) % 2 != (t[0] + t[1]) % 2]
            if holes:
                obs.append(run_strategy(grid, g, 'bulkholes', ms, 0, t, [], holes=holes))
                ctx.cov['bulk_with_blank_tiles'] = ctx.cov.get('bulk_with_blank_tiles', 0) + 1
            else:
                obs.append(run_strategy(grid, g, 'bulk', ms, 0, t, []))
        elif k < 0.9:
            # the meta tile is partially cached (its main tile among the cached ones): the rest is still made by one request
            others = [u for u in mt.tiles if u is not None and u != t]
            main = tuple(mg.main_tile(t))
            if others:
                pre = [u for u in others if u == main or rng.random() < 0.4] or others[:1]
                obs.append(run_strategy(grid, g, 'partial', ms, buf, t, [], pre=pre))
                ctx.cov['partially_cached_meta_tiles'] = ctx.cov.get('partially_cached_meta_tiles', 0) + 1
        else:
            far = [(x, y, t[2]) for x in range(gx) for y in range(gy) if mg.main_tile((x, y, t[2])) != mg.main_tile(t)]
            obs.append(run_strategy(grid, g, 'concurrent', ms, buf, t, far[:1], meta_bbox=mt.bbox))
        cases.append({'ms': list(ms), 'buf': buf, 't': list(t), 'real': real, 'obs': obs, 'alpha': bool(ALPHA[0])})
    ALPHA[0] = False
    return {'grid': g, 'cases': cases}


def validate(ctx, name, doc):
    d = ctx.sub('tr-' + name)
    tf = os.path.join(d, 'cases.json')
    with open(tf, 'w') as f:
        json.dump(doc, f)
    mp, cp = tlc.write_mc(d, 'Trace_MetaTile', 'MC_TM', {}, spec='TraceSpec')
    r = tlc.run(mp, cp, d, workers=1, coverage=False, env={'TRACE_FILE': tf}, timeout=3000, heap='6g')
    pr = tlc.find_prints(r.out, 'verdict')
    if not pr:
        raise tlc.MachineryError('Trace_MetaTile gave no verdict for %s: %s' % (name, r.out[-1500:]))
    return r, pr[-1][1]


def run(ctx):
    thorough = ctx.tier == 'thorough'
    tlc.sany(SPEC)
    names = [n for n in L.CATALOGUE if n != 'Gsparse'] if thorough else ['G2', 'Gpart', 'Gpartul', 'Gneg', 'Grect', 'Grectul', 'G15', 'Gcust', 'Gunal', 'G1']
    n_cases = 900 if thorough else 300
    total = 0
    for name in names:
        g = L.spec_grid(name)
        doc = observe(name, g, ctx, n_cases)
        r, v = validate(ctx, name, doc)
        n = len(doc['cases'])
        total += n
        for c in doc['cases']:
            ctx.count((name, tuple(c['ms']), c['buf'], tuple(c['t']), tuple(o['s'] for o in c['obs'])))
        ctx.cov['states'] += max(r.distinct, 1)
        ctx.cov['transitions'] += n
        ctx.cov['traces_validated_against_impl'] += 1
        if name == names[0]:
            ctx.sample({'grid': name, 'case': doc['cases'][0]})
        if v['first']:
            c = doc['cases'][v['first'] - 1]
            bad = [o for o in c['obs']]
            ctx.violation({'kind': 'metatile', 'grid': name, 'why': str(v['why'])},
                          '%s: %d of %d cases fail (%s); first: meta_size=%s buffer=%s tile=%s real=%s stored=%s' % (
                              name, v['count'], n, v['why'], c['ms'], c['buf'], c['t'], json.dumps(c['real'])[:300],
                              json.dumps([{k: o[k] for k in o if k != 'req'} for o in bad])[:500]),
                          {'grid': g, 'case': c})
        ctx.log('%s: %d cases, %d failing (%.1fs TLC)' % (name, n, v['count'], r.wall))
    if not ctx.violations and not ctx.cov.get('partially_cached_meta_tiles'):
        raise tlc.MachineryError('vacuity: no case with a partially cached meta tile')
    ctx.assumptions += [
        'lattice world, exact regime; whole-pixel buffers {0,1,2,5}; meta sizes (2,2),(3,2),(2,1),(1,3),(4,4)',
        'upstream picture depends on ground position only (position-encoding painter, nearest cell per pixel centre)',
        'concurrent creators are exercised through concurrent_tile_creators=2 on two meta tiles; interleavings of creators '
        'of the SAME meta tile are C08',
    ]
    return ctx.finish('model_checking',
                      'TLC evaluates, per case (grid, meta size, buffer, tile), the declarative C04 statement against the '
                      'transcription, the transcription against the real MetaTile object and the decoded stored tiles of the '
                      'real TileManager under each strategy; distinct = distinct (grid, meta size, buffer, tile, strategies)')


def replay(ctx, data):
    print('C04 cases are regenerated deterministically from the seed: rerun ./check C04; case: %s' % json.dumps((data.get('case') or {}).get('case'))[:400])
    return 0
