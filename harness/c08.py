"""C08 - concurrent requests for one uncached tile: all correct, one upstream fetch.

spec/TileCreate.tla models the check / lock / re-check / fetch / store / unlock protocol of TileManager and
TileCreator with one action per cache call, lock operation and upstream call; TLC explores all interleavings
of 2-3 requests.  Binding: real TileManagers (separate object graphs on shared cache and lock directories =
"processes", or one shared manager = "threads") run under the baton scheduler with yield points at exactly
those calls; TLC behaviours are forced step by step with the cache directory, upstream log and responses
compared after every step; random schedules are recorded and validated by TLC (Trace_TileCreate.tla).
Counterexamples of the protocol variants the property must reject (no re-check, lock on the wanted tile,
late cache hit not loaded) are forced on the real code too.
"""
import io
import json
import os
import shutil
import tempfile

from engine import tlc, tla
from engine.sched import Baton, Deadlock
from harness.c05 import parse_action

SPEC = os.path.join(tlc.SPEC_DIR, 'TileCreate.tla')
TRACE_SPEC = os.path.join(tlc.SPEC_DIR, 'trace', 'Trace_TileCreate.tla')
LEVEL = 1


def colour(coord):
    x, y, z = coord
    return (40 * x + 15, 40 * y + 25, 60 * z + 7)


def stale_colour(coord):
    """content of the expired version of a tile (scenarios with a refresh rule)"""
    r, g, b = colour(coord)
    return (r, g, b + 100)


class World(object):
    """cache dir + lock dir + painter upstream; one TileManager per request ("processes") or a shared one"""

    def __init__(self, meta, wants, shared_manager=False, stale=False):
        """stale: every tile is in the cache already, last written before the refresh threshold of the managers:
        for the protocol an expired tile is a missing tile (`cache` of the model = the up-to-date tiles)"""
        from mapproxy.grid import TileGrid, MetaGrid
        from mapproxy.srs import SRS
        self.dir = tempfile.mkdtemp(prefix='verif-c08-')
        self.cache_dir = os.path.join(self.dir, 'cache')
        self.lock_dir = os.path.join(self.dir, 'locks')
        self.meta = meta                     # None or (mx, my)
        self.grid = TileGrid(SRS(3857), bbox=(0, 0, 640, 640), tile_size=(4, 4), res=[80, 40, 20], origin='ll')
        self.sched = Baton()
        self.events = self.sched.events
        self.fetch_log = []                  # (request, bbox, size)
        self.responses = {}
        self.problems = []
        # ids: t1.. for the bottom row of level 1 (+ second row for 2x2 meta)
        coords = [(x, y, LEVEL) for y in range(2) for x in range(4)]
        self.tid = {c: 't%d' % (i + 1) for i, c in enumerate(coords)}
        self.coord = {v: k for k, v in self.tid.items()}
        if meta:
            mg = MetaGrid(self.grid, meta_size=meta, meta_buffer=0)
            self.meta_of, self.tiles_of = {}, {}
            for c in coords:
                mt = mg.meta_tile(c)
                name = 'm%d_%d' % mt.main_tile_coord[:2]
                self.meta_of[self.tid[c]] = name
                self.tiles_of[name] = tuple(self.tid[t] for t in mt.tiles if t is not None)
        else:
            self.meta_of = {t: 'm' + t for t in self.coord}
            self.tiles_of = {'m' + t: (t,) for t in self.coord}
        self.wants = wants
        self.stale = stale
        self.threshold = None
        if stale:
            import time
            from PIL import Image
            from mapproxy.cache.file import FileCache
            from mapproxy.cache.tile import Tile
            from mapproxy.image import ImageSource
            from mapproxy.image.opts import ImageOptions
            now = int(time.time())
            self.threshold = now - 500
            c = FileCache(self.cache_dir, 'png')
            used = set()
            for ts in wants.values():
                for t in ts:
                    used |= set(self.tiles_of[self.meta_of[t]])
            for t in sorted(used):
                tile = Tile(self.coord[t])
                tile.source = ImageSource(Image.new('RGB', (4, 4), stale_colour(self.coord[t])),
                                          image_opts=ImageOptions(format='image/png'))
                c.store_tile(tile)
                os.utime(c.tile_location(tile), (now - 1000, now - 1000))
        self.shared = self._manager('shared') if shared_manager else None
        for r in sorted(wants):
            self.sched.spawn(r, self._driver(r))
        for r in sorted(wants):
            self.sched.step(r)               # run to the first yield point

    def close(self):
        try:
            self.sched.finish_all(limit=3000)
        except Exception:
            pass
        shutil.rmtree(self.dir, ignore_errors=True)

    # ---- real objects with yield points ---------------------------------------------------------------
    def _manager(self, who):
        from mapproxy.cache.file import FileCache
        from mapproxy.cache.base import TileLocker
        from mapproxy.cache.tile import TileManager
        from mapproxy.image.opts import ImageOptions
        from mapproxy.layer import MapLayer, MapExtent
        from mapproxy.image import ImageSource
        from mapproxy.srs import SRS
        from mapproxy.util.lock import LockTimeout
        w = self

        class YCache(FileCache):
            def load_tiles(self, tiles, with_metadata=False, dimensions=None):
                w.sched.point('load_tiles')
                self._bulk = True
                try:
                    res = FileCache.load_tiles(self, tiles, with_metadata, dimensions=dimensions)
                finally:
                    self._bulk = False
                w.emit('load_tiles', tiles=[w.tid.get(t.coord) for t in tiles if t.coord],
                       hit=[w.tid.get(t.coord) for t in tiles if t.coord and t.source is not None])
                return res

            def load_tile(self, tile, with_metadata=False, dimensions=None):
                if getattr(self, '_bulk', False):
                    return FileCache.load_tile(self, tile, with_metadata, dimensions=dimensions)
                w.sched.point('load_tile')
                res = FileCache.load_tile(self, tile, with_metadata, dimensions=dimensions)
                w.emit('load_tile', tile=w.tid.get(tile.coord), res=bool(res))
                return res

            def store_tile(self, tile, dimensions=None):
                w.sched.point('store_tile')
                res = FileCache.store_tile(self, tile, dimensions=dimensions)
                w.emit('store_tile', tile=w.tid.get(tile.coord))
                return res

        class YLock(object):
            def __init__(self, real, name):
                self.real, self.name = real, name

            def __enter__(self):
                while True:
                    w.sched.point('lock_try')
                    try:
                        self.real.lock()
                    except LockTimeout:
                        w.emit('lock_busy', name=self.name)
                        continue
                    w.emit('lock_ok', name=self.name)
                    return

            def __exit__(self, *a):
                w.sched.point('unlock')
                self.real.unlock()
                w.emit('unlock', name=self.name)

        class YLocker(TileLocker):
            def lock(self, tile):
                real = TileLocker.lock(self, tile)
                real.timeout = 0
                return YLock(real, os.path.basename(real.lock_file))

        class Painter(MapLayer):
            supports_meta_tiles = True

            def __init__(self):
                MapLayer.__init__(self, ImageOptions(format='image/png'))
                self.extent = MapExtent((0, 0, 640, 640), SRS(3857))

            def get_map(self, query):
                from PIL import Image
                w.sched.point('fetch')
                bx0, by0, bx1, by1 = query.bbox
                wd, ht = query.size
                res = (bx1 - bx0) / float(wd)
                img = Image.new('RGB', (wd, ht))
                px = img.load()
                for j in range(ht):
                    for i in range(wd):
                        gx = bx0 + (i + 0.5) * res
                        gy = by1 - (j + 0.5) * res
                        px[i, j] = colour((int(gx // (4 * res)), int(gy // (4 * res)), LEVEL))
                main = w.grid.tile(bx0 + res, by0 + res, LEVEL)
                w.fetch_log.append((w.sched.current(), tuple(query.bbox), tuple(query.size)))
                w.emit('fetch', bbox=list(query.bbox), size=list(query.size), meta=w.meta_name(query.bbox))
                return ImageSource(img, size=query.size, image_opts=ImageOptions(format='image/png'))

        class YManager(TileManager):
            # "is the tile cached" includes the refresh rule: exists and was written after the threshold
            def is_cached(self, tile, dimensions=None):
                from mapproxy.cache.tile import Tile
                if isinstance(tile, tuple):
                    tile = Tile(tile)
                w.sched.point('is_cached')
                res = TileManager.is_cached(self, tile, dimensions=dimensions)
                w.emit('is_cached', tile=w.tid.get(tile.coord), res=bool(res))
                return res

        cache = YCache(self.cache_dir, 'png')
        locker = YLocker(self.lock_dir, 60, cache.lock_cache_id)
        mgr = YManager(self.grid, cache, [Painter()], 'png', locker=locker,
                       image_opts=ImageOptions(format='image/png'),
                       meta_size=self.meta, meta_buffer=0 if self.meta else None)
        if self.stale:
            mgr._expire_timestamp = self.threshold
        return mgr

    def meta_name(self, bbox):
        # which meta tile does this upstream bbox correspond to: the one whose tiles' union has that bbox
        for m, ts in self.tiles_of.items():
            bbs = [self.grid.tile_bbox(self.coord[t]) for t in ts]
            u = (min(b[0] for b in bbs), min(b[1] for b in bbs), max(b[2] for b in bbs), max(b[3] for b in bbs))
            if all(abs(a - b) < 1e-6 for a, b in zip(u, bbox)):
                return m
        return 'unknown:%s' % (bbox,)

    def emit(self, ev, **f):
        e = self.sched.emit(ev, **f)
        e['r'] = e.pop('c')
        return e

    def _driver(self, r):
        def run():
            mgr = self.shared or self._manager(r)
            coords = [self.coord[t] for t in self.wants[r]]
            tiles = mgr.load_tile_coords(coords)
            self.sched.point('respond')
            delivered, wrong, stale_delivered = [], [], []
            for t in tiles:
                if t.source is None:
                    continue
                img = t.source.as_image().convert('RGB')
                cols = set(img.getdata())
                if cols == {colour(t.coord)}:
                    delivered.append(self.tid[t.coord])
                elif self.stale and cols == {stale_colour(t.coord)}:
                    # the expired version, read before another request replaced it
                    delivered.append(self.tid[t.coord])
                    stale_delivered.append(self.tid[t.coord])
                else:
                    wrong.append((self.tid[t.coord], sorted(cols)[:3]))
            self.responses[r] = {'delivered': delivered, 'wrong': wrong,
                                 'missing': [t for t in self.wants[r] if t not in delivered]}
            self.responses[r]['stale'] = stale_delivered
            self.emit('respond', delivered=sorted(delivered), wrong=wrong, stale=stale_delivered)
        return run

    # ---- observation ----------------------------------------------------------------------------------
    def cache_tiles(self):
        """tiles present in the cache directory (any level-1 tile of the grid), with their content checked"""
        from mapproxy.cache.file import FileCache
        from mapproxy.cache.tile import Tile
        from PIL import Image
        c = FileCache(self.cache_dir, 'png')
        out, bad = [], []
        gx, gy = self.grid.grid_sizes[LEVEL]
        for y in range(gy):
            for x in range(gx):
                loc = c.tile_location(Tile((x, y, LEVEL)))
                if os.path.exists(loc):
                    if self.stale and int(os.path.getmtime(loc)) <= self.threshold:
                        continue                 # an expired tile: not cached as far as the protocol is concerned
                    name = self.tid.get((x, y, LEVEL), 'x%d_%d' % (x, y))
                    out.append(name)
                    try:
                        cols = set(Image.open(loc).convert('RGB').getdata())
                    except Exception as ex:
                        cols = {('unreadable', repr(ex)[:40])}
                    if cols != {colour((x, y, LEVEL))}:
                        bad.append(name)
        return sorted(out), bad

    def obs(self):
        tiles, bad = self.cache_tiles()
        if bad:
            self.problems.append('cache holds wrong content for %s' % bad)
        fetches = {m: 0 for m in self.tiles_of}
        for r, bbox, size in self.fetch_log:
            m = self.meta_name(bbox)
            if m in fetches:
                fetches[m] += 1
            else:
                self.problems.append('upstream asked for %s which is no meta tile' % (bbox,))
        return {'cache': tiles, 'fetches': fetches}

    def step(self, r):
        evs = self.sched.step(r)
        o = self.obs()
        for e in evs:
            e.update(o)
        t = self.sched.ts[r]
        if t.finished and t.exc is not None:
            self.problems.append('request %s raised %r' % (r, t.exc))
        return evs

    def pending(self, r):
        p = self.sched.pending(r)
        return p[0] if p else None

    def spec_consts(self, late_hit_loads, recheck=True, lock_on_main=True):
        used = set()
        for r, ts in self.wants.items():
            for t in ts:
                used |= set(self.tiles_of[self.meta_of[t]])
        return dict(Request=set(self.wants), Tile=used, MetaOf={t: self.meta_of[t] for t in used},
                    TilesOf={m: ts for m, ts in self.tiles_of.items() if set(ts) & used},
                    Wants={r: tuple(ts) for r, ts in self.wants.items()},
                    LateHitLoads=late_hit_loads, SinglePath=self.meta is None, Recheck=recheck, LockOnMain=lock_on_main)


EXPECT = {'BulkLoad': 'load_tiles', 'CheckTile': 'is_cached', 'TryLock': 'lock_try', 'RecheckTile': 'is_cached',
          'Fetch': 'fetch', 'StoreOne': 'store_tile', 'Unlock': 'unlock', 'UnlockCached': 'unlock', 'UnlockLoaded': 'unlock',
          'LoadAfter': 'load_tiles', 'LoadUnderLock': 'load_tile', 'Respond': 'respond'}


def replay_behaviour(meta, wants, beh, lenient=False, shared=False, stale=False):
    """force a TLC behaviour on real TileManagers. returns (status, detail, world)"""
    w = World(meta, wants, shared_manager=shared, stale=stale)
    try:
        n = 0
        for act, st in beh[1:]:
            name, args = parse_action(act)
            r = args[0]
            n += 1
            # the repaired code loads a tile found by is_cached after BulkLoad missed it: an extra cache call that
            # belongs to the CheckTile step
            while w.pending(r) == 'load_tile' and EXPECT[name] != 'load_tile':
                w.step(r)
            want, got = EXPECT[name], w.pending(r)
            if got != want:
                if lenient:
                    return 'not-executable', 'step %d %s: code is about to do %s' % (n, act, got), w
                return 'diverged', 'step %d %s: spec does %s, code is about to do %s' % (n, act, want, got), w
            evs = w.step(r)
            kinds = [e['ev'] for e in evs]
            if name == 'TryLock' and 'lock_ok' not in kinds:
                return ('not-executable' if lenient else 'diverged'), 'step %d %s: lock not obtained (%s)' % (n, act, kinds), w
            if w.problems:
                return 'problem', '; '.join(w.problems), w
            if lenient:
                continue
            o = w.obs()
            spec_cache = sorted(str(t) for t in st['cache'])
            spec_f = {str(m): v for m, v in st['fetches'].items()}
            if o['cache'] != spec_cache or any(o['fetches'].get(m, 0) != v for m, v in spec_f.items()):
                return 'diverged', 'step %d %s: spec cache=%s fetches=%s, real cache=%s fetches=%s' % (
                    n, act, spec_cache, spec_f, o['cache'], o['fetches']), w
            if name == 'Respond':
                exp = sorted(str(t) for t in st['resp'][r])
                if sorted(w.responses[r]['delivered']) != exp or w.responses[r]['wrong']:
                    return 'diverged', 'step %d %s: spec delivers %s, real %s' % (n, act, exp, w.responses[r]), w
        # run everybody to the end, then evaluate the property itself on the real outcome
        w.sched.finish_all(limit=3000)
        return 'ok', evaluate(w), w
    except Deadlock as ex:
        return 'problem', 'scheduler: %s' % ex, w
    finally:
        w.close()


def evaluate(w):
    """the property statement on the observed outcome: responses complete and correct, one fetch per meta tile,
    cache = tiles of the fetched meta tiles"""
    out = []
    for t in w.sched.ts.values():
        if t.exc is not None:
            out.append('request %s raised %r' % (t.name, t.exc))
    for r, resp in sorted(w.responses.items()):
        if resp['wrong']:
            out.append('response of %s has wrong content: %s' % (r, resp['wrong']))
        if resp['missing']:
            out.append('response of %s lacks %s' % (r, resp['missing']))
    o = w.obs()
    for m, k in o['fetches'].items():
        if k > 1:
            out.append('meta tile %s fetched %d times' % (m, k))
    exp = sorted(t for m, k in o['fetches'].items() if k > 0 for t in w.tiles_of[m])
    if o['cache'] != exp:
        out.append('cache holds %s, tiles of fetched meta tiles are %s' % (o['cache'], exp))
    out += w.problems
    return out


def random_schedule(rng, meta, wants, shared=False, max_steps=600, stale=False):
    w = World(meta, wants, shared_manager=shared, stale=stale)
    try:
        steps = 0
        while w.sched.runnable() and steps < max_steps:
            steps += 1
            r = rng.choice(sorted(w.sched.runnable()))
            w.step(r)
        done = not w.sched.runnable()
        trace = [{k: v for k, v in e.items()} for e in w.events]
        return trace, evaluate(w) if done else ['schedule did not finish'], w.spec_consts(True)
    finally:
        w.close()


def validate(ctx, name, consts, traces):
    d = ctx.sub('trace-' + name)
    tf = os.path.join(d, 'batch.json')
    with open(tf, 'w') as f:
        json.dump(traces, f)
    mp, cp = tlc.write_mc(d, 'Trace_TileCreate', 'MC_TT', consts, spec='TraceSpec', post='TraceAccepted',
                          invariants=['FetchOncePerMeta', 'ResponsesComplete', 'CacheOnlyFetched', 'OneCreator', 'NoCrossBlocking'])
    r = tlc.run(mp, cp, d, workers=1, coverage=False, env={'TRACE_FILE': tf}, timeout=1800)
    if r.violated and r.violated != 'postcondition' and r.trace:
        st = r.trace[-1][1]
        return r, [(st['tid'] - 1, st['l'] - 1, 'invariant %s violated in the recorded execution' % r.violated)]
    pr = tlc.find_prints(r.out, 'matched')
    if not pr:
        raise tlc.MachineryError('trace validation %s: no verdict: %s' % (name, r.out[-1500:]))
    mv = pr[-1][1]
    matched = list(mv) if isinstance(mv, tuple) else [mv[k] for k in sorted(mv)]
    return r, [(i, matched[i], 'not a behaviour of TileCreate.tla') for i in range(len(traces)) if matched[i] < len(traces[i])]


SCENARIOS = {
    # name: (meta size, wants)
    'same-tile': ((2, 1), {'r1': ['t1'], 'r2': ['t1'], 'r3': ['t2']}),
    'map-requests': ((2, 1), {'r1': ['t1', 't3'], 'r2': ['t2', 't3', 't4'], 'r3': ['t4']}),
    'no-meta': (None, {'r1': ['t1', 't2'], 'r2': ['t2'], 'r3': ['t1']}),
    'meta-2x2': ((2, 2), {'r1': ['t1'], 'r2': ['t6', 't3']}),
    # every tile is cached but expired (refresh rule): an expired tile is a missing tile for the protocol, the
    # re-check under the lock has to see the tile another request has just replaced (C13 under concurrency)
    'no-meta-expired': (None, {'r1': ['t1', 't2'], 'r2': ['t2'], 'r3': ['t1']}, True),
    'same-tile-expired': ((2, 1), {'r1': ['t1'], 'r2': ['t1'], 'r3': ['t2']}, True),
}
SCENARIOS = {k: (v + (False,))[:3] for k, v in SCENARIOS.items()}
INVS = ['FetchOncePerMeta', 'ResponsesComplete', 'FinalCacheExact', 'CacheOnlyFetched', 'OneCreator', 'NoCrossBlocking', 'NoStuck']


def run(ctx):
    thorough = ctx.tier == 'thorough'
    tlc.sany(SPEC)
    for name, (meta, wants, stale) in SCENARIOS.items():
        w0 = World(meta, wants)
        consts = w0.spec_consts(True)
        w0.close()
        # (M)
        d = ctx.sub('mc-' + name)
        mp, cp = tlc.write_mc(d, 'TileCreate', 'MC_TC', consts, invariants=INVS)
        r = tlc.run(mp, cp, d, timeout=3000)
        ctx.log('model %s: %r' % (name, r))
        if r.violated:
            ctx.violation({'kind': 'model', 'scenario': name, 'property': r.violated},
                          'TileCreate.tla (%s) violates %s' % (name, r.violated), {'trace': [a for a, _ in r.trace]})
            continue
        if not r.ok:
            raise tlc.MachineryError('TileCreate: %r %s' % (r, r.out[-1000:]))
        ctx.add_tlc('TileCreate/' + name, r)
        for a in ('BulkLoad', 'CheckTile', 'TryLock', 'RecheckTile', 'Fetch', 'StoreOne', 'Unlock', 'Respond'):
            if r.coverage.get(a, (0, 0))[0] == 0:
                raise tlc.MachineryError('vacuity: %s never taken in %s' % (a, name))
        d = ctx.sub('live-' + name)
        mp, cp = tlc.write_mc(d, 'TileCreate', 'MC_TC', consts, spec='FairSpec', properties=['Termination'])
        r = tlc.run(mp, cp, d, timeout=3000, coverage=False)
        if r.violated:
            ctx.violation({'kind': 'model-liveness', 'scenario': name}, 'TileCreate.tla (%s): Termination fails' % name,
                          {'trace': [a for a, _ in r.trace]})
        elif not r.ok:
            raise tlc.MachineryError('TileCreate liveness: %r %s' % (r, r.out[-1000:]))
        else:
            ctx.add_tlc('TileCreate/%s/liveness' % name, r)

        # (R) spec -> code
        d = ctx.sub('sim-' + name)
        mp, cp = tlc.write_mc(d, 'TileCreate', 'MC_Sim', consts)
        prefix = os.path.join(d, 'beh')
        nsim = 120 if thorough else 25
        tlc.run(mp, cp, d, workers=1, simulate='file=%s,num=%d' % (prefix, nsim), depth=80, seed=ctx.seed + 3,
                coverage=False, timeout=900)
        k = 0
        for f, beh in tlc.sim_traces(prefix):
            if len(beh) < 2:
                continue
            k += 1
            for shared in ((False, True) if (thorough or k % 5 == 0) else (False,)):
                status, detail, w = replay_behaviour(meta, wants, beh, shared=shared, stale=stale)
                ctx.cov['replayed_behaviours'] += 1
                ctx.cov['replayed_steps'] += len(beh) - 1
                ctx.count(('replay', name, shared, tuple(a for a, _ in beh)))
                if k == 1 and not shared:
                    ctx.sample({'kind': 'TLC behaviour forced on real TileManagers', 'scenario': name,
                                'actions': [a for a, _ in beh[1:]][:30], 'result': status})
                if status != 'ok':
                    ctx.violation({'kind': 'replay-' + status, 'scenario': name, 'shared_manager': shared},
                                  '%s: %s' % (name, detail), {'scenario': name, 'behaviour': [a for a, _ in beh], 'shared': shared})
                    break
                if detail:
                    ctx.violation({'kind': 'outcome', 'scenario': name, 'what': detail[0].split(' ')[0]},
                                  '%s: after a replayed behaviour: %s' % (name, '; '.join(detail)),
                                  {'scenario': name, 'behaviour': [a for a, _ in beh]})
        if k == 0:
            raise tlc.MachineryError('no behaviours for %s' % name)
        ctx.log('%s: replayed %d behaviours' % (name, k))

        # (T) code -> spec
        traces = []
        for i in range(150 if thorough else 30):
            shared = (i % 3 == 2)
            tr, problems, consts_t = random_schedule(ctx.rng, meta, wants, shared=shared, stale=stale)
            ctx.count(('sched', name, tuple((e['r'], e['ev']) for e in tr)))
            if problems:
                what = problems[0]
                cause = 'missing-tile' if 'lacks' in what else ('double-fetch' if 'fetched' in what else 'other')
                ctx.violation({'kind': 'outcome', 'cause': cause, 'meta': bool(meta)},
                              '%s: random schedule of the real code: %s' % (name, '; '.join(problems)),
                              {'scenario': name, 'trace': tr})
            traces.append(tr)
        r, rejected = validate(ctx, name, consts, traces)
        ctx.cov['traces_validated_against_impl'] += len(traces)
        ctx.cov['states'] += r.distinct
        ctx.cov['transitions'] += r.generated
        if name == 'same-tile':
            ctx.sample({'kind': 'recorded schedule validated by Trace_TileCreate',
                        'events': [(e['r'], e['ev'], e.get('tile') or e.get('meta')) for e in traces[0]][:30]})
        for i, upto, why in rejected:
            e = traces[i][min(upto, len(traces[i]) - 1)]
            ctx.violation({'kind': 'trace-rejected', 'scenario': name, 'event': e['ev']},
                          '%s: recorded schedule %s at event %d: %s' % (name, why, upto, {k: e[k] for k in e if k not in ('cache', 'fetches')}),
                          {'scenario': name, 'trace': traces[i][:upto + 1]})
        ctx.log('%s: validated %d schedules (%d rejected)' % (name, len(traces), len(rejected)))

    # (A) counterexamples of the protocol variants that the property rejects, forced on the real code
    meta, wants, _ = SCENARIOS['same-tile']
    w0 = World(meta, wants)
    for variant, kw, inv in (('late cache hit not loaded', dict(late_hit_loads=False), 'ResponsesComplete'),
                             ('no re-check under the lock', dict(late_hit_loads=True, recheck=False), 'FetchOncePerMeta'),
                             ('lock on the wanted tile', dict(late_hit_loads=True, lock_on_main=False), 'OneCreator')):
        consts = w0.spec_consts(**kw)
        d = ctx.sub('attack')
        mp, cp = tlc.write_mc(d, 'TileCreate', 'MC_TC', consts, invariants=[inv])
        r = tlc.run(mp, cp, d, timeout=600, coverage=False, workers=4)
        if r.violated != inv:
            raise tlc.MachineryError('variant "%s" should violate %s in the model: %r' % (variant, inv, r))
        status, detail, w = replay_behaviour(meta, wants, r.trace, lenient=True)
        ctx.count(('attack', variant))
        ctx.log('variant "%s" forced on the real code: %s %s' % (variant, status, detail))
        ctx.sample({'kind': 'model counterexample of a rejected protocol variant forced on the real code', 'variant': variant,
                    'actions': [a for a, _ in r.trace[1:]], 'result': status, 'detail': detail})
        if status == 'ok' and detail:
            cause = 'missing-tile' if any('lacks' in x or 'raised' in x for x in detail) else 'double-fetch'
            ctx.violation({'kind': 'outcome', 'cause': cause, 'meta': True},
                          'schedule found by TLC for "%s" reproduced on the real TileManager: %s' % (variant, '; '.join(detail)),
                          {'variant': variant, 'behaviour': [a for a, _ in r.trace]})
        elif status == 'problem':
            ctx.violation({'kind': 'problem', 'variant': variant}, detail, {'behaviour': [a for a, _ in r.trace]})
    w0.close()
    lock_names(ctx)
    ctx.assumptions += [
        'no upstream failures; the refresh threshold does not move during the requests (the *-expired scenarios start from a cache full of expired tiles; C13 covers the rule itself)',
        '"processes" are separate TileManager/FileCache/TileLocker object graphs sharing the cache and lock directories; '
        'lock exclusion itself is C07',
        'file cache backend; meta buffer 0 so that tile content is a function of the tile address',
    ]
    return ctx.finish('model_checking',
                      'TLC: all interleavings of 3 requests (2 for the 2x2 meta scenario) at the granularity of cache reads, lock '
                      'operations, upstream calls and per-tile cache writes, with and without meta tiling; distinct = distinct TLC '
                      'behaviours forced on real TileManagers plus distinct recorded schedules validated by TLC')


def lock_names(ctx):
    """LockName(r, m) of TileCreate.tla does not depend on the process: freshly started processes (different hash seeds)
    must derive the same lock file for the same meta tile of the same cache, and different files for different caches
    and meta tiles"""
    import subprocess
    import sys
    from engine.report import REPO
    base = os.path.join(ctx.sub('locknames'), 'inst')
    os.makedirs(base, exist_ok=True)
    outs = []
    for seed in ('11', '2024', 'random'):
        env = dict(os.environ, PYTHONHASHSEED=seed, PYTHONPATH=REPO)
        p = subprocess.run([sys.executable, os.path.join(os.path.dirname(os.path.abspath(__file__)), 'c08_locknames.py'), base],
                           env=env, capture_output=True, text=True, timeout=300)
        line = [ln for ln in p.stdout.splitlines() if ln.startswith('LOCKNAMES ')]
        if p.returncode != 0 or not line:
            raise tlc.MachineryError('c08_locknames failed: %s' % (p.stderr[-800:] or p.stdout[-300:]))
        outs.append(json.loads(line[-1][len('LOCKNAMES '):]))
    ctx.count(('locknames', json.dumps(outs[0], sort_keys=True)))
    ctx.sample({'kind': 'lock files derived by three freshly started processes', 'file cache': outs[0].get('file')})
    for n in sorted(outs[0]):
        if any(o.get(n) != outs[0][n] for o in outs[1:]):
            ctx.violation({'kind': 'lock-name-differs-between-processes', 'cache': n},
                          'cache %s: separately started processes derive different lock files for the same meta tiles: %s' % (
                              n, [o.get(n) for o in outs]), {'names': outs})
    # definitions of one store share its locks (LockName of TileCreate.tla names the meta tile of the STORE)
    same_store = [('shared_a', 'shared_b'), ('mbshared_a', 'mbshared_b')]
    for x, y in same_store:
        if outs[0].get(x) != outs[0].get(y):
            ctx.violation({'kind': 'lock-name-differs-between-definitions-of-one-store', 'caches': [x, y]},
                          'two cache definitions that write to the same store use different lock files for the same meta tiles '
                          '(%s: %s, %s: %s): requests through both names fetch the meta tile twice and write the same files '
                          'at the same time' % (x, outs[0].get(x), y, outs[0].get(y)), {'names': outs[0]})
    alias = {y: x for x, y in same_store}
    flat = [(alias.get(n, n), i, v) for n, vs in outs[0].items() for i, v in enumerate(vs) if n not in alias]
    for a in flat:
        for b in flat:
            if a < b and a[2] == b[2] and (a[0] != b[0] or a[1] != b[1]) and not (a[0] != b[0] and False):
                if a[0] == b[0]:
                    # (0,0,1) and (1,1,1) are tiles of one 2x2 meta tile: one lock; (3,2,2) is another meta tile
                    if {a[1], b[1]} == {0, 1}:
                        continue
                ctx.violation({'kind': 'lock-name-shared', 'caches': sorted({a[0], b[0]})},
                              'lock file %s is used for %s tile #%d and %s tile #%d' % (a[2], a[0], a[1], b[0], b[1]), {'names': outs[0]})
    for n, vs in outs[0].items():
        if vs[0] != vs[1]:
            ctx.violation({'kind': 'lock-name-per-tile', 'cache': n}, 'cache %s: two tiles of one meta tile use different locks %s' % (n, vs[:2]),
                          {'names': outs[0]})
        if not all(v.startswith('tile_locks' + os.sep) for v in vs):
            raise tlc.MachineryError('lock files outside tile_lock_dir? %r' % (vs,))


def replay(ctx, data):
    case = data.get('case') or {}
    if 'behaviour' in case and case.get('scenario') in SCENARIOS:
        meta, wants, stale = SCENARIOS[case['scenario']]
        beh = [(a, {}) for a in case['behaviour']]
        status, detail, w = replay_behaviour(meta, wants, beh, lenient=True, stale=stale)
        print('replay:', status, detail)
        return 1 if (status == 'ok' and detail) or status == 'problem' else 0
    return 0
