"""C06 - a crash while storing never leaves a corrupt or foreign tile visible.

spec/FsCrash.tla models the writer programs (write_atomic, single-colour link replacement, bundle append then
index) with a Crash after any step and torn writes, and the readers; TLC checks CrashSafe.  Binding: the raw
system-call sequence of every real store is recorded with strace (engine/fsrec.py); (T) abstracted to the
steps of the model it must be a behaviour of the writer program (Trace_FsCrash.tla); (R, fault enumeration)
for EVERY prefix of the recorded sequence and every torn variant of the write in flight, the post-crash
directory is materialised from a snapshot and read back through a fresh cache object: each address must
return its previous content or the complete new content (or be missing where the property allows it).
"""
import io
import json
import os
import shutil
import sys
import tempfile

from engine import tlc, fsrec
from harness import backends as B

SPEC = os.path.join(tlc.SPEC_DIR, 'FsCrash.tla')
TRACE_SPEC = os.path.join(tlc.SPEC_DIR, 'trace', 'Trace_FsCrash.tla')
HERE = os.path.dirname(os.path.abspath(__file__))

# straddling slot for V1: index entry at 16 + 5*(x*128+y) crosses a 512-byte boundary 2|3
STRADDLE_V1 = None


def _straddlers():
    out = []
    for x in range(128):
        for y in range(128):
            p = 16 + (x * 128 + y) * 5
            if p // 512 != (p + 4) // 512:
                out.append((x, y, (p // 512 + 1) * 512 - p))
    return out


def plan_cases(tier):
    cases = []

    def tile(backend, prior, batch, tag):
        cases.append({'kind': 'tile', 'backend': backend, 'prior': prior, 'batch': batch,
                      'id': '%s-%s' % (backend, tag)})

    A, Bc, C = [5, 3, 4], [6, 3, 4], [7, 3, 4]
    for layout in (['file-tc', 'file-quadkey'] if tier == 'quick' else
                   ['file-tc', 'file-mp', 'file-tms', 'file-reverse_tms', 'file-quadkey', 'file-arcgis']):
        tile(layout, [], [[A, 'b1']], 'new')
        tile(layout, [[A, 'b1'], [Bc, 'b3']], [[A, 'b2']], 'overwrite')
        tile(layout, [[Bc, 'b3']], [[A, 'b1'], [C, 'b2']], 'batch')
    for link in ('file-tc-symlink', 'file-tc-hardlink'):
        tile(link, [], [[A, 's1']], 'first-colour')
        tile(link, [[Bc, 's1']], [[A, 's1']], 'second-of-colour')
        tile(link, [[A, 'b1'], [Bc, 's1']], [[A, 's1']], 'regular-to-link')
        tile(link, [[A, 's1'], [Bc, 's1']], [[A, 'b2']], 'link-to-regular')
        tile(link, [[A, 's1'], [Bc, 's1']], [[A, 's2']], 'link-to-other-colour')
        tile(link, [[A, 's1']], [[A, 's1'], [Bc, 'b1'], [C, 's2']], 'batch')
    sx = [(x, y, cut) for x, y, cut in _straddlers()]
    s23 = [s for s in sx if s[2] == 2][0]
    s32 = [s for s in sx if s[2] == 3][0]
    S1, S2 = [s23[0], s23[1], 8], [s32[0], s32[1], 8]
    for v in ('compact-v1', 'compact-v2'):
        tile(v, [], [[A, 'b1']], 'new-bundle')
        tile(v, [[Bc, 'b3']], [[A, 'b1']], 'new-slot')
        tile(v, [[A, 'b1'], [Bc, 'b3']], [[A, 'b2']], 'overwrite')
        tile(v, [[A, 'b1'], [Bc, 'b3']], [[A, 'b2'], [C, 'b1']], 'batch')
        tile(v, [[S1, 'b1'], [S2, 'b2'], [Bc, 'b3'], [[9, 9, 8], 'b3']], [[S1, 'b2'], [S2, 'b1']], 'straddle')
        if tier == 'thorough':
            tile(v, [[A, 'b1'], [Bc, 'b3'], [C, 'b2']], [[A, 'b2'], [Bc, 'b1'], [C, 'b3']], 'batch3')
            tile(v, [[[127, 5, 8], 'b1']], [[[128, 5, 8], 'b2'], [[127, 5, 8], 'b3']], 'two-bundles')
    cases.append({'kind': 'legend', 'prior': None, 'new': 'b1', 'id': 'legend-new'})
    cases.append({'kind': 'legend', 'prior': 'b2', 'new': 'b1', 'id': 'legend-overwrite'})
    cases.append({'kind': 'progress', 'prior': None, 'new': [[0, 1], [1, 4]], 'id': 'progress-new'})
    cases.append({'kind': 'progress', 'prior': [[0, 1]], 'new': [[0, 1], [2, 4], [1, 4]], 'id': 'progress-overwrite'})
    return cases


# ---- readers ---------------------------------------------------------------------------------------------
def read_state(case, d, bks):
    """what a fresh reader sees in directory d: {address-key: bytes|None|('EXC', text)}"""
    out = {}
    if case['kind'] == 'tile':
        b = bks[case['backend']]
        b.dir = d
        addrs = {tuple(a) for a, _ in case['prior']} | {tuple(a) for a, _ in case['batch']}
        for a in sorted(addrs):
            c = b.new()
            try:
                out[a] = B.op_load(c, a + (None,))
            except Exception as ex:
                out[a] = ('EXC', repr(ex)[:200])
            finally:
                B.cleanup(c)
        b.dir = None
    elif case['kind'] == 'legend':
        from mapproxy.cache.legend import LegendCache, Legend
        lc = LegendCache(os.path.join(d, 'legends'), 'png')
        leg = Legend(id='leg', scale=None)
        try:
            if lc.load(leg):
                buf = leg.source.as_buffer()
                out['legend'] = buf.read()
            else:
                out['legend'] = None
        except Exception as ex:
            out['legend'] = ('EXC', repr(ex)[:200])
    else:
        from mapproxy.seed.util import ProgressStore
        fn = os.path.join(d, 'progress', 'seed.progress')
        try:
            out['progress'] = repr(ProgressStore(fn, continue_seed=True).status).encode()
            if out['progress'] == b'{}':
                out['progress'] = None
        except Exception as ex:
            out['progress'] = ('EXC', repr(ex)[:200])
    return out


RECOVERY_ADDR = (9, 3, 4)


DRIVER_PID = [None]          # process id of the process whose stores were recorded (and cut short)


def retry_store(case, d, bks):
    """the restarted process (the same pid, as for a service in a container) stores the tiles of the interrupted batch again,
    with a smaller image this time, on the post-crash directory d (with whatever the crash left there - temporary files
    included), and reads them back: {address: bytes read}"""
    b = bks[case['backend']]
    out = {}
    real_getpid = os.getpid
    if DRIVER_PID[0] is None:
        raise tlc.MachineryError('the recorded process did not tell its process id')
    os.getpid = lambda: DRIVER_PID[0]
    try:
        for a, _p in case['batch']:
            addr = tuple(a)
            b.dir = d
            c = b.new()
            try:
                try:
                    B.op_store(c, addr + (None,), B.payload('s2'))
                    out[addr] = B.op_load(c, addr + (None,))
                except Exception as ex:
                    out[addr] = ('EXC', repr(ex)[:200])
            finally:
                B.cleanup(c)
                b.dir = None
    finally:
        os.getpid = real_getpid
    return out


def recovery_store(case, d, bks):
    """store one more tile through the real code on the post-crash directory d, then read everything back"""
    b = bks[case['backend']]
    b.dir = d
    c = b.new()
    try:
        addr = RECOVERY_ADDR
        # keep it in the bundle of the batch for compact caches (same level, same 128x128 block)
        a0 = tuple(case['batch'][0][0])
        if case['backend'].startswith('compact'):
            addr = (a0[0] // 128 * 128 + 9, a0[1] // 128 * 128 + 3, a0[2])
        try:
            B.op_store(c, addr + (None,), B.payload('b3'))
        except Exception as ex:
            return {RECOVERY_ADDR: ('EXC', repr(ex)[:200])}
    finally:
        B.cleanup(c)
        b.dir = None
    out = read_state(case, d, bks)
    b.dir = d
    c = b.new()
    try:
        out[RECOVERY_ADDR] = B.op_load(c, addr + (None,))
    except Exception as ex:
        out[RECOVERY_ADDR] = ('EXC', repr(ex)[:200])
    finally:
        B.cleanup(c)
        b.dir = None
    return out


def is_single(p):
    return p.startswith('s')


def may_be_missing(case, key, old):
    if old is None:
        return True
    if case['kind'] == 'tile' and 'link' in case['backend']:
        newp = dict((tuple(a), p) for a, p in case['batch']).get(key)
        oldp = dict((tuple(a), p) for a, p in case['prior']).get(key)
        return (newp is not None and is_single(newp)) or (oldp is not None and is_single(oldp))
    return False


def describe(v):
    if v is None:
        return 'missing'
    if isinstance(v, tuple):
        return 'reader raised %s' % v[1]
    n = B.name_of(v, ['b1', 'b2', 'b3', 's1', 's2'])
    return n if not n.startswith('foreign') else 'garbage(%d bytes)' % len(v)


# ---- abstraction of the raw ops to model events -----------------------------------------------------------
def abstract_events(case, ops, pre_dir, root):
    """returns (mechanism, slots, oldstate, events) for Trace_FsCrash, or None if the case has no model counterpart"""
    kind = case['kind']
    rel = [o for o in ops if o['op'] in ('open', 'write', 'rename', 'unlink', 'link', 'symlink', 'truncate')
           and not o.get('path', o.get('dst', '')).endswith('.lck')]
    if kind in ('legend', 'progress') or (kind == 'tile' and case['backend'].startswith('file')):
        if kind == 'tile' and len(case['batch']) != 1:
            return None
        mech = 'atomic'
        old = 'none'
        shared_init = 'absent'
        if kind == 'tile':
            a, newp = tuple(case['batch'][0][0]), case['batch'][0][1]
            prior = dict((tuple(x), p) for x, p in case['prior'])
            links = 'link' in case['backend']
            if a in prior:
                old = 'oldlink' if (links and is_single(prior[a])) else 'old'
            if links and is_single(newp):
                mech = 'link'
            elif old == 'oldlink' and 'symlink' in case['backend']:
                mech = 'relink'            # _store unlinks a SYMLINK first; a hardlink is replaced by the rename
            elif old == 'oldlink':
                old = 'old'
            if mech == 'link':
                colour_known = any(p == newp for _, p in case['prior'])
                shared_init = 'complete' if colour_known else 'absent'
        else:
            old = 'old' if case['prior'] else 'none'
        ev = []
        seen_shared = seen_unlink = False
        for o in rel:
            p = o.get('path') or o.get('dst')
            is_tmp = '.tmp-' in os.path.basename(o.get('path', '') or '')
            shared_file = 'single_color_tiles' in p
            if o['op'] == 'open' and is_tmp:
                ev.append({'ev': 'meta' if shared_file else 'create_tmp'})
            elif o['op'] == 'write' and is_tmp:
                ev.append({'ev': 'meta' if shared_file else 'write_tmp'})
            elif o['op'] == 'rename':
                if shared_file:
                    ev.append({'ev': 'shared'})
                    seen_shared = True
                else:
                    ev.append({'ev': 'rename'})
            elif o['op'] == 'unlink':
                if mech == 'link':
                    if not seen_shared:
                        ev.append({'ev': 'skip_shared'})
                        seen_shared = True
                    seen_unlink = True
                ev.append({'ev': 'unlink'})
            elif o['op'] in ('link', 'symlink'):
                if not seen_shared:
                    ev.append({'ev': 'skip_shared'})
                    seen_shared = True
                if not seen_unlink:
                    ev.append({'ev': 'skip_unlink'})
                ev.append({'ev': 'link'})
            else:
                ev.append({'ev': 'other:%s' % o['op']})
        return mech, ('t',), {'t': old}, ev, set(), shared_init
    # bundles
    v1 = case['backend'] == 'compact-v1'
    init = 60 + 65536 if v1 else 64 + 131072
    batch = [tuple(a) for a, _ in case['batch']]
    if len({(a[0] // 128, a[1] // 128, a[2]) for a in batch}) != 1:
        return None
    prior = dict((tuple(x), p) for x, p in case['prior'])
    slots = tuple('s%d' % i for i in range(len(batch)))
    lens = [len(B.payload(p)) + 4 for _, p in case['batch']]
    idx_off = {}
    straddle = set()
    for i, a in enumerate(batch):
        x, y = a[0] % 128, a[1] % 128
        if v1:
            off = 16 + (x * 128 + y) * 5
            if off // 512 != (off + 4) // 512:
                straddle.add(slots[i])
            idx_off[slots[i]] = (off, 5)
        else:
            idx_off[slots[i]] = (64 + (x + 128 * y) * 8, 8)
    ev = []
    appended = 0
    k = 0
    for o in rel:
        p = o.get('path') or o.get('dst')
        base = os.path.basename(p)
        if o['op'] == 'write' and base.endswith('.bundle') and o['off'] is not None and o['off'] >= init:
            appended += len(o['data'])
            emitted = False
            while k < len(lens) and appended >= sum(lens[:k + 1]):
                ev.append({'ev': 'append', 'slot': slots[k]})
                k += 1
                emitted = True
            if not emitted:
                ev.append({'ev': 'meta'})
        elif o['op'] == 'write' and ((v1 and base.endswith('.bundlx')) or (not v1 and base.endswith('.bundle'))):
            hit = [s for s in slots if o['off'] is not None and o['off'] <= idx_off[s][0]
                   and o['off'] + len(o['data']) >= idx_off[s][0] + idx_off[s][1]
                   and o.get('changes', {}).get(s, True)]
            if '.tmp-' in base:
                ev.append({'ev': 'meta'})
            elif hit:
                for s in hit:
                    ev.append({'ev': 'index', 'slot': s})
            else:
                ev.append({'ev': 'meta'})
        else:
            ev.append({'ev': 'meta'})
    old = {slots[i]: ('old' if batch[i] in prior else 'none') for i in range(len(batch))}
    return 'bundle', slots, old, ev, straddle, 'absent'


def run_trace(ctx, cid, mech, slots, old, straddle, ev, shared_init='absent'):
    d = ctx.sub('tr-' + cid)
    tf = os.path.join(d, 'trace.json')
    with open(tf, 'w') as f:
        json.dump(ev, f)
    mp, cp = tlc.write_mc(d, 'Trace_FsCrash', 'MC_TF',
                          dict(Mechanism=mech, Slots=slots, OldState=old, SharedInit=shared_init, Straddle=set(), IndexFirst=False),
                          spec='TraceSpec', post='TraceAccepted', invariants=['CrashSafe', 'TraceFinished'])
    r = tlc.run(mp, cp, d, workers=1, coverage=False, env={'TRACE_FILE': tf}, timeout=300)
    shutil.rmtree(d, ignore_errors=True)
    return r


def model_checks(ctx):
    tlc.sany(SPEC)
    cases = [('atomic', ('t',), {'t': 'none'}, set()), ('atomic', ('t',), {'t': 'old'}, set()),
             ('relink', ('t',), {'t': 'oldlink'}, set()),
             ('link', ('t',), {'t': 'none'}, set()), ('link', ('t',), {'t': 'old'}, set()),
             ('link', ('t',), {'t': 'oldlink'}, set()),
             ('bundle', ('s1',), {'s1': 'none'}, set()), ('bundle', ('s1', 's2'), {'s1': 'old', 's2': 'none'}, set()),
             ('bundle', ('s1', 's2', 's3'), {'s1': 'old', 's2': 'none', 's3': 'old'}, set())]
    for mech, slots, old, strad in cases:
      for sh in (('absent', 'complete') if mech == 'link' else ('absent',)):
        d = ctx.sub('mc')
        mp, cp = tlc.write_mc(d, 'FsCrash', 'MC_FsCrash',
                              dict(Mechanism=mech, Slots=slots, OldState=old, SharedInit=sh, Straddle=strad, IndexFirst=False),
                              invariants=['CrashSafe', 'Durable'])
        r = tlc.run(mp, cp, d, workers=2, timeout=300)
        if r.violated:
            ctx.violation({'kind': 'model', 'mechanism': mech, 'property': r.violated},
                          'FsCrash.tla (%s, %s) violates %s' % (mech, old, r.violated), {'trace': [a for a, _ in r.trace]})
        elif not r.ok:
            raise tlc.MachineryError('FsCrash: %r %s' % (r, r.out[-800:]))
        else:
            ctx.add_tlc('FsCrash/%s/%s' % (mech, ''.join(sorted(old.values()))), r)
    # the two ways the model says a bundle writer can be unsafe (used as oracles for what the enumeration finds)
    for name, strad, ixf in (('straddling V1 index entry', {'s1'}, False), ('index before record', set(), True)):
        d = ctx.sub('mc')
        mp, cp = tlc.write_mc(d, 'FsCrash', 'MC_FsCrash',
                              dict(Mechanism='bundle', Slots=('s1',), OldState={'s1': 'old'}, SharedInit='absent', Straddle=strad, IndexFirst=ixf),
                              invariants=['CrashSafe'])
        r = tlc.run(mp, cp, d, workers=2, timeout=300, coverage=False)
        if r.violated != 'CrashSafe':
            raise tlc.MachineryError('model should find %s unsafe: %r' % (name, r))


def run(ctx):
    thorough = ctx.tier == 'thorough'
    model_checks(ctx)
    bks = {b.name: b for b in B.all_backends()}
    cases = plan_cases(ctx.tier)
    root = tempfile.mkdtemp(prefix='verif-c06-')
    try:
        for c in cases:
            c['dir'] = os.path.join(root, c['id'])
            os.makedirs(c['dir'])
        planf = os.path.join(root, 'plan.json')
        with open(planf, 'w') as f:
            json.dump(cases, f)
        env = {'PYTHONPATH': os.environ.get('PYTHONPATH', ''), 'PYTHONHASHSEED': '0'}
        ops, out = fsrec.record([sys.executable, os.path.join(HERE, 'c06_driver.py'), planf], root, env=env,
                                interesting=lambda p: p.startswith(root))
        if any(o['op'] == 'unparsed' for o in ops):
            raise tlc.MachineryError('strace output not fully parsed: %r' % [o for o in ops if o['op'] == 'unparsed'][:2])
        # split by markers
        per = {}
        cur = None
        for o in ops:
            if o['op'] == 'mark' and o['n'].startswith('pid-'):
                DRIVER_PID[0] = int(o['n'][4:])
                continue
            if o['op'] == 'mark':
                cur = o['n'][:-2] if o['n'].endswith('-b') else None
                if cur:
                    per[cur] = []
            elif cur is not None:
                per[cur].append(o)
        ncrash = 0
        for c in cases:
            cid = c['id']
            cops = per.get(cid)
            if not cops:
                raise tlc.MachineryError('no operations recorded for case %s' % cid)
            pre = c['dir'] + '.pre'
            old = read_state(c, pre, bks)
            scratch = os.path.join(root, 'scratch')

            def materialise(prefix):
                shutil.rmtree(scratch, ignore_errors=True)
                shutil.copytree(pre, scratch, symlinks=True)
                fsrec.apply_ops(prefix, lambda p: scratch + p[len(c['dir']):] if p.startswith(c['dir']) else p)

            materialise(cops)
            new = read_state(c, scratch, bks)
            # the finished store is visible and complete
            for key in new:
                exp = None
                if c['kind'] == 'tile':
                    bd = dict((tuple(a), p) for a, p in c['batch'])
                    if key in bd:
                        exp = B.payload(bd[key])
                        if new[key] != exp:
                            ctx.violation({'kind': 'finished-store', 'case': cid},
                                          '%s: after the complete store %s reads %s' % (cid, key, describe(new[key])),
                                          {'case': c})
            # annotate index writes with "does it change the entry" for the abstraction, then validate the sequence
            ab = abstract_events(c, cops, pre, root)
            if ab is not None:
                mech, slots, oldst, ev, straddle, shared_init = ab
                r = run_trace(ctx, cid, mech, slots, oldst, straddle, ev, shared_init)
                ctx.cov['traces_validated_against_impl'] += 1
                ctx.cov['states'] += r.distinct
                ctx.cov['transitions'] += r.generated
                if not r.ok:
                    ctx.violation({'kind': 'trace-rejected', 'case': cid, 'mechanism': mech},
                                  '%s: recorded operation sequence %s is not a behaviour of the %s writer of FsCrash.tla (%s)' % (
                                      cid, [e['ev'] + (':' + e['slot'] if 'slot' in e else '') for e in ev], mech,
                                      r.violated or r.error),
                                  {'case': c, 'events': ev})
            # fault enumeration: every prefix + torn variants of the write in flight
            for k in range(len(cops) + 1):
                variants = [(cops[:k], 'after %d of %d operations' % (k, len(cops)), None)]
                if k < len(cops) and cops[k]['op'] == 'write':
                    materialise(cops[:k])
                    p = cops[k]['path']
                    sp = scratch + p[len(c['dir']):]
                    size_before = os.path.getsize(sp) if os.path.exists(sp) else 0
                    for tv in fsrec.torn_variants(cops[k], size_before):
                        variants.append((cops[:k] + [tv], 'torn write #%d (%d of %d bytes at %s of %s)' % (
                            k, tv['torn'], len(cops[k]['data']), cops[k]['off'], os.path.basename(p)), tv))
                for prefix, what, tv in variants:
                    materialise(prefix)
                    got = read_state(c, scratch, bks)
                    ncrash += 1
                    ctx.count(('crash', cid, what))
                    checks = [('', got)]
                    # recovery: the restarted process stores one more tile (same bundle / directory) through the real
                    # code on top of the post-crash files; nothing that was readable may change by that
                    if c['kind'] == 'tile' and prefix:
                        rec = recovery_store(c, scratch, bks)
                        if rec is not None:
                            checks.append((' and after a further store of another tile', rec))
                        retry = retry_store(c, scratch, bks)
                        for addr, v in retry.items():
                            if v != B.payload('s2'):
                                ctx.violation({'kind': 'retry-store', 'backend': c['backend']},
                                              '%s: crash %s: the restarted process stores tile %s again (a smaller image): it reads %s' % (
                                                  cid, what, list(addr), describe(v)), {'case': c})
                    for suffix, got in checks:
                      for key, v in got.items():
                        if key == RECOVERY_ADDR:
                            if v != B.payload('b3'):
                                ctx.violation({'kind': 'recovery-store', 'backend': c['backend']},
                                              '%s: crash %s: a tile stored after the restart reads %s' % (cid, what, describe(v)), {'case': c})
                            continue
                        in_batch = c['kind'] != 'tile' or key in {tuple(a) for a, _ in c['batch']}
                        allowed = [old[key]] + ([new[key]] if in_batch else [])
                        if v is None and in_batch and may_be_missing(c, key, old[key]):
                            continue
                        if isinstance(v, tuple) or not any(v == a for a in allowed):
                            cause = 'reader-exception' if isinstance(v, tuple) else ('missing' if v is None else 'garbage')
                            sig = {'kind': 'crash-state', 'backend': c.get('backend', c['kind']), 'cause': cause,
                                   'torn': tv is not None, 'after_recovery_store': bool(suffix),
                                   'file': os.path.basename(prefix[-1].get('path', prefix[-1].get('dst', ''))).split('.')[-1].split('-')[0] if prefix else ''}
                            ctx.violation(sig, '%s: crash %s%s: address %s reads %s (before: %s, new: %s)' % (
                                cid, what, suffix, key, describe(v), describe(old[key]), describe(new[key])),
                                {'case': c, 'prefix_len': len(prefix), 'torn': tv['torn'] if tv else None})
            ctx.cov['replayed_behaviours'] += 1
            ctx.cov['replayed_steps'] += len(cops)
            if len(ctx.cov['samples']) < 4:
                ctx.sample({'case': cid, 'recorded_ops': [
                    (o['op'], os.path.basename(o.get('path', o.get('dst', ''))), o.get('off'), len(o.get('data', b'')))
                    for o in cops][:14]})
        ctx.log('%d cases, %d crash states materialised and read back' % (len(cases), ncrash))
    finally:
        shutil.rmtree(root, ignore_errors=True)
    ctx.assumptions += [
        'crash = the process dies: a prefix of the issued system calls is applied (no reordering by the page cache, no '
        'directory-entry durability issues)',
        'torn-write model: an appending write persists any byte prefix (sampled at 1, 3, 4, n/2, n-1 bytes); an in-place '
        'overwrite persists a prefix of the 512-byte sectors it touches',
        'missing is accepted when the address had nothing before, or when the store replaces or creates a linked '
        'single-colour tile (unlink-then-link window named in the property)',
    ]
    return ctx.finish('fault_enumeration',
                      'every prefix of the strace-recorded system-call sequence of each store plus torn variants of the write in '
                      'flight, for the planned stores (file layouts, symlink/hardlink single-colour, compact v1/v2 incl. slots whose '
                      'V1 index entry straddles a sector, legend cache, seed progress); distinct = distinct (case, crash point)',
                      exhaustive=True)


def replay(ctx, data):
    print('C06 cases are re-recorded with strace on every run; rerun ./check C06 (case: %s)' % (data.get('case') or {}).get('case', {}).get('id'))
    return 0
