"""C12 - cleanup removes exactly the expired tiles it was asked to remove.

spec/Cleanup.tla models mapproxy-seed's cleanup as the code performs it (configuration -> strategy choice ->
directory walk per level | backend bulk delete per level | tile walk with a worker pool) on an integer
lattice world; everything backend specific is a record of features MEASURED on the real cache object.
TLC checks the post-condition (MustGo removed, MustStay kept, no crash) exhaustively for every backend
feature class, all contents of a few tiles, all level selections / modes / coverages.

spec -> code: TLC behaviours (simulation) are executed on the real caches with the real cleanup(); strategy,
every per-level step and the final listing are compared with the spec's states (modulo the tiles the
property leaves free).  TLC counterexamples are re-executed on the real caches before anything is reported.
code -> spec: a systematic family (every content of at most one tile x every task) and seeded random bigger
contents are executed, one event per spec action is recorded by interposition (module level names of
mapproxy.seed.cleanup, instance attributes of the cache) and the batch is validated by TLC against
spec/trace/Trace_Cleanup.tla, which also evaluates the invariants on every recorded state.
"""
import contextlib
import io
import itertools
import json
import os
import queue as _queue
import re
import shutil
import threading
import time as _time
from concurrent.futures import ThreadPoolExecutor

from engine import tlc, tla
from harness import backends as B

SPEC = os.path.join(tlc.SPEC_DIR, 'Cleanup.tla')

# ------------------------------------------------------------------------------------------------
# the lattice world
# ------------------------------------------------------------------------------------------------
T0 = 1000000000                       # threshold of every remove_before task: 2001-09-09T01:46:40Z
T0_ISO = '2001-09-09T01:46:40'
LATER_ISO = '2001-09-09T03:46:40'      # T0 + 7200: threshold of the cache's own refresh_before rule (option refresh)
UNIT = 64                             # one lattice unit in map units
WORLD = 16                            # the grid bbox is [0, 0, 16, 16] lattice units
RES = [2048, 1024, 512, 256, 128, 64, 32, 16, 8, 4, 2, 1, 0.5]     # levels 0..12, 256 px tiles
META = 2
GRID_N = {z: max(1, int(round(WORLD * UNIT / (256 * RES[z])))) for z in range(len(RES))}
SPAN = {z: int(256 * RES[z] / UNIT) for z in range(len(RES))}
JUNK = ['j_root', 'j_out']

SMALL = dict(
    name='small',
    levels=[1, 10, 11],               # a one-digit level whose number is a prefix of the two-digit ones
    addr=[(0, 0, 1), (0, 0, 10), (1, 1, 10), (0, 0, 11), (1, 0, 11), (3, 3, 11)],
    covs={'cA': [(1, 1, 5, 5)],                       # inside one meta tile of level 11, edges inside tiles
          'cB': [(8, 8, 16, 16)],                     # edges on meta tile borders: neighbours only touch
          'cL': [(0, 0, 4, 16), (0, 12, 16, 16)],     # L-shaped union (geometry coverage)
          # an L whose bounding box is the whole grid and whose arms end three units beside the meta tile of (0, 0, 11):
          # nearer than the meta buffer of the cache
          'cN': [(11, 0, 16, 16), (0, 13, 16, 16)]},
)


def _all_tiles(levels):
    return [(x, y, z) for z in levels for y in range(GRID_N[z]) for x in range(GRID_N[z])]


BIG = dict(
    name='big',
    levels=[1, 8, 9, 10, 11, 12],
    addr=_all_tiles([1, 8, 9, 10, 11]) + [(x, y, 12) for x, y in ((0, 0), (1, 1), (2, 5), (3, 4), (7, 7), (6, 1), (4, 4), (5, 2))],
    covs=None,                                        # drawn per run
)


def main_tile(a):
    m = min(META, GRID_N[a[2]])
    return (a[0] // m * m, a[1] // m * m, a[2])


def meta_rect(m):
    k = min(META, GRID_N[m[2]])
    s = SPAN[m[2]]
    return (m[0] * s, m[1] * s, (m[0] + k) * s, (m[1] + k) * s)


def _open_meet(r, s):
    return r[0] < s[2] and s[0] < r[2] and r[1] < s[3] and s[1] < r[3]


def _closed_meet(r, s):
    return r[0] <= s[2] and s[0] <= r[2] and r[1] <= s[3] and s[1] <= r[3]


def cov_relation(a, cov, covs):
    """'in' | 'touch' | 'out' for the meta tile of address a"""
    if cov == 'full':
        return 'in'
    r = meta_rect(main_tile(a))
    if any(_open_meet(r, c) for c in covs[cov]):
        return 'in'
    if any(_closed_meet(r, c) for c in covs[cov]):
        return 'touch'
    return 'out'


def time_of(cls, variant, fractional):
    """a concrete modification time of the class relative to T0"""
    if cls == 'before':
        opts = [T0 - 86400, T0 - 1] + ([T0 - 0.25] if fractional else [])
    elif cls == 'same':
        opts = [T0] + ([T0 + 0.5] if fractional else [])
    else:
        opts = [T0 + 1, T0 + 3600]
    return opts[variant % len(opts)]


def class_of(ts):
    s = int(ts)
    return 'before' if s < T0 else ('same' if s == T0 else 'after')


# ------------------------------------------------------------------------------------------------
# real backends on the lattice grid
# ------------------------------------------------------------------------------------------------
class _FakeTime(object):
    """stands in for the `time` module of a mapproxy module: time() answers a fixed instant"""

    def __init__(self, now):
        self.now = now

    def time(self):
        return self.now

    def __getattr__(self, name):
        return getattr(_time, name)


@contextlib.contextmanager
def patched(obj, name, value):
    old = getattr(obj, name)
    setattr(obj, name, value)
    try:
        yield
    finally:
        setattr(obj, name, old)


_GRID = None


def lattice_grid():
    global _GRID
    if _GRID is None:
        from mapproxy.grid import tile_grid
        _GRID = tile_grid(srs='EPSG:3857', bbox=[0, 0, WORLD * UNIT, WORLD * UNIT], res=RES, origin='ll',
                          tile_size=(256, 256), name='lat')
    return _GRID


class Backend(object):
    def __init__(self, name, kind, make, fractional=False, links=False):
        self.name = name
        self.kind = kind            # 'file' | 'sqlite' | 'plain' (how a modification time can be given)
        self.make = make            # directory -> cache object
        self.fractional = fractional
        self.links = links

    def store(self, cache, a, ts, payload):
        """store tile a through the cache API so that its modification time is ts"""
        if self.kind == 'sqlite':
            import mapproxy.cache.mbtiles as M
            with patched(M, 'time', _FakeTime(ts)):
                B.op_store(cache, a + (None,), payload)
        else:
            B.op_store(cache, a + (None,), payload)
            if self.kind == 'file':
                from mapproxy.cache.tile import Tile
                os.utime(cache.tile_location(Tile(a)), (ts, ts), follow_symlinks=False)

    def junk_path(self, d, j):
        if j == 'j_out':
            return os.path.join(d, 'c.old', '01', 'keep.png')
        if self.name in ('mbtiles', 'mbtiles-ts', 'geopackage'):
            return os.path.join(d, 'zz_notes.txt')        # next to the database file
        return os.path.join(d, 'c', 'zz_notes.txt')        # in the root of the cache directory


def all_backends():
    from mapproxy.cache.file import FileCache
    from mapproxy.cache.mbtiles import MBTilesCache, MBTilesLevelCache
    from mapproxy.cache.geopackage import GeopackageCache, GeopackageLevelCache
    from mapproxy.cache.compact import CompactCacheV1, CompactCacheV2
    bs = []
    for layout in ('tc', 'mp', 'tms', 'reverse_tms', 'quadkey', 'arcgis'):
        bs.append(Backend('file-' + layout, 'file',
                          lambda d, layout=layout: FileCache(os.path.join(d, 'c'), 'png', directory_layout=layout),
                          fractional=True))
    bs.append(Backend('file-tc-symlink', 'file',
                      lambda d: FileCache(os.path.join(d, 'c'), 'png', link_single_color_images=True),
                      fractional=True, links=True))
    bs.append(Backend('mbtiles', 'plain', lambda d: MBTilesCache(os.path.join(d, 'c.mbtiles'))))
    bs.append(Backend('mbtiles-ts', 'sqlite', lambda d: MBTilesCache(os.path.join(d, 'c.mbtiles'), with_timestamps=True)))
    bs.append(Backend('sqlite-level', 'sqlite', lambda d: MBTilesLevelCache(os.path.join(d, 'c'))))
    bs.append(Backend('geopackage', 'plain', lambda d: GeopackageCache(os.path.join(d, 'c.gpkg'), lattice_grid(), 'tiles')))
    bs.append(Backend('geopackage-level', 'plain', lambda d: GeopackageLevelCache(os.path.join(d, 'c'), lattice_grid(), 'tiles')))
    bs.append(Backend('compact-v1', 'plain', lambda d: CompactCacheV1(os.path.join(d, 'c'))))
    bs.append(Backend('compact-v2', 'plain', lambda d: CompactCacheV2(os.path.join(d, 'c'))))
    return bs


def payload_for(bk, a):
    if bk.links and (a[0] + a[1] + a[2]) % 2 == 0:
        return 's%d' % (a[0] + a[1] + a[2])              # single colour tile: stored as a link
    return 'b%d' % (1 + (a[0] * 7 + a[1] * 3 + a[2]) % 8)


_ROOT = {}


def real_root(ctx):
    """directory of the real caches: memory backed if possible (sqlite syncs every commit), removed by run()"""
    if ctx.workdir not in _ROOT:
        import tempfile
        if os.path.isdir('/dev/shm') and os.access('/dev/shm', os.W_OK):
            _ROOT[ctx.workdir] = tempfile.mkdtemp(prefix='verif-c12-', dir='/dev/shm')
        else:
            _ROOT[ctx.workdir] = ctx.sub('real')
    return _ROOT[ctx.workdir]


def drop_root(ctx):
    d = _ROOT.pop(ctx.workdir, None)
    if d:
        shutil.rmtree(d, ignore_errors=True)


class Site(object):
    """One real backend on a private directory, with a loaded MapProxy configuration around it."""

    def __init__(self, ctx, bk, tag=''):
        self.bk = bk
        self.dir = os.path.join(real_root(ctx), bk.name + tag)
        shutil.rmtree(self.dir, ignore_errors=True)
        os.makedirs(self.dir)
        from mapproxy.config.loader import ProxyConfiguration
        conf = {
            'globals': {'cache': {'base_dir': os.path.join(self.dir, 'cache_data')}},
            'grids': {'lat': {'srs': 'EPSG:3857', 'bbox': [0, 0, WORLD * UNIT, WORLD * UNIT], 'res': RES, 'origin': 'll',
                              'tile_size': [256, 256]}},
            'caches': {'c': {'grids': ['lat'], 'sources': [], 'format': 'image/png', 'meta_size': [META, META],
                             'meta_buffer': 200,      # (real caches of WMS sources have a buffer - 80 by default: the clean-up walk goes by unbuffered meta tiles)
                             'cache': {'type': 'file', 'directory': os.path.join(self.dir, 'unused')}}},
        }
        self.pc = ProxyConfiguration(conf, conf_base_dir=self.dir, seed=True)
        (grid, extent, tm), = self.pc.caches['c'].caches()
        self.tm = tm
        self.cache = None

    def reset(self):
        """empty directory, fresh cache object inside the configured tile manager"""
        if self.cache is not None:
            B.cleanup(self.cache)
        for n in os.listdir(self.dir):
            p = os.path.join(self.dir, n)
            if os.path.isdir(p):
                shutil.rmtree(p)
            else:
                os.remove(p)
        self.cache = self.bk.make(self.dir)
        self.tm.cache = self.cache
        self.tm._expire_timestamp = None
        self.tm._refresh_before = {}
        return self.cache

    def present(self, universe):
        """addresses of the universe that a FRESH cache object finds, with the bytes that were stored"""
        c = self.bk.make(self.dir)
        try:
            out = []
            for a in universe:
                data = B.op_load(c, a + (None,))
                if data is not None:
                    out.append(a)
            return out
        finally:
            B.cleanup(c)

    def classes(self, universe):
        from mapproxy.cache.tile import Tile
        c = self.bk.make(self.dir)
        try:
            out = {}
            for a in universe:
                t = Tile(a)
                if c.is_cached(t):
                    t2 = Tile(a)
                    c.load_tile_metadata(t2)
                    out[a] = t2.timestamp
            return out
        finally:
            B.cleanup(c)

    def junk_present(self):
        return [j for j in JUNK if os.path.exists(self.bk.junk_path(self.dir, j))]

    def close(self):
        if self.cache is not None:
            B.cleanup(self.cache)
        shutil.rmtree(self.dir, ignore_errors=True)


def measure(ctx, bk, universe):
    """the feature record of Cleanup.tla for one real backend (see the module header of the spec)"""
    from mapproxy.cache.tile import Tile
    site = Site(ctx, bk, '-measure')
    try:
        cache = site.reset()
        levels = universe['levels']
        rec = dict(name=bk.name, hasLevelLoc=callable(getattr(cache, 'level_location', None)),
                   hasBulk=callable(getattr(cache, 'remove_level_tiles_before', None)),
                   supportsTs=bool(cache.supports_timestamp), raises=[], under=[], probe=cleanup_probes(ctx),
                   probeRaises=False)
        if rec['hasLevelLoc']:
            try:
                cache.level_location(0)
            except NotImplementedError:
                rec['probeRaises'] = True
            except Exception:
                pass
        for z in levels:
            ut, uj = [], []
            if rec['hasLevelLoc']:
                try:
                    d = os.path.join(os.path.abspath(cache.level_location(z)), '')
                except Exception:
                    rec['raises'].append(z)
                    d = None
                if d is not None:
                    for a in universe['addr']:
                        if os.path.abspath(cache.tile_location(Tile(a))).startswith(d):
                            ut.append(a)
                    for j in JUNK:
                        if os.path.abspath(bk.junk_path(site.dir, j)).startswith(d):
                            uj.append(j)
            rec['under'].append([z, ut, uj])
        # does the backend give back the time of the store?
        probe = (0, 0, 1)
        bk.store(cache, probe, T0 - 1000, B.payload('b1'))
        B.cleanup(cache)
        ts = site.classes([probe]).get(probe)
        rec['storesTs'] = ts is not None and abs(ts - (T0 - 1000)) < 1
        if not rec['storesTs'] and ts != -1:
            raise tlc.MachineryError('%s: unexpected timestamp %r of a tile stored at %r' % (bk.name, ts, T0 - 1000))
        # which threshold does the tile manager answer when the cache has a refresh_before rule and a task set its own?
        site.tm._refresh_before = {'time': LATER_ISO}
        site.tm._expire_timestamp = T0
        rec['cacheRuleWins'] = site.tm.expire_timestamp() != T0
        site.tm._refresh_before = {}
        site.tm._expire_timestamp = None
        return rec
    finally:
        site.close()


_PROBE = []


def cleanup_probes(ctx):
    """Does cleanup() ask level_location before it takes the directory walk (and treat NotImplementedError
    as "no level directories")?  Observed on a stub cache; selects the variant of ChooseStrategy."""
    if _PROBE:
        return _PROBE[0]
    import mapproxy.seed.cleanup as C
    from mapproxy.seed.seeder import CleanupTask
    from mapproxy.util.coverage import BBOXCoverage

    class StubCache(object):
        supports_timestamp = True

        def level_location(self, level, dimensions=None):
            raise NotImplementedError('stub')

    site = Site(ctx, all_backends()[0], '-probe')
    entered = []
    try:
        site.tm.cache = StubCache()
        grid = site.tm.grid
        task = CleanupTask(dict(name='probe', cache_name='c', grid_name='lat'), site.tm, [0], T0, False,
                           BBOXCoverage(grid.bbox, grid.srs), complete_extent=True)
        with patched(C, 'simple_cleanup', lambda *a, **kw: entered.append('dir')), \
                patched(C, 'cache_cleanup', lambda *a, **kw: entered.append('bulk')), \
                patched(C, 'tilewalker_cleanup', lambda *a, **kw: entered.append('walk')), \
                contextlib.redirect_stdout(io.StringIO()):
            C.cleanup([task], dry_run=True, verbose=False)
    finally:
        site.tm.cache = None
        site.close()
    if entered not in (['dir'], ['walk']):
        raise tlc.MachineryError('cleanup() on the stub cache entered %r' % (entered,))
    _PROBE.append(entered == ['walk'])
    return _PROBE[0]


def feature_key(rec):
    r = dict(rec)
    r.pop('name')
    return json.dumps(r, sort_keys=True)


# ------------------------------------------------------------------------------------------------
# one cleanup run on a real backend, recorded as events
# ------------------------------------------------------------------------------------------------
def seed_conf(task, covs):
    cl = {'caches': ['c'], 'grids': ['lat'], 'levels': sorted(task['levels'])}
    if task['mode'] == 'all':
        cl['remove_all'] = True
    elif task['mode'] == 'before':
        cl['remove_before'] = {'time': T0_ISO}
    conf = {'cleanups': {'k': cl}}
    if task['cov'] != 'full':
        rects = covs[task['cov']]
        boxes = [{'bbox': [c * UNIT for c in r], 'srs': 'EPSG:3857'} for r in rects]
        conf['coverages'] = {task['cov']: boxes[0] if len(boxes) == 1 else {'union': boxes}}
        cl['coverages'] = [task['cov']]
    return conf


_VALIDATED = set()


def _thread_worker_class(S):
    """TileCleanupWorker as the code defines it where multiprocessing is not used (win32/darwin): a thread"""
    return type('TileCleanupWorkerThread', (threading.Thread,),
                {'__init__': S.TileWorker.__dict__['__init__'], 'run': S.TileWorker.__dict__['run'],
                 'work_loop': S.TileCleanupWorker.__dict__['work_loop']})


def run_case(site, case, universe):
    """Populate the real cache, build the task through mapproxy.seed.config, run the real cleanup() with
    interposition.  Returns (events, info)."""
    import mapproxy.seed.cleanup as C
    import mapproxy.seed.seeder as S
    import mapproxy.seed.config as SC
    from mapproxy.seed.spec import validate_seed_conf
    bk = site.bk
    addr = universe['addr']
    covs = case.get('covs') or universe['covs']
    events = [dict(case['features'], ev='backend')]
    info = {'exception': None, 'strategy': None}
    cache = site.reset()
    variant = case.get('variant', 0)
    for i, (x, y, z, c) in enumerate(case['stores']):
        a = (x, y, z)
        bk.store(cache, a, time_of(c, variant + i, bk.fractional), B.payload(payload_for(bk, a)))
        events.append({'ev': 'store', 'a': list(a), 'c': c})
    B.cleanup(cache)
    for j in case['junk']:
        p = bk.junk_path(site.dir, j)
        os.makedirs(os.path.dirname(p), exist_ok=True)
        with open(p, 'w') as f:
            f.write('not a tile')
        os.utime(p, (T0 - 86400, T0 - 86400))
        events.append({'ev': 'junk', 'j': j})
    if bk.kind == 'file' and (variant + len(case['stores'])) % 2 == 1:
        # tiles may be newer than the directories they are in (rewritten in place, touched, restored from a backup):
        # the modification time of a directory says nothing about the files in it
        for root, _dirs, _files in os.walk(site.dir):
            if root != site.dir:
                os.utime(root, (T0 - 30 * 86400, T0 - 30 * 86400))
    # the populated cache must be what the case says (through a fresh cache object)
    got = site.classes(addr)
    want = {(x, y, z): c for x, y, z, c in case['stores']}
    if set(got) != set(want) or (case['features']['storesTs'] and any(class_of(got[a]) != want[a] for a in want)):
        raise tlc.MachineryError('%s: populated cache differs from the case: %r vs %r' % (bk.name, got, want))
    singles = None
    if bk.links:
        sd = os.path.join(site.dir, 'c', 'single_color_tiles')
        singles = sorted(os.listdir(sd)) if os.path.isdir(sd) else []

    task = case['task']
    conf = seed_conf(task, covs)
    ck = json.dumps(conf, sort_keys=True)
    if ck not in _VALIDATED:
        errors, informal_only = validate_seed_conf(conf)
        if errors:
            raise tlc.MachineryError('seed configuration of the harness is not valid: %r' % (errors,))
        _VALIDATED.add(ck)
    if task.get('refresh'):
        site.tm._refresh_before = {'time': LATER_ISO}          # what the loader does for `refresh_before` of a cache
    ev = {'ev': 'configure', 'levels': sorted(task['levels']), 'mode': task['mode'], 'cov': task['cov'], 'dry': task['dry'],
          'refresh': bool(task.get('refresh')),
          'res': 'task', 'all': False, 'complete': False, 'tlevels': []}
    events.append(ev)
    try:
        with patched(SC, 'time', _FakeTime(T0)):
            tasks = SC.SeedingConfiguration(conf, mapproxy_conf=site.pc).cleanups(['k'])
    except SC.SeedConfigurationError as ex:
        ev['res'] = 'refused'
        info['refused'] = str(ex)
        info['after'] = site.present(addr)
        info['junk_after'] = site.junk_present()
        return events, info
    t, = tasks
    if t.tile_manager is not site.tm or t.tile_manager.cache is not cache:
        raise tlc.MachineryError('task is not bound to the cache under test')
    ev.update(all=bool(t.remove_all), complete=bool(t.complete_extent), tlevels=list(t.levels))
    if not t.remove_all and t.remove_timestamp != T0:
        raise tlc.MachineryError('threshold of the task is %r, expected %r' % (t.remove_timestamp, T0))

    # ---- interposition -----------------------------------------------------------------------
    state = {'level': None, 'dir': None}
    restore = []

    def assign(obj, name, value):
        had = name in vars(obj)
        old = vars(obj).get(name)
        setattr(obj, name, value)
        restore.append((obj, name, had, old))

    def strategy_wrapper(which, real):
        def w(*a, **kw):
            events.append({'ev': 'strategy', 'which': which})
            info['strategy'] = which
            return real(*a, **kw)
        return w

    assign(C, 'simple_cleanup', strategy_wrapper('dir', C.simple_cleanup))
    assign(C, 'cache_cleanup', strategy_wrapper('bulk', C.cache_cleanup))
    assign(C, 'tilewalker_cleanup', strategy_wrapper('walk', C.tilewalker_cleanup))

    real_cd = C.cleanup_directory

    def cleanup_directory(directory, *a, **kw):
        r = real_cd(directory, *a, **kw)
        lvl = state['level'] if state['dir'] is not None and os.path.abspath(directory) == os.path.abspath(state['dir']) else -1
        events.append({'ev': 'cleanup_directory', 'level': lvl, 'present': [list(x) for x in site.present(addr)],
                       'junk': site.junk_present()})
        return r
    assign(C, 'cleanup_directory', cleanup_directory)

    if callable(getattr(cache, 'level_location', None)):
        real_ll = cache.level_location

        def level_location(level, *a, **kw):
            try:
                d = real_ll(level, *a, **kw)
            except Exception:
                if info['strategy'] is not None:        # before that, the question is part of the strategy choice
                    events.append({'ev': 'raises', 'level': level})
                raise
            state['level'], state['dir'] = level, d
            return d
        assign(cache, 'level_location', level_location)

    if callable(getattr(cache, 'remove_level_tiles_before', None)):
        real_rl = cache.remove_level_tiles_before

        def remove_level_tiles_before(level, *a, **kw):
            r = real_rl(level, *a, **kw)
            B.cleanup(cache)
            events.append({'ev': 'bulk', 'level': level, 'present': [list(x) for x in site.present(addr)]})
            return r
        assign(cache, 'remove_level_tiles_before', remove_level_tiles_before)

    uni = set(addr)

    class RecordingPool(S.TileWorkerPool):
        def process(self, tiles, progress):
            mine = [list(x) for x in tiles if tuple(x) in uni]
            if mine:                    # batches without a tile of the universe are invisible to the model
                events.append({'ev': 'process', 'tiles': mine})
            return S.TileWorkerPool.process(self, tiles, progress)
    assign(C, 'TileWorkerPool', RecordingPool)

    if not case.get('procs'):
        assign(S, 'proc_class', threading.Thread)
        assign(S, 'queue_class', _queue.Queue)
        assign(C, 'TileCleanupWorker', _thread_worker_class(S))
    try:
        with contextlib.redirect_stdout(io.StringIO()):
            C.cleanup(tasks, concurrency=case.get('conc', 1), dry_run=task['dry'], verbose=False)
    except Exception as ex:             # noqa - whatever escapes cleanup() is the observation
        info['exception'] = type(ex).__name__
        if not (events and events[-1]['ev'] == 'raises'):
            events.append({'ev': 'crash', 'exc': type(ex).__name__})
    finally:
        for obj, name, had, old in reversed(restore):
            if had:
                setattr(obj, name, old)
            else:
                delattr(obj, name)
        B.cleanup(cache)
    info['after'] = site.present(addr)
    info['junk_after'] = site.junk_present()
    if singles is not None:
        sd = os.path.join(site.dir, 'c', 'single_color_tiles')
        now = sorted(os.listdir(sd)) if os.path.isdir(sd) else []
        info['singles_lost'] = [s for s in singles if s not in now]
    if info['exception'] is None:
        events.append({'ev': 'done', 'present': [list(x) for x in info['after']], 'junk': info['junk_after']})
    return events, info


# ------------------------------------------------------------------------------------------------
# the property statement on observed values (used for classification, replay files and as a cross-check
# of TLC's verdicts)
# ------------------------------------------------------------------------------------------------
def judge(case, info, universe):
    """list of (cause, detail) the observed run violates; [] if the statement holds"""
    covs = case.get('covs') or universe['covs']
    task = case['task']
    f = case['features']
    if info.get('refused'):
        bad = []
        if sorted(info['after']) != sorted((x, y, z) for x, y, z, c in case['stores']) or sorted(info['junk_after']) != sorted(case['junk']):
            bad.append(('refused-but-removed', None))
        return bad
    bad = []
    if info['exception']:
        bad.append(('exception:' + info['exception'], None))
    after = set(info['after'])
    remove_all = task['mode'] == 'all' or (task['mode'] == 'default' and not f['supportsTs'])
    for x, y, z, c in case['stores']:
        a = (x, y, z)
        cls = c if f['storesTs'] else 'before'
        rel = cov_relation(a, task['cov'], covs)
        selected = z in task['levels'] and not task['dry']
        must_go = selected and rel == 'in' and (remove_all or cls == 'before')
        if a in after:
            if must_go and not info['exception']:
                bad.append(('expired-tile-kept', a))
        else:
            if task['dry']:
                bad.append(('dry-run-removed', a))
            elif z not in task['levels']:
                bad.append(('other-level-tile-removed', a))
            elif rel == 'out':
                bad.append(('outside-coverage-tile-removed', a))
            elif not remove_all and cls == 'after':
                bad.append(('newer-tile-removed', a))
    for j in case['junk']:
        if j not in info['junk_after']:
            bad.append(('non-tile-removed', j))
    for s in info.get('singles_lost') or []:
        bad.append(('non-tile-removed', 'single_color_tiles/' + s))
    return bad


TLC_NAME = {'expired-tile-kept': 'RemovesAllExpired', 'dry-run-removed': 'NeverRemovesProtected',
            'other-level-tile-removed': 'NeverRemovesProtected', 'outside-coverage-tile-removed': 'NeverRemovesProtected',
            'newer-tile-removed': 'NeverRemovesProtected', 'non-tile-removed': 'NeverRemovesProtected',
            'refused-but-removed': 'RefusedUntouched'}


def tlc_names(bad):
    out = set()
    for cause, detail in bad:
        if cause.startswith('exception:'):
            continue                     # NoCrash is only modelled for level_location; see cross_check
        if isinstance(detail, str) and detail.startswith('single_color_tiles/'):
            continue                     # link targets are not part of the model
        out.add(TLC_NAME[cause])
    return out


def report(ctx, case, info, bad, how, extra=None):
    cause = bad[0][0] if bad else 'diverges-from-model'
    sig = {'backend': case['backend'], 'strategy': info.get('strategy') or 'none', 'cause': cause}
    if case['task'].get('refresh') and cause == 'newer-tile-removed':
        # the tile walk asks the cache's refresh_before rule instead of the task's threshold: one defect, every backend
        sig = {'config': 'cache-refresh_before', 'strategy': sig['strategy'], 'cause': cause}
    if extra:
        sig.update(extra)
    t = case['task']
    what = '%s: cleanup(levels=%s, %s, coverage=%s%s%s) on %s -> %s; %s [%s]' % (
        case['backend'], sorted(t['levels']), t['mode'], t['cov'], ', dry_run' if t['dry'] else '',
        ', cache has refresh_before' if t.get('refresh') else '',
        ['%d/%d/%d:%s' % tuple(s) for s in case['stores']] + case['junk'],
        'raised ' + info['exception'] if info.get('exception') else 'left %s' % sorted(info.get('after') or []),
        '; '.join('%s %s' % (c, d if d is not None else '') for c, d in bad) or 'the run is not a behaviour of Cleanup.tla', how)
    rc = dict(case)
    rc.pop('features', None)
    ctx.violation(sig, what, rc)


# ------------------------------------------------------------------------------------------------
# TLC: exhaustive checks per backend feature class
# ------------------------------------------------------------------------------------------------
def task_space(universe, covs, with_full=True, with_partial=True):
    out = []
    lv = sorted(universe['levels'])
    subsets = [frozenset(s) for n in range(1, len(lv) + 1) for s in itertools.combinations(lv, n)]
    for ls in subsets:
        if with_full:
            for mode in ('all', 'before', 'default'):
                out.append(dict(levels=ls, mode=mode, cov='full', dry=False, refresh=False))
            out.append(dict(levels=ls, mode='before', cov='full', dry=True, refresh=False))
            out.append(dict(levels=ls, mode='all', cov='full', dry=True, refresh=False))
            out.append(dict(levels=ls, mode='before', cov='full', dry=False, refresh=True))
        if with_partial:
            for cov in sorted(covs):
                for mode in ('all', 'before', 'default'):
                    out.append(dict(levels=ls, mode=mode, cov=cov, dry=False, refresh=False))
            out.append(dict(levels=ls, mode='all', cov=sorted(covs)[0], dry=True, refresh=False))
            out.append(dict(levels=ls, mode='before', cov=sorted(covs)[0], dry=False, refresh=True))
    return out


def tla_features(rec, universe):
    """feature record as a TLA+ expression"""
    under_t = {z: frozenset(tuple(a) for a in ut) for z, ut, uj in rec['under']}
    under_j = {z: frozenset(uj) for z, ut, uj in rec['under']}
    return tla.to_tla(dict(name=rec['name'], hasLevelLoc=rec['hasLevelLoc'], raises=frozenset(rec['raises']),
                           probe=rec['probe'], probeRaises=rec['probeRaises'],
                           underT=under_t, underJ=under_j, hasBulk=rec['hasBulk'], supportsTs=rec['supportsTs'],
                           storesTs=rec['storesTs'], cacheRuleWins=rec['cacheRuleWins']))


def model_consts(universe, covs, recs, tasks, max_tiles, min_tiles=0, in_order=True, queue_cap=1, junk=JUNK):
    lv = universe['levels']
    return dict(Addr=set(universe['addr']), JunkIds=set(junk), Levels=set(lv), GridN={z: GRID_N[z] for z in lv},
                Span={z: SPAN[z] for z in lv}, MetaSize=META,
                Covs={k: frozenset(tuple(r) for r in v) for k, v in covs.items()},
                Backends='={' + ', '.join(tla_features(r, universe) for r in recs) + '}',
                Tasks='={' + ', '.join(tla.to_tla(t) for t in tasks) + '}',
                MinTiles=min_tiles, MaxTiles=max_tiles, QueueCap=queue_cap, WalkInOrder=in_order)


INVARIANTS = ['TypeOK', 'NeverRemovesProtected', 'RemovesAllExpired', 'NoCrash', 'RefusedUntouched']


def parse_action(label):
    label = label.strip()
    if '(' not in label:
        return label, ()
    name, rest = label.split('(', 1)
    return name, tla.parse_value('<<' + rest[:rest.rindex(')')] + '>>')


def case_from_behaviour(beh, backend, features):
    """(case, steps) from a TLC behaviour: the contents and task of the case, and the steps after Configure"""
    stores, junk, task, steps = [], [], None, []
    for label, st in beh[1:]:
        name, args = parse_action(label)
        if name == 'Store':
            stores.append(list(args[0]) + [str(args[1])])
        elif name == 'PutJunk':
            junk.append(str(args[0]))
        elif name == 'Configure':
            t = args[0]
            task = {'levels': sorted(t['levels']), 'mode': str(t['mode']), 'cov': str(t['cov']), 'dry': bool(t['dry']),
                    'refresh': bool(t['refresh'])}
            steps.append((name, args, st))
        elif name != 'Terminated':
            steps.append((name, args, st))
    if task is None:
        return None, None
    return {'backend': backend, 'features': features, 'stores': stores, 'junk': junk, 'task': task}, steps


def _present(st):
    return {a for a, c in st['tiles'].items() if str(c) != 'none'}


def compare_with_behaviour(steps, events, info, universe, case):
    """spec -> code: the real run against the states of one TLC behaviour; None if they agree, else text"""
    covs = case.get('covs') or universe['covs']
    # batches handed to the pool may differ in the tiles of the second of T and of touching meta tiles
    loose = {(x, y, z) for x, y, z, c in case['stores']
             if c == 'same' or cov_relation((x, y, z), case['task']['cov'], covs) == 'touch'}
    it = iter(steps)
    name, args, st = next(it)
    conf = [e for e in events if e['ev'] == 'configure'][0]
    if (str(st['pc']) == 'refused') != (conf['res'] == 'refused'):
        return 'Configure: spec pc=%s, configuration layer answered %s' % (st['pc'], conf['res'])
    if conf['res'] == 'refused':
        return None
    tk = st['task']
    if bool(tk['all']) != conf['all'] or bool(tk['complete']) != conf['complete'] or sorted(tk['levels']) != conf['tlevels']:
        return 'Configure: spec task %s, real task all=%s complete=%s levels=%s' % (dict(tk), conf['all'], conf['complete'], conf['tlevels'])
    free = set(st['free'])
    existing = _present(st)
    rest = list(it)
    if not rest:
        return 'behaviour ends after Configure'
    name, args, st = rest[0]
    if name != 'ChooseStrategy' or str(st['strategy']) != info['strategy']:
        return 'strategy: spec %s, real cleanup() entered %s' % (st.get('strategy'), info['strategy'])
    real_steps = [e for e in events if e['ev'] in ('cleanup_directory', 'bulk', 'raises')]
    spec_steps = [(n, a, s) for n, a, s in rest[1:] if n in ('CleanupDirectory', 'BulkDelete', 'LevelLocationRaises')]
    kind = {'CleanupDirectory': 'cleanup_directory', 'BulkDelete': 'bulk', 'LevelLocationRaises': 'raises'}
    if len(real_steps) != len(spec_steps):
        return 'spec has %d level steps %s, real run %d %s' % (len(spec_steps), [(n, a) for n, a, s in spec_steps], len(real_steps),
                                                               [(e['ev'], e['level']) for e in real_steps])
    for (n, a, s), e in zip(spec_steps, real_steps):
        if kind[n] != e['ev'] or a[0] != e['level']:
            return 'spec step %s(%s), real step %s(%s)' % (n, a[0], e['ev'], e['level'])
        if e['ev'] != 'raises':
            rp = {tuple(x) for x in e['present']}
            if rp - free != _present(s) - free:
                return 'after %s(%s): spec has %s, real cache has %s (free: %s)' % (n, a[0], sorted(_present(s)), sorted(rp), sorted(free))
            if 'junk' in e and set(e['junk']) != {str(j) for j in s['junk']}:
                return 'after %s(%s): spec keeps non-tiles %s, real %s' % (n, a[0], sorted(s['junk']), e['junk'])
    last = rest[-1][2]
    if info['strategy'] == 'walk':
        spec_h = {tuple(m): {tuple(x) for x in h} for m, h in last['visited']}
        real_h = {}
        for e in events:
            if e['ev'] == 'process' and e['tiles']:
                ts = {tuple(x) for x in e['tiles']}
                ms = {main_tile(x) for x in ts}
                if len(ms) != 1:
                    return 'process() was handed tiles of several meta tiles: %s' % sorted(ts)
                m = ms.pop()
                if m in real_h:
                    return 'meta tile %s was handed twice' % (m,)
                real_h[m] = ts
        for m in set(spec_h) | set(real_h):
            sh = (spec_h.get(m, set()) & existing) - loose
            rh = (real_h.get(m, set()) & existing) - loose
            if sh != rh:
                return 'meta tile %s: spec hands %s to the pool, real walker %s' % (m, sorted(spec_h.get(m, [])), sorted(real_h.get(m, [])))
    crashed = str(last['pc']) == 'crashed'
    if crashed != bool(info['exception']):
        return 'spec ends with pc=%s, real cleanup() %s' % (last['pc'], 'raised ' + info['exception'] if info['exception'] else 'returned')
    if str(last['pc']) not in ('done', 'crashed'):
        return 'behaviour does not finish (pc=%s)' % last['pc']
    if set(info['after']) - free != _present(last) - free:
        return 'at the end: spec has %s, real cache has %s (free: %s)' % (sorted(_present(last)), sorted(info['after']), sorted(free))
    if set(info['junk_after']) != {str(j) for j in last['junk']}:
        return 'at the end: spec keeps non-tiles %s, real %s' % (sorted(last['junk']), info['junk_after'])
    return None


def iter_sim(prefix):
    """behaviours written by `-simulate file=`, cut at the first Terminated step"""
    import glob
    import re
    files = sorted(glob.glob(prefix + '*'), key=lambda p: [int(x) for x in re.findall(r'\d+', os.path.basename(p))])
    for f in files:
        if not os.path.isfile(f):
            continue
        beh, act, buf = [], None, None
        with open(f) as fh:
            for line in fh:
                line = line.rstrip('\n')
                if line.startswith('\\*'):
                    if '<' in line:
                        act = line[line.index('<') + 1:].split(' line ')[0].rstrip('>').strip()
                    continue
                if re.match(r'^STATE_\d+ ==\s*$', line):
                    buf = []
                    continue
                if buf is not None:
                    if line.strip() == '':
                        if buf:
                            if act and act.startswith('Terminated'):
                                buf = None
                                break
                            beh.append((act, tla.parse_state('\n'.join(buf))))
                        buf = None
                    else:
                        buf.append(line)
            if buf:
                if not (act and act.startswith('Terminated')):
                    beh.append((act, tla.parse_state('\n'.join(buf))))
        yield f, beh


# ------------------------------------------------------------------------------------------------
# code -> spec: batch validation of recorded runs
# ------------------------------------------------------------------------------------------------
def validate_traces(ctx, name, traces, universe, covs):
    """-> (TLCResult, [(events matched, set of violated invariant names)] per trace)"""
    d = ctx.sub('trace-' + name)
    tf = os.path.join(d, 'batch.json')
    with open(tf, 'w') as f:
        json.dump(traces, f)
    consts = model_consts(universe, covs, [], [], max_tiles=len(universe['addr']) + 1, in_order=False, queue_cap=1000)
    mp, cp = tlc.write_mc(d, 'Trace_Cleanup', 'MC_Trace', consts, spec='TraceSpec', post='TraceAccepted')
    r = tlc.run(mp, cp, d, workers=1, coverage=False, env={'TRACE_FILE': tf}, timeout=3000)
    pm = tlc.find_prints(r.out, 'matched')
    pv = tlc.find_prints(r.out, 'violated')
    if not pm or not pv:
        raise tlc.MachineryError('trace validation (%s): no verdict from TLC\n%s' % (name, r.out[-2500:]))

    def seq(v):
        return list(v) if isinstance(v, tuple) else [v[k] for k in sorted(v)]
    matched = seq(pm[-1][1])
    violated = seq(pv[-1][1])
    if len(matched) != len(traces) or len(violated) != len(traces):
        raise tlc.MachineryError('trace validation (%s): verdict for %d traces, expected %d' % (name, len(matched), len(traces)))
    return r, [(matched[i], {str(x) for x in violated[i]}) for i in range(len(traces))]


def verdicts(ctx, name, runs, universe, covs, how):
    """runs: [(case, events, info)] -> validates them with TLC, cross-checks with the statement, reports"""
    if not runs:
        return 0
    chunks = [runs[i:i + 400] for i in range(0, len(runs), 400)]
    with ThreadPoolExecutor(max_workers=4) as ex:
        futs = [ex.submit(validate_traces, ctx, '%s-%d' % (name, i), [ev for c, ev, inf in ch], universe, covs)
                for i, ch in enumerate(chunks)]
        results = [f.result() for f in futs]
    nbad = 0
    for ch, (r, res) in zip(chunks, results):
        ctx.cov['states'] += r.distinct
        ctx.cov['transitions'] += r.generated
        ctx.cov['traces_validated_against_impl'] += len(ch)
        for (case, events, info), (matched, violated) in zip(ch, res):
            bad = judge(case, info, universe)
            accepted = matched >= len(events)
            if accepted:
                exp = tlc_names(bad)
                got = violated - {'NoCrash'}
                crash_ok = ('NoCrash' in violated) == bool(info['exception'])
                if exp != got or not crash_ok:
                    raise tlc.MachineryError('verdicts differ for %s %s %s: TLC %s, statement on observed values %s' % (
                        case['backend'], case['stores'], case['task'], sorted(violated), bad))
                if bad:
                    nbad += 1
                    report(ctx, case, info, bad, how + ', invariant violated in the validated trace')
            else:
                nbad += 1
                e = events[matched] if matched < len(events) else {'ev': '?'}
                report(ctx, case, info, bad, how + ', trace rejected at event %d (%s)' % (matched, e['ev']),
                       None if bad else {'event': e['ev']})
    return nbad


# ------------------------------------------------------------------------------------------------
# the check
# ------------------------------------------------------------------------------------------------
def expected_actions(rec, full):
    acts = {'Store', 'PutJunk', 'Configure', 'ChooseStrategy'}
    if full:
        if rec['hasLevelLoc'] and not (rec['probe'] and rec['probeRaises']):
            acts.add('LevelLocationRaises' if rec['raises'] else 'CleanupDirectory')
            if len(rec['raises']) < len(rec['under']):
                acts |= {'CleanupDirectory', 'LevelsFinish'}
        elif rec['hasBulk']:
            acts |= {'BulkDelete', 'LevelsFinish'}
        else:
            acts |= {'WalkProcess', 'Worker', 'WalkFinish'}
    else:
        acts |= {'WalkProcess', 'Worker', 'WalkFinish'}
    return acts


def model_check(ctx, name, rec, universe, covs, tasks, max_tiles, full, skip=()):
    d = ctx.sub('mc-' + name)
    consts = model_consts(universe, covs, [rec], tasks, max_tiles, junk=JUNK[:1])
    mp, cp = tlc.write_mc(d, 'Cleanup', 'MC_Cleanup', consts, invariants=[i for i in INVARIANTS if i not in skip], deadlock=True)
    r = tlc.run(mp, cp, d, workers=4, timeout=3000)
    if r.error and not r.violated and r.generated == 0:
        ctx.log('TLC %s ended without a result (rc=%s); running it once more' % (name, r.rc))
        r = tlc.run(mp, cp, d, workers=4, timeout=3000)
    return name, rec, r, full


def reproduce(ctx, r, members, sites, universe, how, feats):
    """execute a TLC counterexample on the real backends of the class; report if the real code shows it"""
    shown = 0
    for bk in members:
        case, steps = case_from_behaviour(r.trace, bk.name, feats[bk.name])
        if case is None:
            raise tlc.MachineryError('counterexample without Configure: %r' % ([a for a, s in r.trace],))
        events, info = run_case(sites[bk.name], case, universe)
        bad = judge(case, info, universe)
        ctx.count(('counterexample', bk.name, r.violated))
        if bad:
            shown += 1
            report(ctx, case, info, bad, how)
    return shown


def rotated_coverage_case(ctx):
    """A cleanup task whose coverage is a polygon in an SRS that is rotated against the grid SRS (EPSG:4326 triangle over Iceland, EPSG:3035 grid: the grid is turned by about 25 degrees against the meridians there):
    what is removed has to be decided on the tile itself - its rectangle in the GRID SRS against the polygon brought there -
    not on the bounding box the tile has in the SRS of the polygon.  Exact geometry on a lattice (Cleanup.tla) is not available
    for reprojected polygons: the set that has to go / has to stay comes from an oracle (pyproj + shapely in the grid SRS),
    tiles within 2 km of the outline are left open."""
    import io
    import contextlib
    import shutil
    import tempfile
    import pyproj
    import shapely.geometry as G
    import shapely.ops
    from mapproxy.config.loader import ProxyConfiguration
    from mapproxy.seed.config import SeedingConfiguration
    from mapproxy.seed.cleanup import cleanup
    from mapproxy.cache.tile import Tile
    d = tempfile.mkdtemp(prefix='verif-c12-rot-')
    try:
        # a triangle across the grid, densified (both sides bring the same outline into the grid SRS)
        corners = [(-22.0, 64.0), (-14.0, 64.5), (-18.0, 66.3), (-22.0, 64.0)]
        pts = []
        for (x0, y0), (x1, y1) in zip(corners, corners[1:]):
            n = 200
            # (not exactly collinear: loading the coverage drops collinear vertices, and an edge of 8 degrees that is straight
            # in one SRS is a curve in the other)
            pts += [(x0 + (x1 - x0) * i / n + 0.002 * (i % 2), y0 + (y1 - y0) * i / n - 0.002 * (i % 2)) for i in range(n)]
        pts.append(corners[0])
        tri = G.Polygon(pts)
        cov_file = os.path.join(d, 'cov.wkt')
        with open(cov_file, 'w') as f:
            f.write(tri.wkt)
        conf = {'services': {'tms': {}},
                'grids': {'u': {'srs': 'EPSG:3035', 'bbox': [2700000, 4600000, 3340000, 5240000], 'res': [10000, 5000, 2500],
                                'tile_size': [16, 16], 'origin': 'll'}},
                'sources': {'s': {'type': 'wms', 'req': {'url': 'http://up.invalid/s', 'layers': 'x'}}},
                'caches': {'c': {'grids': ['u'], 'sources': ['s'], 'meta_size': [1, 1], 'meta_buffer': 0,
                                 'cache': {'type': 'file', 'directory': os.path.join(d, 'cache'), 'directory_layout': 'tms'}}},
                'layers': [{'name': 'l', 'title': 'l', 'sources': ['c']}],
                'globals': {'cache': {'base_dir': os.path.join(d, 'cd'), 'lock_dir': os.path.join(d, 'l'), 'tile_lock_dir': os.path.join(d, 'tl')}}}
        sconf = {'cleanups': {'k': {'caches': ['c'], 'grids': ['u'], 'levels': [1, 2], 'coverages': ['tri'],
                                    'remove_before': {'time': '2020-01-01T00:00:00'}}},
                 'coverages': {'tri': {'datasource': cov_file, 'srs': 'EPSG:4326'}}}
        pc = ProxyConfiguration(conf, conf_base_dir=d, seed=True, renderd=False)
        tasks = SeedingConfiguration(sconf, mapproxy_conf=pc).cleanups(['k'])
        tm = tasks[0].tile_manager
        grid = tm.grid
        old = _time.mktime(_time.strptime('2019-06-01T00:00:00', '%Y-%m-%dT%H:%M:%S'))
        every = []
        for z in range(3):
            for x in range(grid.grid_sizes[z][0]):
                for y in range(grid.grid_sizes[z][1]):
                    p = tm.cache.tile_location(Tile((x, y, z)), create_dir=True)
                    with open(p, 'wb') as f:
                        f.write(b'tile')
                    os.utime(p, (old, old))
                    every.append((x, y, z))
        with contextlib.redirect_stdout(io.StringIO()):
            cleanup(tasks, concurrency=1, dry_run=False, skip_geoms_for_last_levels=0, progress_logger=None)
        left = {c for c in every if os.path.exists(tm.cache.tile_location(Tile(c)))}
        tr = pyproj.Transformer.from_crs('EPSG:4326', 'EPSG:3035', always_xy=True).transform
        poly = shapely.ops.transform(tr, tri)
        must_go, must_stay = set(), set()
        for c in every:
            box = G.box(*grid.tile_bbox(c))
            if c[2] == 0:
                must_stay.add(c)
            elif box.intersects(poly.buffer(-2000)):
                must_go.add(c)
            elif box.distance(poly) > 2000:
                must_stay.add(c)
        ctx.count(('rotated-coverage', len(every), len(every) - len(left)))
        if len(must_go) < 10 or len(must_stay) < 30:
            raise tlc.MachineryError('rotated coverage: oracle sets too small (%d to go, %d to stay)' % (len(must_go), len(must_stay)))
        wrong = sorted(c for c in must_stay if c not in left)
        kept = sorted(c for c in must_go if c in left)
        if wrong:
            c = wrong[0]
            ctx.violation({'kind': 'rotated-coverage', 'what': 'removed-outside-the-coverage'},
                          'cleanup with a polygon coverage in EPSG:4326 on an EPSG:3035 grid: %d expired tiles were removed although they lie more '
                          'than 2 km outside the polygon, e.g. tile %s, %.1f km away (all: %s)' % (
                              len(wrong), list(c), G.box(*grid.tile_bbox(c)).distance(poly) / 1000.0, [(list(x), round(G.box(*grid.tile_bbox(x)).distance(poly) / 1000.0, 2)) for x in wrong[:6]]), {'tiles': [list(x) for x in wrong[:20]]})
        if kept:
            ctx.violation({'kind': 'rotated-coverage', 'what': 'expired-tile-inside-the-coverage-kept'},
                          'cleanup with a polygon coverage in EPSG:4326 on an EPSG:3035 grid: %d expired tiles that reach more than 2 km into the '
                          'polygon are still there, e.g. %s' % (len(kept), list(kept[0])), {'tiles': [list(x) for x in kept[:20]]})
    finally:
        shutil.rmtree(d, ignore_errors=True)


def run(ctx):
    thorough = ctx.tier == 'thorough'
    if _time.mktime(_time.strptime(T0_ISO, '%Y-%m-%dT%H:%M:%S')) != T0:
        raise tlc.MachineryError('the check must run with TZ=UTC (thresholds are given as ISO times)')
    tlc.sany(SPEC)
    bks = all_backends()
    try:
        feats = {b.name: measure(ctx, b, SMALL) for b in bks}
        feats_big = {b.name: measure(ctx, b, BIG) for b in bks}
    except BaseException:
        drop_root(ctx)
        raise
    classes = {}
    for b in bks:
        classes.setdefault(feature_key(feats[b.name]), []).append(b)
    ctx.log('backend feature classes: %s' % [[b.name for b in m] for m in classes.values()])
    ctx.sample({'kind': 'measured backend features (constants of Cleanup.tla)',
                'features': {n: {k: v for k, v in f.items() if k != 'name'} for n, f in feats.items() if n in ('file-tc', 'file-tms', 'file-quadkey', 'geopackage-level')}})
    sites = {}
    try:
        for b in bks:
            sites[b.name] = Site(ctx, b)
        level_forms(ctx, sites[bks[0].name])
        return _run(ctx, thorough, bks, feats, feats_big, classes, sites)
    finally:
        for s in sites.values():
            s.close()
        drop_root(ctx)


def _run(ctx, thorough, bks, feats, feats_big, classes, sites):
    covs = SMALL['covs']
    # ---- (M) exhaustive model checking, one run per feature class (complete extent) and per timestamp
    #      class (coverages, always the tile walk); runs in the background while the real caches are driven
    jobs = []
    mt = 4 if thorough else 2
    mtc = 3 if thorough else 2
    full_tasks = task_space(SMALL, covs, with_partial=False)
    part_tasks = [t for t in task_space(SMALL, covs, with_full=False)
                  if t['mode'] != 'default' and (thorough or len(t['levels']) != 2 or 1 not in t['levels'])]
    for i, (key, members) in enumerate(classes.items()):
        rec = dict(feats[members[0].name], name='K%d' % i)
        jobs.append(('full-K%d' % i, rec, SMALL, covs, full_tasks, mt, True))
    walk_classes = {}
    for i, (key, members) in enumerate(classes.items()):
        f = feats[members[0].name]
        walk_classes.setdefault((f['supportsTs'], f['storesTs']), (i, members))
    for (sup, sto), (i, members) in walk_classes.items():
        rec = dict(feats[members[0].name], name='K%d' % i)
        jobs.append(('cov-ts%d%d' % (sup, sto), rec, SMALL, covs, part_tasks, mtc, False))
    jobs.sort(key=lambda j: (j[1]['storesTs'], not j[6]), reverse=True)      # the big ones first
    pool = ThreadPoolExecutor(max_workers=4)
    futures = [pool.submit(model_check, ctx, *j) for j in jobs]
    class_of_rec = {'K%d' % i: members for i, (key, members) in enumerate(classes.items())}
    try:
        _drive_real(ctx, thorough, bks, feats, feats_big, classes, class_of_rec, sites, covs)
        results = [f.result() for f in futures]
    finally:
        pool.shutdown(wait=True)

    for name, rec, r, full in results:
        members = class_of_rec[rec['name']] if full else [b for b in bks if (feats[b.name]['supportsTs'], feats[b.name]['storesTs']) ==
                                                         (rec['supportsTs'], rec['storesTs'])]
        ctx.log('TLC %s (%s): %r' % (name, ','.join(b.name for b in members), r))
        skip = []
        while r.violated in INVARIANTS:
            shown = reproduce(ctx, r, members, sites, SMALL, 'counterexample of Cleanup.tla (%s) executed on the real cache' % r.violated, feats)
            if not shown:
                raise tlc.MachineryError('TLC counterexample for %s (%s) is not reproduced by the real caches %s: %s' % (
                    name, r.violated, [b.name for b in members], [a for a, s in r.trace]))
            skip.append(r.violated)
            name2, rec, r, full = model_check(ctx, name + '-' + '-'.join(skip), rec, SMALL, covs,
                                              full_tasks if full else part_tasks, mt if full else mtc, full, skip)
            ctx.log('TLC %s without %s: %r' % (name, skip, r))
        if not r.ok:
            raise tlc.MachineryError('TLC %s: %r\n%s' % (name, r, r.out[-2000:]))
        if not skip:
            missing = [a for a in expected_actions(rec, full) if r.coverage.get(a, (0, 0))[0] == 0]
            if missing:
                raise tlc.MachineryError('TLC %s: actions never taken: %s' % (name, missing))
        ctx.add_tlc('Cleanup/' + name, r)
    return _finish(ctx)


def _drive_real(ctx, thorough, bks, feats, feats_big, classes, class_of_rec, sites, covs):
    # ---- (R) spec -> code: TLC behaviours executed on the real caches
    recs = [dict(feats[m[0].name], name='K%d' % i) for i, (k, m) in enumerate(classes.items())]
    all_tasks = task_space(SMALL, covs)
    nsim = 400 if thorough else 80
    nrep = ndiv = 0
    sample_done = False
    for mn in (1, 2, 3):
        d = ctx.sub('sim%d' % mn)
        consts = model_consts(SMALL, covs, recs, all_tasks, 4, min_tiles=mn)
        mp, cp = tlc.write_mc(d, 'Cleanup', 'MC_Sim', consts)
        prefix = os.path.join(d, 'beh')
        r = tlc.run(mp, cp, d, workers=1, simulate='file=%s,num=%d' % (prefix, nsim), depth=24, seed=ctx.seed * 7 + mn,
                    coverage=False, timeout=1200)
        behs = [b for f, b in iter_sim(prefix) if len(b) > 1]
        if len(behs) < nsim // 2:
            raise tlc.MachineryError('simulation produced %d behaviours: %s' % (len(behs), r.out[-1500:]))
        for bi, beh in enumerate(behs):
            kname = str(beh[0][1]['bk']['name'])
            members = class_of_rec[kname]
            for bk in (members if thorough else [members[(bi + mn) % len(members)]]):
                case, steps = case_from_behaviour(beh, bk.name, feats[bk.name])
                if case is None:
                    continue
                case['variant'] = bi
                events, info = run_case(sites[bk.name], case, SMALL)
                diff = compare_with_behaviour(steps, events, info, SMALL, case)
                nrep += 1
                ctx.cov['replayed_behaviours'] += 1
                ctx.cov['replayed_steps'] += len(steps)
                ctx.count(('replay', bk.name, json.dumps(case['stores']), json.dumps(case['task'], sort_keys=True)))
                bad = judge(case, info, SMALL)
                if not sample_done and info['strategy'] == 'walk' and case['stores']:
                    sample_done = True
                    ctx.sample({'kind': 'TLC behaviour executed on %s' % bk.name, 'actions': [a for a, s in beh[1:]],
                                'real_events': [{k: v for k, v in e.items() if k != 'under'} for e in events[1:]]})
                if diff or bad:
                    ndiv += 1
                    report(ctx, case, info, bad, 'TLC behaviour executed on the real cache: ' + (diff or 'states agree with the spec'),
                           None if bad else {'divergence': ' '.join(re.findall(r'[A-Za-z_]+', diff)[:4])})
    ctx.log('executed %d TLC behaviours on real caches (%d diverge or violate)' % (nrep, ndiv))

    # ---- (T1) code -> spec, systematic: every content of at most one tile x every task
    runs = []
    stride = 1 if thorough else 8
    k = ctx.seed
    for b in bks:
        f = feats[b.name]
        contents = [[]] + [[list(a) + [c]] for a in SMALL['addr'] for c in (('before', 'same', 'after') if f['storesTs'] else ('before',))]
        for ci, content in enumerate(contents):
            for ti, t in enumerate(all_tasks):
                k += 1
                if k % stride:
                    continue
                case = {'backend': b.name, 'features': f, 'stores': content, 'junk': list(JUNK),
                        'task': dict(t, levels=sorted(t['levels'])), 'variant': ci + ti}
                events, info = run_case(sites[b.name], case, SMALL)
                ctx.count(('sys', b.name, ci, ti))
                runs.append((case, events, info))
    # directed (always run): an expired tile in a meta tile three units beside the coverage cN - nearer than the meta buffer of the cache
    near = [t for t in all_tasks if t['cov'] == 'cN' and 11 in t['levels'] and t['mode'] == 'before' and not t['dry'] and not t.get('refresh')][:2]
    for b in bks:
        for t in near:
            case = {'backend': b.name, 'features': feats[b.name], 'stores': [[1, 0, 11, 'before']], 'junk': list(JUNK),
                    'task': dict(t, levels=sorted(t['levels'])), 'variant': 1}
            events, info = run_case(sites[b.name], case, SMALL)
            ctx.count(('near', b.name, json.dumps(dict(t, levels=sorted(t['levels'])), sort_keys=True)))
            runs.append((case, events, info))
    if not near:
        raise tlc.MachineryError('no clean-up task with the coverage cN in the task space')
    nb = verdicts(ctx, 'sys', runs, SMALL, covs, 'systematic single-tile case')
    ctx.log('systematic cases: %d real cleanup runs validated by TLC (%d violate or are rejected)' % (len(runs), nb))
    for case, events, info in runs:
        if info.get('strategy') == 'dir' and case['stores'] and not judge(case, info, SMALL):
            ctx.sample({'kind': 'recorded run on %s, accepted by Trace_Cleanup' % case['backend'],
                        'events': [{k: v for k, v in e.items() if k != 'under'} for e in events[1:]]})
            break

    # ---- (T2) code -> spec, random bigger contents
    rng = ctx.rng
    rcovs = {}
    for i in range(8):
        rects = []
        for _ in range(1 if i < 5 else 2):
            x0, y0 = rng.randint(0, WORLD - 2), rng.randint(0, WORLD - 2)
            rects.append((x0, y0, rng.randint(x0 + 1, WORLD), rng.randint(y0 + 1, WORLD)))
        rcovs['r%d' % i] = rects
    runs = []
    per = 300 if thorough else 30
    for b in bks:
        f = feats_big[b.name]
        for i in range(per):
            n = rng.randint(3, 16)
            content = [list(a) + [rng.choice(('before', 'same', 'after')) if f['storesTs'] else 'before']
                       for a in rng.sample(BIG['addr'], n)]
            lv = rng.sample(BIG['levels'], rng.randint(1, len(BIG['levels'])))
            task = {'levels': sorted(lv), 'mode': rng.choice(('all', 'before', 'before', 'default')),
                    'cov': 'full' if rng.random() < 0.4 else rng.choice(sorted(rcovs)), 'dry': rng.random() < 0.08,
                    'refresh': rng.random() < 0.15}
            case = {'backend': b.name, 'features': f, 'stores': content, 'junk': [j for j in JUNK if rng.random() < 0.7],
                    'task': task, 'variant': rng.randint(0, 5), 'covs': rcovs, 'conc': rng.choice((1, 2, 3)),
                    'procs': i < (20 if thorough else 2), 'universe': 'big'}
            events, info = run_case(sites[b.name], case, BIG)
            ctx.count(('rand', b.name, i, len(content)))
            runs.append((case, events, info))
    nb = verdicts(ctx, 'rand', runs, BIG, rcovs, 'random contents')
    ctx.log('random cases: %d real cleanup runs validated by TLC (%d violate or are rejected)' % (len(runs), nb))



def concurrent_writer_case(ctx):
    """A cleanup by directory walk (file cache, no coverage) while another process stores tiles in the same level: the file
    cache writes a tile to `<tile>.tmp-<n>` and renames it into place (util.fs.write_atomic).  The walk lists a directory
    first and looks at the files afterwards, so a temporary file it has listed may be gone when it gets there.  The writer is
    played by the harness at exactly that point (the rename happens when the walk asks for the temporary file); what the
    clean-up owes is unchanged: every expired tile of the level is removed, the tiles just written and the other levels
    stay."""
    import io
    import contextlib
    import shutil
    import tempfile
    import mapproxy.util.fs as fsmod
    from mapproxy.config.loader import ProxyConfiguration
    from mapproxy.seed.config import SeedingConfiguration
    from mapproxy.seed.cleanup import cleanup
    from mapproxy.cache.tile import Tile
    d = tempfile.mkdtemp(prefix='verif-c12-writer-')
    try:
        conf = {'services': {'tms': {}},
                'grids': {'u': {'srs': 'EPSG:3857', 'bbox': [0, 0, 1024, 1024], 'res': [4, 2, 1], 'tile_size': [16, 16], 'origin': 'll'}},
                'sources': {'s': {'type': 'wms', 'req': {'url': 'http://up.invalid/s', 'layers': 'x'}}},
                'caches': {'c': {'grids': ['u'], 'sources': ['s'], 'meta_size': [1, 1], 'meta_buffer': 0,
                                 'cache': {'type': 'file', 'directory': os.path.join(d, 'cache'), 'directory_layout': 'tms'}}},
                'layers': [{'name': 'l', 'title': 'l', 'sources': ['c']}],
                'globals': {'cache': {'base_dir': os.path.join(d, 'cd'), 'lock_dir': os.path.join(d, 'l'), 'tile_lock_dir': os.path.join(d, 'tl')}}}
        sconf = {'cleanups': {'k': {'caches': ['c'], 'grids': ['u'], 'levels': [1], 'remove_before': {'time': '2020-01-01T00:00:00'}}}}
        pc = ProxyConfiguration(conf, conf_base_dir=d, seed=True, renderd=False)
        tasks = SeedingConfiguration(sconf, mapproxy_conf=pc).cleanups(['k'])
        tm = tasks[0].tile_manager
        grid = tm.grid
        old = _time.mktime(_time.strptime('2019-06-01T00:00:00', '%Y-%m-%dT%H:%M:%S'))
        expired, other = [], []
        for z in range(3):
            for x in range(grid.grid_sizes[z][0]):
                for y in range(grid.grid_sizes[z][1]):
                    p = tm.cache.tile_location(Tile((x, y, z)), create_dir=True)
                    with open(p, 'wb') as f:
                        f.write(b'tile')
                    os.utime(p, (old, old))
                    (expired if z == 1 else other).append((x, y, z))
        # the writer: five tiles of level 1 are being written (their old versions are expired tiles of the level)
        writing = {}
        for i, c in enumerate([c for c in expired if (c[0] + 2 * c[1]) % 7 == 1][:8]):
            p = tm.cache.tile_location(Tile(c))
            tmp = p + '.tmp-%d' % (1234567 + i)
            with open(tmp, 'wb') as f:
                f.write(b'new tile')
            writing[tmp] = (p, c)
        renamed = []

        class _Os(object):
            def __getattr__(self, name):
                return getattr(os, name)

            def lstat(self, path, *a, **kw):
                if path in writing and path not in renamed:
                    renamed.append(path)
                    os.rename(path, writing[path][0])          # the writer finishes: write_atomic's rename
                return os.lstat(path, *a, **kw)

            def stat(self, path, *a, **kw):
                # a walk that asks for the age through stat() meets the same writer
                if path in writing and path not in renamed:
                    renamed.append(path)
                    os.rename(path, writing[path][0])
                return os.stat(path, *a, **kw)

        with patched(fsmod, 'os', _Os()), contextlib.redirect_stdout(io.StringIO()):
            cleanup(tasks, concurrency=1, dry_run=False, skip_geoms_for_last_levels=0, progress_logger=None)
        fresh = {c for tmp, (p, c) in writing.items() if tmp in renamed}
        left = {c for c in expired + other if os.path.exists(tm.cache.tile_location(Tile(c)))}
        ctx.count(('concurrent-writer', len(expired), len(renamed)))
        kept = sorted(c for c in expired if c in left and c not in fresh)
        lost = sorted(c for c in other if c not in left) + sorted(
            c for c in fresh if c not in left or open(tm.cache.tile_location(Tile(c)), 'rb').read() != b'new tile')
        if kept:
            ctx.violation({'kind': 'concurrent-writer', 'what': 'expired-tile-kept'},
                          'directory-walk cleanup of level 1 while a writer renames its temporary files into place: %d of %d expired tiles '
                          'of the level are still there afterwards, e.g. %s (the walk met a temporary file that was gone)' % (
                              len(kept), len(expired) - len(fresh), [list(c) for c in kept[:5]]), {'tiles': [list(c) for c in kept[:20]]})
        if lost:
            ctx.violation({'kind': 'concurrent-writer', 'what': 'tile-lost'},
                          'directory-walk cleanup of level 1 while a writer renames its temporary files into place: tiles of other levels or '
                          'tiles just written are gone or not what was written: %s' % [list(c) for c in lost[:5]], {'tiles': [list(c) for c in lost[:20]]})
        if not kept and not lost and len(renamed) < 3:
            raise tlc.MachineryError('concurrent writer: the directory walk looked at %d of %d temporary files only' % (len(renamed), len(writing)))
    finally:
        shutil.rmtree(d, ignore_errors=True)


def zone_case(ctx):
    """The clean-up of complete levels of a sqlite cache (one DELETE per level: `remove_level_tiles_before`) in server
    processes west and east of Greenwich - the cache keeps its time stamps as local time text, the cut-off has to be
    brought there the same way.  A tile three hours old, a tile one hour old, a tile of another level; remove_before: two
    hours.  The old one goes, the other two stay."""
    import io
    import contextlib
    import shutil
    import tempfile
    import mapproxy.cache.mbtiles as mb
    from engine import zone as Z
    from mapproxy.config.loader import ProxyConfiguration
    from mapproxy.seed.config import SeedingConfiguration
    from mapproxy.seed.cleanup import cleanup
    from mapproxy.cache.tile import Tile
    from mapproxy.image import ImageSource

    class _At(object):
        def __init__(self, t):
            self.t = t

        def time(self):
            return self.t

        def __getattr__(self, name):
            return getattr(_time, name)

    for tz in (Z.WEST, Z.EAST):
        d = tempfile.mkdtemp(prefix='verif-c12-zone-')
        try:
            with Z.zone(tz):
                conf = {'services': {'tms': {}},
                        'grids': {'u': {'srs': 'EPSG:3857', 'bbox': [0, 0, 1024, 1024], 'res': [4, 2, 1], 'tile_size': [16, 16], 'origin': 'll'}},
                        'sources': {'s': {'type': 'wms', 'req': {'url': 'http://up.invalid/s', 'layers': 'x'}}},
                        'caches': {'c': {'grids': ['u'], 'sources': ['s'], 'meta_size': [1, 1], 'meta_buffer': 0,
                                         'cache': {'type': 'sqlite', 'directory': os.path.join(d, 'cache')}}},
                        'layers': [{'name': 'l', 'title': 'l', 'sources': ['c']}],
                        'globals': {'cache': {'base_dir': os.path.join(d, 'cd'), 'lock_dir': os.path.join(d, 'l'), 'tile_lock_dir': os.path.join(d, 'tl')}}}
                sconf = {'cleanups': {'k': {'caches': ['c'], 'grids': ['u'], 'levels': [1], 'remove_before': {'hours': 2}}}}
                pc = ProxyConfiguration(conf, conf_base_dir=d, seed=True, renderd=False)
                tasks = SeedingConfiguration(sconf, mapproxy_conf=pc).cleanups(['k'])
                tm = tasks[0].tile_manager
                now = _time.time()
                tiles = {'old': ((0, 0, 1), now - 3 * 3600), 'new': ((1, 0, 1), now - 3600), 'other level': ((0, 0, 2), now - 3 * 3600)}
                from PIL import Image
                for name, (coord, at) in tiles.items():
                    buf = io.BytesIO()
                    Image.new('RGB', (16, 16), (10, 20, 30)).save(buf, 'PNG')
                    buf.seek(0)
                    with patched(mb, 'time', _At(at)):
                        tm.cache.store_tile(Tile(coord, ImageSource(buf)))
                with contextlib.redirect_stdout(io.StringIO()):
                    cleanup(tasks, concurrency=1, dry_run=False, skip_geoms_for_last_levels=0, progress_logger=None)
                left = {name for name, (coord, at) in tiles.items() if tm.cache.is_cached(Tile(coord))}
                tm.cleanup()
            ctx.count(('zone', tz, tuple(sorted(left))))
            if left != {'new', 'other level'}:
                ctx.violation({'kind': 'zone', 'backend': 'sqlite-level', 'tz': tz},
                              'sqlite cache, server zone %s, clean-up of level 1 with remove_before: 2 hours over a tile 3 hours old, a tile '
                              '1 hour old and a tile of level 2: left afterwards %s (the tile 1 hour old and the one of level 2 have to stay, '
                              'the old one has to go)' % (tz, sorted(left)), {'tz': tz})
        finally:
            shutil.rmtree(d, ignore_errors=True)


def symlinked_level_case(ctx):
    """A level directory of a file cache that is a symbolic link (the level lives on another volume): a clean-up of that
    level by directory walk - remove_all and remove_before - removes its tiles as those of any other level, leaves the other
    levels alone and ends without an error."""
    import io
    import contextlib
    import shutil
    import tempfile
    from mapproxy.config.loader import ProxyConfiguration
    from mapproxy.seed.config import SeedingConfiguration
    from mapproxy.seed.cleanup import cleanup
    from mapproxy.cache.tile import Tile
    for mode in ('remove_all', 'remove_before'):
        d = tempfile.mkdtemp(prefix='verif-c12-symlvl-')
        try:
            conf = {'services': {'tms': {}},
                    'grids': {'u': {'srs': 'EPSG:3857', 'bbox': [0, 0, 1024, 1024], 'res': [4, 2, 1], 'tile_size': [16, 16], 'origin': 'll'}},
                    'sources': {'s': {'type': 'wms', 'req': {'url': 'http://up.invalid/s', 'layers': 'x'}}},
                    'caches': {'c': {'grids': ['u'], 'sources': ['s'], 'cache': {'type': 'file', 'directory': os.path.join(d, 'cache')}}},
                    'layers': [{'name': 'l', 'title': 'l', 'sources': ['c']}],
                    'globals': {'cache': {'base_dir': os.path.join(d, 'cd'), 'lock_dir': os.path.join(d, 'l'), 'tile_lock_dir': os.path.join(d, 'tl')}}}
            k = {'caches': ['c'], 'grids': ['u'], 'levels': [1]}
            if mode == 'remove_all':
                k['remove_all'] = True
            else:
                k['remove_before'] = {'time': '2020-01-01T00:00:00'}
            pc = ProxyConfiguration(conf, conf_base_dir=d, seed=True, renderd=False)
            tasks = SeedingConfiguration({'cleanups': {'k': k}}, mapproxy_conf=pc).cleanups(['k'])
            tm = tasks[0].tile_manager
            os.makedirs(os.path.join(d, 'volume2', '01'))
            os.makedirs(os.path.join(d, 'cache'))
            os.symlink(os.path.join(d, 'volume2', '01'), os.path.join(d, 'cache', '01'))
            old = _time.mktime(_time.strptime('2019-06-01T00:00:00', '%Y-%m-%dT%H:%M:%S'))
            coords = [(0, 0, 1), (3, 2, 1), (0, 0, 2), (0, 0, 0)]
            for c in coords:
                p = tm.cache.tile_location(Tile(c), create_dir=True)
                with open(p, 'wb') as f:
                    f.write(b'tile')
                os.utime(p, (old, old))
            err = None
            try:
                with contextlib.redirect_stdout(io.StringIO()):
                    cleanup(tasks, concurrency=1, dry_run=False, skip_geoms_for_last_levels=0, progress_logger=None)
            except Exception as ex:
                err = '%s: %s' % (type(ex).__name__, ex)
            left = [c for c in coords if os.path.exists(tm.cache.tile_location(Tile(c)))]
            ctx.count(('symlinked-level', mode))
            bad = []
            if err:
                bad.append('the clean-up ended with %s' % err[:160])
            if [c for c in left if c[2] == 1]:
                bad.append('tiles of level 1 are still there: %s' % [list(c) for c in left if c[2] == 1])
            if [c for c in coords if c[2] != 1 and c not in left]:
                bad.append('tiles of other levels are gone: %s' % [list(c) for c in coords if c[2] != 1 and c not in left])
            if bad:
                ctx.violation({'kind': 'symlinked-level', 'mode': mode},
                              'file cache whose directory of level 1 is a symbolic link to another volume, clean-up of level 1 with %s: %s' % (
                                  mode, '; '.join(bad)), {'mode': mode})
        finally:
            shutil.rmtree(d, ignore_errors=True)


def _finish(ctx):
    rotated_coverage_case(ctx)
    symlinked_level_case(ctx)
    concurrent_writer_case(ctx)
    zone_case(ctx)
    ctx.assumptions += [
        'time is compared at one-second granularity: tiles written in the second of the threshold may be kept or removed; '
        'a meta tile that only touches the coverage (no common interior) may be handled or skipped',
        'contents are tiles of the grid stored without dimension values, plus non-tile files in the cache root and next to '
        'the cache; files that are not tiles INSIDE a level directory of the cache are outside the formalisation '
        '(the directory walk removes every old file below level_location(level))',
        'a backend that keeps no timestamps answers -1 for every tile: all its tiles count as older than any threshold',
        'tasks are built by mapproxy.seed.config from seed configuration dictionaries (levels lists, remove_all / '
        'remove_before: time / neither, bbox and union coverages in the grid SRS); progress files (--continue) are not used',
        'most tile walks run the worker as a thread (the code\'s own configuration for win32/darwin); a sample of '
        'the random cases uses the multiprocessing workers of linux',
        'redis, couchdb, s3, azure caches need network services and are not covered',
    ]
    return ctx.finish('model_checking',
                      'TLC: Cleanup.tla exhaustively per backend feature class for the stated constants; distinct = distinct '
                      '(backend, contents, task) cleanup runs on real caches: executed TLC behaviours, systematic single-tile '
                      'cases and random contents, each validated by TLC or compared state by state')


# ------------------------------------------------------------------------------------------------
# level selection of tasks (seed and clean-up), all forms of the `levels` option
# ------------------------------------------------------------------------------------------------
def level_forms(ctx, site):
    """spec/LevelSel.tla gives the levels a task works on for every form of the option; the tasks the real
    SeedingConfiguration builds must select exactly those"""
    import mapproxy.seed.config as SC
    nl = len(RES)
    forms = [{'kind': 'none'}]
    for ls in ([0], [0, 1], [1, 10, 11], [12], [5, 40], [0, 12]):
        forms.append({'kind': 'list', 'ls': ls})
    ends = [None, 0, 1, 2, 11, 12, 30]
    for a in ends:
        for b in ends:
            if a is None and b is None:
                continue
            if a is not None and b is not None and a > b:
                continue
            forms.append({'kind': 'range', 'from': -1 if a is None else a, 'to': -1 if b is None else b})
    d = ctx.sub('levelsel')
    body = ['---- MODULE MC_LevelSel ----', 'EXTENDS LevelSel']
    recs = []
    for f in forms:
        if f['kind'] == 'none':
            recs.append('[kind |-> "none"]')
        elif f['kind'] == 'list':
            recs.append('[kind |-> "list", ls |-> {%s}]' % ', '.join(str(v) for v in f['ls']))
        else:
            recs.append('[kind |-> "range", from |-> %d, to |-> %d]' % (f['from'], f['to']))
    body.append('Forms == <<%s>>' % ', '.join(recs))
    body.append('ASSUME PrintT(<<"levelsel", [i \\in 1 .. Len(Forms) |-> Levels(Forms[i], %d)]>>)' % nl)
    body.append('VARIABLE x')
    body.append('Spec == x = 0 /\\ [][UNCHANGED x]_x')
    body.append('====')
    mp = os.path.join(d, 'MC_LevelSel.tla')
    with open(mp, 'w') as f:
        f.write('\n'.join(body) + '\n')
    cp = os.path.join(d, 'MC_LevelSel.cfg')
    with open(cp, 'w') as f:
        f.write('SPECIFICATION Spec\n')
    shutil.copy(os.path.join(tlc.SPEC_DIR, 'LevelSel.tla'), d)
    r = tlc.run(mp, cp, d, workers=1, coverage=False, timeout=300)
    pr = tlc.find_prints(r.out, 'levelsel')
    if not pr:
        raise tlc.MachineryError('LevelSel: no table from TLC: %s' % r.out[-800:])
    tab = pr[-1][1]
    expected = [sorted(int(v) for v in (tab[i] if isinstance(tab, tuple) else tab[i + 1])) for i in range(len(forms))]
    n = 0
    for f, exp in zip(forms, expected):
        if f['kind'] == 'none':
            lv = None
        elif f['kind'] == 'list':
            lv = list(f['ls'])
        else:
            lv = {}
            if f['from'] != -1:
                lv['from'] = f['from']
            if f['to'] != -1:
                lv['to'] = f['to']
        for section, key in (('cleanups', 'remove_all'), ('seeds', None)):
            t = {'caches': ['c'], 'grids': ['lat']}
            if lv is not None:
                t['levels'] = lv
            if key:
                t[key] = True
            conf = {section: {'k': t}}
            try:
                sc = SC.SeedingConfiguration(conf, mapproxy_conf=site.pc)
                tasks = sc.cleanups(['k']) if section == 'cleanups' else sc.seeds(['k'])
                got = sorted(tasks[0].levels) if tasks else []
            except Exception as ex:
                got = 'raised %r' % (ex,)
            n += 1
            ctx.count(('levelsel', section, json.dumps(f, sort_keys=True)))
            if got != exp:
                ctx.violation({'kind': 'level-selection', 'section': section, 'form': f['kind']},
                              '%s task with levels %s selects levels %s, LevelSel.tla says %s' % (section, json.dumps(lv), got, exp),
                              {'form': f, 'section': section})
    ctx.log('level selection: %d (form, task kind) pairs compared with LevelSel.tla' % n)


def replay(ctx, data):
    case = data.get('case') or {}
    if not case:
        return 0
    universe = BIG if case.get('universe') == 'big' else SMALL
    bk = {b.name: b for b in all_backends()}[case['backend']]
    case = dict(case, features=measure(ctx, bk, universe))
    site = Site(ctx, bk)
    try:
        events, info = run_case(site, case, universe)
    finally:
        site.close()
        drop_root(ctx)
    bad = judge(case, info, universe)
    print('replay: %s levels=%s mode=%s cov=%s on %s' % (case['backend'], case['task']['levels'], case['task']['mode'],
                                                        case['task']['cov'], case['stores']))
    print('  strategy=%s exception=%s after=%s junk=%s' % (info.get('strategy'), info.get('exception'), sorted(info.get('after') or []),
                                                        info.get('junk_after')))
    print('  statement:', bad or 'holds')
    shutil.rmtree(ctx.workdir, ignore_errors=True)
    return 1 if bad else 0
