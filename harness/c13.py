"""C13 - expiry rules decide precisely which tiles are refreshed.

spec/Expiry.tla models TileManager.load_tile_coords under a refresh rule (absolute time, relative age evaluated
per request, mtime of a file), the same rule applied by a seed task, the clock, the threshold file, tile removal
and an upstream that can fail; time is counted in half seconds so that the truncation to whole seconds is
visible.  TLC checks the action properties for ALL histories of <= 6 actions over two tiles for the single-tile
and the meta-tile creation path (`steps` is a state variable: the bound is exact).

spec -> code: (1) a class cover - the state graph of all histories of <= 4 actions is dumped, one shortest
behaviour per class of transition (outcome, rule kinds, fractional threshold, per-tile distance of the tile's
second from the threshold second) is executed; (2) random walks (-simulate) of a larger instance.  Both run on the
real TileManager / seed_task with real caches (file layouts, sqlite per level, mbtiles with timestamps) under a
virtual clock, built directly as loader.py does AND through ProxyConfiguration / SeedingConfiguration from
configuration dictionaries; cache timestamps and versions (read back through a fresh cache object), the upstream
log and the served versions are compared with the TLC state after every action.

code -> spec: long random histories (4 tiles, two meta tiles, clock jumps up to an hour, ages up to an hour) are
recorded from the real code and validated by TLC against spec/trace/Trace_Expiry.tla with the properties
evaluated on every recorded step.

The original TileManager.expire_timestamp lets the cache's own refresh_before replace the threshold of a seed
task; Expiry.tla has both variants (ExpirePrecedence); TLC's counterexample for the original logic is executed on
the real code to tell which variant the tree implements, the original one is reported as a violation.
"""
import datetime as _datetime
import io
import json
import multiprocessing
import os
import re
import shutil
import sys
import threading
import time as _time

from engine import tlc, zone, tla

SPEC = os.path.join(tlc.SPEC_DIR, 'Expiry.tla')
TRACE_SPEC = os.path.join(tlc.SPEC_DIR, 'trace', 'Trace_Expiry.tla')

BASE = 1700000000            # 2023-11-14T22:13:20Z; tick k is BASE + k/2 seconds
CLOCK0 = 2                   # Init of Expiry.tla
PROPS = ['PropServeStale', 'PropServeFresh', 'PropFailKeeps', 'PropSeedStale', 'PropSeedFresh']
ACTIONS = ['RequestHit', 'RequestFetch', 'RequestStaleServed', 'RequestError', 'SeedNoop', 'SeedFetch', 'SeedFail',
           'Tick', 'TouchThresholdFile', 'SetThreshold', 'UpstreamFail', 'UpstreamRecover', 'RemoveTile']
FILE0 = 1                    # Init: mtime of the threshold file (ticks)
TS = 16                      # tile size in pixels


def R(kind, arg=0):
    return {'kind': kind, 'arg': arg}


def rules_tla(rules):
    return '={' + ', '.join('[kind |-> "%s", arg |-> %d]' % (r['kind'], r['arg']) for r in rules) + '}'


# ------------------------------------------------------------------------------------------------
# virtual environment: clock, file-system time stamps, upstream
# ------------------------------------------------------------------------------------------------
class _Env(object):
    tick = CLOCK0
    up = True
    # 2: two consecutive versions of the upstream have the same picture (version 2k and 2k + 1): a refresh often brings
    # the picture that is in the cache already.  Observed versions are then the odd representative of their class
    vclass = 1
    logf = None
    installed = None
    null_handler = None


def now():
    return BASE + _Env.tick * 0.5


class _FakeDateTime(_datetime.datetime):
    @classmethod
    def now(cls, tz=None):
        return _datetime.datetime.fromtimestamp(now())


class _DatetimeModule(object):
    """`datetime` as seen by mapproxy.util.times"""
    datetime = _FakeDateTime
    timedelta = _datetime.timedelta
    date = _datetime.date


class _TimeModule(object):
    """`time` as seen by the cache backends and the seeder: virtual clock, no sleeping"""
    def __getattr__(self, name):
        return getattr(_time, name)

    def time(self):
        return now()

    def sleep(self, s):
        pass


class _OsModule(object):
    """`os` as seen by mapproxy.cache.file: a new symbolic link gets the virtual time (lstat is what the cache reads)"""
    def __getattr__(self, name):
        return getattr(os, name)

    def symlink(self, src, dst, *a, **kw):
        os.symlink(src, dst, *a, **kw)
        ns = BASE * 10 ** 9 + _Env.tick * 5 * 10 ** 8
        os.utime(dst, ns=(ns, ns), follow_symlinks=False)


def rep(v):
    """what a picture tells about the version it shows"""
    return (v // 2) * 2 + 1 if _Env.vclass == 2 and v > 0 else v


def _big_queue(size):
    # capacity of the seeder's work queue: never make the walker wait for a worker that gave up
    return multiprocessing.Queue(64)


def _upstream(bbox, size):
    """The upstream: logs every request (to a file: seed workers are forked processes) and answers with the
    number of successful requests so far (painted by the caller), or None while it is down."""
    with open(_Env.logf, 'a+') as f:
        f.seek(0)
        nok = sum(1 for ln in f.read().splitlines() if '"ok": true' in ln)
        f.write(json.dumps({'bbox': list(bbox), 'size': list(size), 'ok': bool(_Env.up)}) + '\n')
    return nok + 1 if _Env.up else None


def _fake_http_open(self, url, data=None, method=None):
    """HTTPClient.open for configurations with a WMS source: the same upstream behind HTTP"""
    from urllib.parse import urlparse, parse_qs
    from mapproxy.client.http import HTTPClientError
    from mapproxy.compat.image import Image
    q = {k.lower(): v[0] for k, v in parse_qs(urlparse(url).query).items()}
    size = (int(q['width']), int(q['height']))
    v = _upstream([float(x) for x in q['bbox'].split(',')], size)
    if v is None:
        raise HTTPClientError('No response from URL "%s": upstream is down' % url)
    buf = io.BytesIO()
    Image.new('RGB', size, (rep(v) // 256, rep(v) % 256, 77)).save(buf, 'PNG')
    buf.seek(0)
    buf.headers = {'content-type': 'image/png'}
    buf.code = 200
    return buf


def install():
    """Interpose the clock at module level (no change to the repository)."""
    if _Env.installed is not None:
        return
    import mapproxy.util.times as m_times
    import mapproxy.cache.file as m_file
    import mapproxy.cache.base as m_base
    import mapproxy.cache.mbtiles as m_mbtiles
    import mapproxy.seed.util as m_sutil
    import mapproxy.seed.seeder as m_seeder
    import mapproxy.client.http as m_http
    real_write_atomic = m_file.write_atomic

    def write_atomic(filename, data):
        # the kernel stamps a new file with the current time: here the virtual one
        real_write_atomic(filename, data)
        ns = BASE * 10 ** 9 + _Env.tick * 5 * 10 ** 8
        os.utime(filename, ns=(ns, ns))

    saved = [(m_times, 'datetime', m_times.datetime), (m_file, 'write_atomic', m_file.write_atomic), (m_file, 'os', m_file.os),
             (m_base, 'time', m_base.time), (m_mbtiles, 'time', m_mbtiles.time), (m_sutil, 'time', m_sutil.time),
             (m_seeder, 'queue_class', m_seeder.queue_class), (m_http.HTTPClient, 'open', m_http.HTTPClient.open)]
    m_http.HTTPClient.open = _fake_http_open
    import logging
    _Env.null_handler = logging.NullHandler()          # expected upstream failures are not worth a log line
    logging.getLogger('mapproxy').addHandler(_Env.null_handler)
    m_times.datetime = _DatetimeModule
    m_file.write_atomic = write_atomic
    m_file.os = _OsModule()
    tm = _TimeModule()
    if hasattr(m_times, 'time'):                  # (timestamp_before reads the clock through time.time since cf. known_findings)
        saved.append((m_times, 'time', m_times.time))
        m_times.time = tm
    m_base.time = tm
    m_mbtiles.time = tm
    m_sutil.time = tm
    m_seeder.queue_class = _big_queue
    _Env.installed = saved


def uninstall():
    if _Env.installed is None:
        return
    for mod, name, val in _Env.installed:
        setattr(mod, name, val)
    import logging
    logging.getLogger('mapproxy').removeHandler(_Env.null_handler)
    _Env.installed = None


BACKENDS = {
    # name -> (truncates stored time to whole seconds, constructor(dir))
    'file': (False, lambda d: _file_cache(d, 'tc')),
    'file-tms': (False, lambda d: _file_cache(d, 'tms')),
    'file-arcgis': (False, lambda d: _file_cache(d, 'arcgis')),
    'file-symlink': (False, lambda d: _file_cache(d, 'tc', True)),       # single-colour tiles are symbolic links
    'sqlite': (True, lambda d: _sqlite_cache(d)),
    'mbtiles-ts': (True, lambda d: _mbtiles_cache(d)),
}


def _image_opts():
    from mapproxy.image.opts import ImageOptions
    return ImageOptions(format='image/png', colors=0)


def _file_cache(d, layout, link=False):
    from mapproxy.cache.file import FileCache
    return FileCache(os.path.join(d, 'cache'), 'png', directory_layout=layout, image_opts=_image_opts(),
                     link_single_color_images=link)


def _sqlite_cache(d):
    from mapproxy.cache.mbtiles import MBTilesLevelCache
    return MBTilesLevelCache(os.path.join(d, 'cache'))


def _mbtiles_cache(d):
    from mapproxy.cache.mbtiles import MBTilesCache
    return MBTilesCache(os.path.join(d, 'cache.mbtiles'), with_timestamps=True)


class World(object):
    """One real cache directory + TileManager (+ seed tasks) driven by the actions of Expiry.tla."""

    def __init__(self, root, backend, path, ntiles):
        from mapproxy.grid import tile_grid, MetaGrid
        self.root = root
        shutil.rmtree(root, ignore_errors=True)
        os.makedirs(root)
        self.backend = backend
        self.trunc = BACKENDS[backend][0]
        self.path = path
        self.names = ['t%d' % (i + 1) for i in range(ntiles)]
        self.grid = tile_grid(srs=4326, bbox=[0, 0, 10 * ntiles, 10], res=[10.0 / TS], tile_size=(TS, TS), origin='ll')
        if tuple(self.grid.grid_sizes[0]) != (ntiles, 1):
            raise tlc.MachineryError('unexpected grid size %r' % (self.grid.grid_sizes,))
        self.coord = {n: (i, 0, 0) for i, n in enumerate(self.names)}
        mg = MetaGrid(self.grid, meta_size=[2, 1], meta_buffer=0)
        self.meta_of = {}
        self.unit_bbox = {}
        self.unit_size = {}
        for n in self.names:
            main = mg.main_tile(self.coord[n])
            mid = 'm%d' % (main[0] // 2 + 1)
            self.meta_of[n] = mid
            self.unit_bbox[n] = tuple(self.grid.tile_bbox(self.coord[n]))
            self.unit_bbox[mid] = tuple(mg.meta_tile(self.coord[n]).bbox)
            self.unit_size[n] = [TS, TS]
            self.unit_size[mid] = list(mg.meta_tile(self.coord[n]).size)
        self.thr_file = os.path.join(root, 'threshold-file')
        with open(self.thr_file, 'w') as f:
            f.write('x')
        ns0 = BASE * 10 ** 9 + FILE0 * 5 * 10 ** 8
        os.utime(self.thr_file, ns=(ns0, ns0))
        self.logf = os.path.join(root, 'upstream.log')
        open(self.logf, 'w').close()
        self.log_pos = 0
        _Env.tick = CLOCK0
        _Env.up = True
        _Env.vclass = 2 if backend == 'file-symlink' else 1
        _Env.logf = self.logf
        self.rule = R('none')
        self.nset = 0
        self.tm = self.new_manager(self.rule)
        if backend == 'file-symlink':
            self._preseed_colours(self.tm.cache.cache_dir)

    def _preseed_colours(self, cache_dir, n=400):
        """link_single_color_images: the image files the tile links point to exist already, written long ago (as in a cache
        that has seen these colours before).  The time stamp of a tile is the time stamp of ITS link."""
        from PIL import Image
        d = os.path.join(cache_dir, 'single_color_tiles')
        os.makedirs(d, exist_ok=True)
        old = (BASE - 1000000) * 10 ** 9
        for v in range(1, n + 1):
            col = (v // 256, v % 256, 77)
            p = os.path.join(d, '%02x%02x%02x.png' % col)
            if not os.path.exists(p):
                Image.new('RGB', (TS, TS), col).save(p, 'PNG')
            os.utime(p, ns=(old, old))

    def _mk_cache(self, root):
        return BACKENDS[self.backend][1](root)

    # ---- construction, as mapproxy.config.loader.CacheConfiguration.caches does --------------
    def conf_of(self, rule):
        """refresh_before dictionary as it comes out of the YAML file"""
        k, a = rule['kind'], rule['arg']
        if k == 'none':
            return {}
        if k == 'time':
            d = _FakeDateTime.fromtimestamp(BASE + a)     # (a datetime of the interposed module)
            self.nset += 1
            return {'time': d if self.nset % 2 else d.strftime('%Y-%m-%dT%H:%M:%S')}    # YAML gives a datetime
        if k == 'file':
            return {'mtime': self.thr_file}
        conf = {}
        if a >= 86400:
            conf['days'] = a // 86400
            a = a % 86400
        if a >= 3600:
            conf['hours'] = a // 3600
            a = a % 3600
        if a >= 60:
            conf['minutes'] = a // 60
            a = a % 60
        if a or not conf:
            conf['seconds'] = a
        return conf

    def new_manager(self, rule):
        from mapproxy.cache.tile import TileManager
        from mapproxy.cache.base import TileLocker
        cache = self._mk_cache(self.root)
        opts = _image_opts()
        locker = TileLocker(os.path.join(self.root, 'locks'), 10, cache.lock_cache_id)
        meta = self.path == 'meta'
        mgr = TileManager(self.grid, cache, [RecordingSource(opts, meta)], 'png', locker=locker, image_opts=opts,
                          request_format='png', meta_size=[2, 1] if meta else None, meta_buffer=0 if meta else None,
                          minimize_meta_requests=False, concurrent_tile_creators=1)
        mgr._refresh_before = self.conf_of(rule)          # loader.py: mgr._refresh_before = conf.get('refresh_before', {})
        return mgr

    def close(self):
        try:
            self.tm.cleanup()
        except Exception:
            pass
        shutil.rmtree(self.root, ignore_errors=True)

    # ---- observation ---------------------------------------------------------------------------
    def unit_of_bbox(self, bbox):
        for u, b in self.unit_bbox.items():
            if (u.startswith('m')) != (self.path == 'meta'):
                continue
            if all(abs(x - y) < 1e-6 for x, y in zip(b, bbox)):
                return u
        return '?%s' % (list(bbox),)

    def delta(self):
        """upstream requests since the last call, retries of one failing request collapsed"""
        with open(self.logf) as f:
            f.seek(self.log_pos)
            lines = f.read().splitlines()
            self.log_pos = f.tell()
        out = []
        for ln in lines:
            e = json.loads(ln)
            item = [self.unit_of_bbox(e['bbox']), bool(e['ok'])]
            if item[0] in self.unit_size and e['size'] != self.unit_size[item[0]]:
                item[0] = '?size%s' % e['size']
            if out and not item[1] and out[-1] == item:
                continue
            out.append(item)
        return out

    def cache_obs(self):
        from mapproxy.cache.tile import Tile
        cache = self._mk_cache(self.root)
        obs = {}
        try:
            for n in self.names:
                t = Tile(self.coord[n])
                if not cache.is_cached(t):
                    obs[n] = [-1, 0]
                    continue
                t = Tile(self.coord[n])
                cache.load_tile_metadata(t)
                ts = t.timestamp
                t2 = Tile(self.coord[n])
                cache.load_tile(t2)
                obs[n] = [int(round((ts - BASE) * 2)), version_of(t2.source)]
        finally:
            if hasattr(cache, 'cleanup'):
                cache.cleanup()
        return obs

    # ---- actions ---------------------------------------------------------------------------------
    def do(self, ev):
        """execute one event {'op': ...}; returns the observation dict"""
        from mapproxy.source import SourceError
        op = ev['op']
        res = {}
        if op == 'request':
            try:
                with self.tm.session():
                    tiles = self.tm.load_tile_coords([self.coord[n] for n in ev['tiles']])
                    res['served'] = [version_of(t.source) for t in tiles]
                res['kind'] = 'ok'
            except SourceError:
                res['kind'] = 'error'
                res['served'] = []
        elif op == 'seed':
            self.seed(ev['rule'])
        elif op == 'tick':
            _Env.tick += ev['d']
        elif op == 'touch':
            ns = BASE * 10 ** 9 + _Env.tick * 5 * 10 ** 8
            os.utime(self.thr_file, ns=(ns, ns))
        elif op == 'set':
            # a changed configuration takes effect with a restart: new TileManager on the same cache
            self.tm.cleanup()
            self.rule = ev['rule']
            self.tm = self.new_manager(self.rule)
        elif op == 'remove':
            with self.tm.session():
                self.tm.remove_tile_coords([self.coord[ev['tile']]])
        elif op == 'backdate':
            from mapproxy.cache.tile import Tile
            cache = self._mk_cache(self.root)
            ns = BASE * 10 ** 9 + 5 * 10 ** 8            # tick 1
            os.utime(cache.tile_location(Tile(self.coord[ev['tile']])), ns=(ns, ns), follow_symlinks=False)
        elif op == 'fail':
            _Env.up = False
        elif op == 'recover':
            _Env.up = True
        else:
            raise ValueError(op)
        res['delta'] = self.delta()
        res['cache'] = self.cache_obs()
        res['vc'] = _Env.vclass
        return res

    def seed(self, srule):
        """mapproxy-seed: its own process and TileManager from the same configuration, one task with refresh_before"""
        from mapproxy.seed.config import before_timestamp_from_options
        from mapproxy.seed.seeder import SeedTask, seed_task
        from mapproxy.util.coverage import BBOXCoverage
        self.tm.cleanup()
        mgr = self.new_manager(self.rule)
        # SeedConfiguration.__init__ / seed_tasks()
        refresh_timestamp = before_timestamp_from_options(self.conf_of(srule))
        task = SeedTask(dict(name='seed', cache_name='cache', grid_name='grid'), mgr, [0], refresh_timestamp, False,
                        BBOXCoverage(self.grid.bbox, self.grid.srs))
        old = sys.stderr
        sys.stderr = io.StringIO()
        try:
            seed_task(task, concurrency=1, dry_run=False, skip_geoms_for_last_levels=0, progress_logger=None)
        finally:
            sys.stderr = old
            mgr.cleanup()


class ConfWorld(World):
    """The same world, but every TileManager and seed task is built by the configuration code from dictionaries
    as they come out of mapproxy.yaml / seed.yaml (mapproxy.config.loader.ProxyConfiguration,
    mapproxy.seed.config.SeedingConfiguration); the upstream is a WMS source behind HTTPClient.open."""

    def conf(self, rule):
        ctype = {'file': {'type': 'file', 'directory_layout': 'tc'}, 'file-tms': {'type': 'file', 'directory_layout': 'tms'},
                 'file-arcgis': {'type': 'file', 'directory_layout': 'arcgis'}, 'sqlite': {'type': 'sqlite'},
                 'file-symlink': {'type': 'file', 'directory_layout': 'tc'}}[self.backend]
        cache = {'grids': ['g'], 'sources': ['up'], 'format': 'image/png', 'meta_buffer': 0,
                 'concurrent_tile_creators': 1,            # requests are sequential here (concurrency is C08)
                 'meta_size': [2, 1] if self.path == 'meta' else [1, 1],
                 'cache': dict(ctype, directory=os.path.join(self.root, 'cache'))}
        rb = self.conf_of(rule)
        if rb:
            cache['refresh_before'] = rb
        if self.backend == 'file-symlink':
            cache['link_single_color_images'] = True
        return {
            'globals': {'cache': {'base_dir': os.path.join(self.root, 'cache_data'),
                                  'lock_dir': os.path.join(self.root, 'locks'),
                                  'tile_lock_dir': os.path.join(self.root, 'tile_locks')},
                        'image': {'paletted': False}},
            'grids': {'g': {'srs': 'EPSG:4326', 'bbox': [0, 0, 10 * len(self.names), 10], 'res': [10.0 / TS],
                            'tile_size': [TS, TS], 'origin': 'll'}},
            'sources': {'up': {'type': 'wms', 'req': {'url': 'http://upstream.invalid/service', 'layers': 'x'},
                               'supported_srs': ['EPSG:4326']}},
            'caches': {'c': cache},
            'layers': [{'name': 'l', 'title': 'l', 'sources': ['c']}],
            'services': {'tms': {}},
        }

    def new_manager(self, rule, seed=False):
        from mapproxy.config.loader import ProxyConfiguration
        self.pc = ProxyConfiguration(self.conf(rule), conf_base_dir=self.root, seed=seed, renderd=False)
        grid, extent, mgr = self.pc.caches['c'].caches()[0]
        if tuple(grid.grid_sizes[0]) != (len(self.names), 1) or (mgr.meta_grid is not None) != (self.path == 'meta'):
            raise tlc.MachineryError('configured cache does not have the expected grid / meta grid')
        self.cache_dir = getattr(mgr.cache, 'cache_dir', None)
        return mgr

    def _mk_cache(self, root):
        # for observation: a fresh cache object on the directory the configuration chose
        from mapproxy.cache.file import FileCache
        from mapproxy.cache.mbtiles import MBTilesLevelCache
        if self.backend == 'sqlite':
            return MBTilesLevelCache(self.cache_dir)
        layout = self.backend.split('-')[1] if self.backend in ('file-tms', 'file-arcgis') else 'tc'
        return FileCache(self.cache_dir, 'png', directory_layout=layout)

    def seed(self, srule):
        from mapproxy.seed.config import SeedingConfiguration
        from mapproxy.seed.seeder import seed_task
        self.tm.cleanup()
        self.new_manager(self.rule, seed=True)            # mapproxy-seed loads mapproxy.yaml itself
        sconf = {'seeds': {'s': {'caches': ['c'], 'grids': ['g'], 'levels': [0], 'refresh_before': self.conf_of(srule)}}}
        tasks = SeedingConfiguration(sconf, mapproxy_conf=self.pc).seeds(['s'])
        old = sys.stderr
        sys.stderr = io.StringIO()
        try:
            for task in tasks:
                seed_task(task, concurrency=1, dry_run=False, skip_geoms_for_last_levels=0, progress_logger=None)
                task.tile_manager.cleanup()
        finally:
            sys.stderr = old


class CascadeWorld(ConfWorld):
    """The cache under test has another cache as its source (same grid, same format: tiles are handed over one by one, with
    the time stamp they have in that cache).  The cache behind keeps nothing fresh - it asks the upstream for every tile it
    is asked for - and lives BACK_TICKS in the past: its tiles are older than the moment the cache in front stores them.
    A tile written into the cache in front is as old as its own writing, whatever came along with it."""
    BACK_TICKS = 40

    def conf(self, rule):
        c = ConfWorld.conf(self, rule)
        c['caches']['back'] = {'grids': ['g'], 'sources': ['up'], 'format': 'image/png', 'meta_buffer': 0, 'meta_size': [1, 1],
                               'concurrent_tile_creators': 1,
                               'cache': {'type': 'file', 'directory': os.path.join(self.root, 'cache-behind')}}
        c['caches']['c']['sources'] = ['back']
        return c

    def new_manager(self, rule, seed=False):
        mgr = ConfWorld.new_manager(self, rule, seed=seed)
        back = self.pc.caches['back'].caches()[0][2]
        if not any(getattr(s, 'tile_manager', None) is back for s in mgr.sources):
            raise tlc.MachineryError('the cache in front does not use the tile manager of the cache behind')
        if getattr(back, '_verif_wrapped', False):
            return mgr
        orig = back.load_tile_coords
        world = self

        def load_tile_coords(coords, **kw):
            coords = list(coords)
            back.remove_tile_coords([c for c in coords if c is not None])
            _Env.tick -= world.BACK_TICKS
            try:
                return orig(coords, **kw)
            finally:
                _Env.tick += world.BACK_TICKS
        back.load_tile_coords = load_tile_coords
        back._verif_wrapped = True
        return mgr


def make_world(root, backend, path, ntiles, mode='direct'):
    if mode == 'cascade':
        return CascadeWorld(root, backend, path, ntiles)
    if mode == 'config' and backend != 'mbtiles-ts':
        return ConfWorld(root, backend, path, ntiles)
    return World(root, backend, path, ntiles)


def version_of(source):
    if source is None:
        return 0
    img = source.as_image().convert('RGB')
    px = img.getpixel((TS // 2, TS // 2))
    px2 = img.getpixel((1, TS - 2))
    if px != px2:
        return -1
    return px[0] * 256 + px[1]


def _make_source_class():
    from mapproxy.layer import MapLayer, DefaultMapExtent
    from mapproxy.source import SourceError
    from mapproxy.image import ImageSource
    from mapproxy.compat.image import Image

    class _RecordingSource(MapLayer):
        """Upstream: logs every request (to a file: seed workers are forked processes); answers with an image
        whose colour is the number of successful requests so far, or raises SourceError while it is down."""

        def __init__(self, opts, meta):
            MapLayer.__init__(self, opts)
            self.supports_meta_tiles = meta
            self.extent = DefaultMapExtent()
            self.res_range = None

        def get_map(self, query):
            v = _upstream(query.bbox, query.size)
            if v is None:
                raise SourceError('upstream is down')
            img = Image.new('RGB', query.size, (rep(v) // 256, rep(v) % 256, 77))
            return ImageSource(img, image_opts=self.image_opts)

    return _RecordingSource


_SRC = []


def RecordingSource(opts, meta):
    if not _SRC:
        _SRC.append(_make_source_class())
    return _SRC[0](opts, meta)


# ------------------------------------------------------------------------------------------------
# TLC side
# ------------------------------------------------------------------------------------------------
_ACT = re.compile(r'^(\w+)(?:\((.*)\))?$', re.S)


def parse_action(a):
    m = _ACT.match(a.strip())
    name = m.group(1)
    args = tla.parse_value('<<' + m.group(2) + '>>') if m.group(2) else ()
    return name, args


def event_of(label):
    name, args = parse_action(label)
    if name.startswith('Request'):
        return {'op': 'request', 'tiles': [str(t) for t in args[0]]}
    if name.startswith('Seed'):
        return {'op': 'seed', 'rule': {'kind': str(args[0]['kind']), 'arg': int(args[0]['arg'])}}
    if name == 'Tick':
        return {'op': 'tick', 'd': int(args[0])}
    if name == 'TouchThresholdFile':
        return {'op': 'touch'}
    if name == 'SetThreshold':
        return {'op': 'set', 'rule': {'kind': str(args[0]['kind']), 'arg': int(args[0]['arg'])}}
    if name == 'RemoveTile':
        return {'op': 'remove', 'tile': str(args[0])}
    if name == 'Backdate':
        return {'op': 'backdate', 'tile': str(args[0])}
    if name == 'UpstreamFail':
        return {'op': 'fail'}
    if name == 'UpstreamRecover':
        return {'op': 'recover'}
    raise tlc.MachineryError('unknown action label %r' % label)


def consts_for(names, path, trunc, rules, seedrules, prec, maxclock, backdating=True):
    meta_of = {n: 'm%d' % (i // 2 + 1) for i, n in enumerate(names)}
    return dict(Backdating=bool(backdating), Tiles=set(names), Order=tuple(names), MetaOf=meta_of, Path=path, MaxClock=maxclock, StoreTrunc=bool(trunc),
                Rules=rules_tla(rules), SeedRules=rules_tla(seedrules), ExpirePrecedence=prec)


def expected_of(state, prev_loglen):
    """projection of a TLC state to what the harness observes"""
    cache = {str(t): [int(e['m']), rep(int(e['v']))] for t, e in state['cache'].items()}
    log = state['log'] if state['log'] != () else ()
    delta = [[str(e['u']), bool(e['ok'])] for e in list(log)[prev_loglen:]]
    reply = state['reply']
    return cache, delta, str(reply['kind']), [rep(int(x)) for x in (reply['served'] or ())], len(log)


def thr_ticks(rule, clock, file_m):
    if rule['kind'] == 'time':
        return 2 * rule['arg']
    if rule['kind'] == 'age':
        return 2 * (clock // 2 - rule['arg'])
    if rule['kind'] == 'file':
        return file_m
    return None


class Tally(object):
    """which antecedents of the properties were exercised on the real code (vacuity guard)"""
    KEYS = ['serve-old-refetched', 'serve-new-hit', 'serve-same-second', 'serve-missing', 'fail-stale-served',
            'fail-error', 'seed-old-refetched', 'seed-new-skipped', 'seed-fail', 'rule-time', 'rule-age', 'rule-file']

    def __init__(self):
        self.n = {k: 0 for k in self.KEYS}

    def note(self, ev, before, after_obs):
        """before: dict(cache, rule, clock, fileM, up) in harness terms"""
        op = ev['op']
        if op not in ('request', 'seed'):
            return
        rule = ev['rule'] if op == 'seed' else before['rule']
        thr = thr_ticks(rule, before['clock'], before['fileM'])
        if thr is not None:
            self.n['rule-' + rule['kind']] += 1
        tiles = ev['tiles'] if op == 'request' else list(before['cache'])
        for t in tiles:
            m = before['cache'][t][0]
            cls = 'missing' if m < 0 else 'norule' if thr is None else \
                'old' if m // 2 < thr // 2 else 'new' if m // 2 > thr // 2 else 'same'
            if op == 'request':
                if before['up']:
                    if cls == 'old':
                        self.n['serve-old-refetched'] += 1
                    elif cls == 'new' and not after_obs['delta']:
                        self.n['serve-new-hit'] += 1
                    elif cls == 'same':
                        self.n['serve-same-second'] += 1
                    elif cls == 'missing':
                        self.n['serve-missing'] += 1
                elif cls in ('old', 'same'):
                    self.n['fail-stale-served' if after_obs.get('kind') == 'ok' else 'fail-error'] += 1
            else:
                if not before['up']:
                    if after_obs['delta']:
                        self.n['seed-fail'] += 1
                elif cls == 'old':
                    self.n['seed-old-refetched'] += 1
                elif cls == 'new' and not after_obs['delta']:
                    self.n['seed-new-skipped'] += 1

    def check(self, what):
        zero = [k for k in self.KEYS if self.n[k] == 0]
        if zero:
            raise tlc.MachineryError('%s never exercised: %s' % (what, zero))


def replay_behaviour(world, beh, tally=None):
    """beh: [(label, state)] from TLC, beh[0] the initial state.  Returns None or (index, text, events)."""
    events = []
    loglen = 0
    prev = beh[0][1]
    for i, (label, st) in enumerate(beh[1:]):
        ev = event_of(label)
        exp_cache, exp_delta, exp_kind, exp_served, loglen2 = expected_of(st, loglen)
        try:
            obs = world.do(ev)
        except Exception as ex:
            events.append(ev)
            return i, '%s raised %r' % (label, ex), events
        events.append(dict(ev, **obs))
        bad = []
        if obs['cache'] != exp_cache:
            bad.append('cache (mtime in half seconds, version) is %s, the model says %s' % (obs['cache'], exp_cache))
        if obs['delta'] != exp_delta:
            bad.append('upstream requests %s, the model says %s' % (obs['delta'], exp_delta))
        if ev['op'] == 'request' and (obs['kind'] != exp_kind or obs['served'] != exp_served):
            bad.append('reply %s %s, the model says %s %s' % (obs['kind'], obs['served'], exp_kind, exp_served))
        if tally is not None:
            before = {'cache': {str(t): [int(e['m']), int(e['v'])] for t, e in prev['cache'].items()},
                      'rule': {'kind': str(prev['rule']['kind']), 'arg': int(prev['rule']['arg'])},
                      'clock': int(prev['clock']), 'fileM': int(prev['fileM']), 'up': bool(prev['up'])}
            tally.note(ev, before, obs)
        if bad:
            return i, 'after %s: %s' % (label, '; '.join(bad)), events
        loglen = loglen2
        prev = st
    return None


def classify(ev, text):
    """stable signature of a divergence: which action class, which aspect"""
    aspect = 'exception' if ' raised ' in text else 'cache' if 'cache (mtime' in text else \
        'upstream-log' if 'upstream requests' in text else 'reply'
    return {'op': ev['op'], 'aspect': aspect}


# ------------------------------------------------------------------------------------------------
# the check
# ------------------------------------------------------------------------------------------------
QUICK_RULES = [R('none'), R('time', 2), R('age', 1), R('file')]
QUICK_SEED = [R('time', 2), R('age', 0), R('file')]
FULL_RULES = [R('none'), R('time', 1), R('time', 2), R('age', 0), R('age', 1), R('file')]
FULL_SEED = [R('time', 2), R('time', 3), R('age', 0), R('age', 1), R('file')]


def detect_precedence(ctx):
    """TLC finds the shortest history on which the ORIGINAL expire_timestamp logic (the cache's refresh_before
    silently overrides the threshold of a seed task) violates PropSeedStale; it is executed on the real code."""
    d = ctx.sub('mc-precedence')
    mp, cp = tlc.write_mc(d, 'Expiry', 'MC_Prec', consts_for(['t1', 't2'], 'single', False, QUICK_RULES, QUICK_SEED,
                                                              'serving', 7),
                          properties=['PropSeedStale'], constraint='MCBound', extra_defs='MCBound == TLCGet("level") <= 5')
    r = tlc.run(mp, cp, d, workers=1, coverage=False, timeout=600)      # one worker: breadth first, shortest history
    if r.violated != 'PropSeedStale' or not r.trace:
        raise tlc.MachineryError('expected PropSeedStale to fail for ExpirePrecedence = "serving": %r\n%s' % (r, r.out[-1500:]))
    labels = [a for a, _ in r.trace[1:]]
    verdicts = {}
    for path in ('single', 'meta'):
        # the counterexample of the single path is a history of the meta path too (the expected states differ)
        w = make_world(os.path.join(ctx.sub('prec-world'), path), 'file', path, 2, 'config' if path == 'meta' else 'direct')
        try:
            for lab in labels[:-1]:
                before = w.do(event_of(lab))['cache']
            obs = w.do(event_of(labels[-1]))
            # the last action is the seed task that must refresh the strictly older tiles: the original logic
            # leaves every cached tile as it was
            kept = [t for t in before if before[t][0] >= 0 and obs['cache'][t] == before[t]]
            verdicts[path] = 'serving' if kept else 'task'
            ctx.count(('precedence', path))
        finally:
            w.close()
    ctx.log('seed-task threshold vs. cache refresh_before on %s: the code behaves as %s' % (labels, verdicts))
    if 'serving' in verdicts.values():
        ctx.violation({'kind': 'seed-threshold-overridden', 'where': 'TileManager.expire_timestamp',
                       'cause': 'cache-refresh_before-takes-precedence-over-seed-task-refresh_before'},
                      'a seed task with refresh_before does not re-fetch tiles written before its threshold when the cache '
                      'itself has refresh_before configured (the cache rule replaces the task threshold): history %s leaves '
                      'the old tiles in place without any upstream request' % (labels,),
                      {'history': labels, 'path': 'single', 'backend': 'file', 'ntiles': 2})
        return 'serving'
    return 'task'


def props_for(prec, path='single', trunc=True, backdating=False):
    """PropSeedStale does not hold on the meta path once the tiles of a meta tile are of different age (the seed walker asks
    about the main tile only: listed finding, checked on its own in model_checks)"""
    mixed = path == 'meta' and not trunc and backdating
    return [p for p in PROPS if not (p == 'PropSeedStale' and (prec == 'serving' or mixed))]


MC_DEFS = 'MCBound == steps <= %d\nMCView == <<cache, rule, fileM, up, clock, log, steps>>'


def model_checks(ctx, prec):
    """Exhaustive: every history of <= 6 actions (thorough: meta path 7) for both creation paths.  `steps` is a state
    variable, so the bound is exact with any number of workers; `reply` is an observation and left out of the VIEW.
    A second, shallow run (<= 4 actions, full states) dumps the state graph: it is the vacuity guard (every
    outcome-named action must label an edge) and the source of the class cover replayed on the real code."""
    thorough = ctx.tier == 'thorough'
    rules, seedrules = (FULL_RULES, FULL_SEED) if thorough else (QUICK_RULES, QUICK_SEED)
    results = {}

    def one(name, path, trunc, steps, graph, backdating=True, only=None):
        d = ctx.sub('mc-' + name)
        kw = dict(constraint='MCBound', extra_defs=MC_DEFS % steps)
        if not graph:
            kw['view'] = 'MCView'
        props = [only] if only else ['PropOutcome', 'WrittenTogether'] + props_for(prec, path, trunc, backdating)
        mp, cp = tlc.write_mc(d, 'Expiry', 'MC_Expiry', consts_for(['t1', 't2'], path, trunc, rules if not graph else
                                                                    QUICK_RULES, seedrules if not graph else QUICK_SEED,
                                                                    prec, 9 if thorough else 7, backdating=backdating),
                              invariants=['TypeOK'] + (['UnitUniform'] if trunc or not backdating else []), properties=props, **kw)
        results[name] = tlc.run(mp, cp, d, workers=4 if graph else 8, timeout=3000, coverage=False,
                                dump=os.path.join(d, 'graph') if graph else None)

    jobs = []
    for path in ('single', 'meta'):
        for trunc in ((False, True) if thorough else (False,)):
            nm = '%s%s' % (path, '-trunc' if trunc else '')
            jobs.append((nm, path, trunc, 7 if thorough and path == 'meta' else 6, False))
            jobs.append((nm + '-graph', path, trunc, 4, True))
            if path == 'meta' and not trunc:
                # without time stamps set back every property holds; with them PropSeedStale is checked on its own
                jobs.append((nm + '-uniform', path, trunc, 6, False, False))
                if prec != 'serving':
                    jobs.append((nm + '-seedstale', path, trunc, 5, False, True, 'PropSeedStale'))
    threads = [threading.Thread(target=one, args=j) for j in jobs]
    for k in range(0, len(threads), 2):
        for t in threads[k:k + 2]:
            t.start()
        for t in threads[k:k + 2]:
            t.join()
    covers = {}
    for job in jobs:
        name, path, trunc, steps, graph = job[:5]
        r = results[name]
        ctx.log('Expiry %s (precedence %s, histories <= %d): %r' % (name, prec, steps, r))
        if name.endswith('-seedstale'):
            labels = [a for a, _ in (r.trace or [])[1:]]
            if r.violated != 'PropSeedStale' or not any(a.startswith('Backdate') for a in labels):
                raise tlc.MachineryError('Expiry.tla %s: PropSeedStale is expected to fail through Backdate: %r %s' % (name, r, labels))
            reproduce_counterexample(ctx, r, path, 'file', cause='tiles-of-a-meta-tile-of-different-age-walker-asks-main-tile-only')
            continue
        if r.violated:
            if not graph:
                reproduce_counterexample(ctx, r, path, 'sqlite' if trunc else 'file')
            continue
        if not r.ok:
            raise tlc.MachineryError('Expiry.tla %s: %r\n%s' % (name, r, r.out[-1500:]))
        if graph:
            behs, nedges, taken = class_cover(os.path.join(ctx.sub('mc-' + name), 'graph.dot'))
            # the meta path has no stale fallback: a failed refresh is reported
            expect = [a for a in ACTIONS if not (path == 'meta' and a == 'RequestStaleServed')]
            missing = [a for a in expect if not taken.get(a)]
            if missing:
                raise tlc.MachineryError('Expiry.tla %s: actions never taken: %s' % (name, missing))
            if path == 'meta' and taken.get('RequestStaleServed'):
                raise tlc.MachineryError('Expiry.tla %s: stale fallback on the meta path?' % name)
            covers[(path, trunc)] = behs
            ctx.log('state graph %s: %d edges, %d transition classes' % (name, nedges, len(behs)))
        else:
            ctx.add_tlc('Expiry/' + name, r)
    return covers


def reproduce_counterexample(ctx, r, path, backend, cause=None):
    """a property fails on the model of the code: it counts only if the real code follows the counterexample"""
    w = World(os.path.join(ctx.sub('cex-world'), path), backend, path, 2)
    try:
        res = replay_behaviour(w, r.trace)
    finally:
        w.close()
    labels = [a for a, _ in r.trace[1:]]
    if res is None:
        ctx.violation(dict({'kind': 'model-counterexample', 'property': r.violated, 'path': path}, **({'cause': cause} if cause else {})),
                      'Expiry.tla (%s path) violates %s and the real code follows the counterexample %s' % (
                          path, r.violated, labels), {'history': labels, 'path': path, 'backend': backend, 'ntiles': 2})
    else:
        raise tlc.MachineryError('Expiry.tla violates %s but the code does not follow the counterexample (%s): model '
                                 'and code disagree' % (r.violated, res[1]))


# ---- class cover: one shortest TLC behaviour per class of transition ----------------------------
def _dot_string(line, start):
    """the quoted string that starts at line[start] == '"' (dot escapes), returns (text, index after it)"""
    out = []
    i = start + 1
    n = len(line)
    while i < n:
        c = line[i]
        if c == '\\':
            nx = line[i + 1]
            out.append('\n' if nx == 'n' else nx)
            i += 2
            continue
        if c == '"':
            return ''.join(out), i + 1
        out.append(c)
        i += 1
    raise ValueError('unterminated string in dot file')


_EDGE = re.compile(r'^(-?\d+) -> (-?\d+) \[label=')
_NODE = re.compile(r'^(-?\d+) \[label=')


def parse_dot(path):
    """`-dump dot,actionlabels` -> (states: id -> dict, edges: [(src, label, dst)], initial ids)"""
    states, edges, init = {}, [], []
    with open(path) as f:
        for line in f:
            m = _EDGE.match(line)
            if m:
                label, _ = _dot_string(line, m.end())
                edges.append((m.group(1), label, m.group(2)))
                continue
            m = _NODE.match(line)
            if m and m.group(1) not in states:
                text, end = _dot_string(line, m.end())
                states[m.group(1)] = tla.parse_state(text)
                if line[end:].startswith(',style = filled'):
                    init.append(m.group(1))
    return states, edges, init


def _cls(entry, thr):
    m = int(entry['m'])
    if m < 0:
        return 'missing'
    if thr is None:
        return 'norule'
    rel = m // 2 - thr // 2
    return 'rel%+d%s' % (max(-2, min(2, rel)), 'h' if m % 2 else '')


def transition_class(label, s):
    """what kind of transition this is, seen from the property: action (= outcome), rule kinds, whether the
    threshold has a fraction, and for every tile concerned how its second compares with the threshold second"""
    name, args = parse_action(label)
    rule = {'kind': str(s['rule']['kind']), 'arg': int(s['rule']['arg'])}
    clock, file_m = int(s['clock']), int(s['fileM'])
    thr = thr_ticks(rule, clock, file_m)
    key = [name, bool(s['up'])]
    if name.startswith('Request'):
        key += [rule['kind'], thr is not None and thr % 2, tuple(_cls(s['cache'][t], thr) for t in args[0])]
    elif name.startswith('Seed'):
        sr = {'kind': str(args[0]['kind']), 'arg': int(args[0]['arg'])}
        sthr = thr_ticks(sr, clock, file_m)
        def coarse(e):          # under the cache's own rule: only fresh / stale matters (precedence of the rules)
            c = _cls(e, thr)
            return c if not c.startswith('rel') else 'fresh' if c[3] == '+' and c[4] != '0' else 'stale'
        key += [rule['kind'], sr['kind'], sthr % 2,
                tuple(sorted((_cls(e, sthr), coarse(e)) for e in s['cache'].values()))]
    elif name == 'Tick':
        key += [int(args[0]), clock % 2]
    elif name == 'SetThreshold':
        key += [rule['kind'], str(args[0]['kind'])]
    elif name == 'RemoveTile':
        key += [rule['kind']]
    return tuple(key)


def class_cover(graph_file):
    """behaviours [(label, state)] such that every transition class of the dumped state graph occurs in one"""
    states, edges, init = parse_dot(graph_file)
    if len(init) != 1 or not edges:
        raise tlc.MachineryError('state graph dump: %d initial states, %d edges' % (len(init), len(edges)))
    succ = {}
    for a, lab, b in edges:
        succ.setdefault(a, []).append((lab, b))
    parent = {init[0]: None}
    order = [init[0]]
    for a in order:                                   # breadth first: shortest path to every state
        for lab, b in sorted(succ.get(a, [])):
            if b not in parent:
                parent[b] = (a, lab)
                order.append(b)
    chosen = {}
    taken = {}
    for a in order:
        for lab, b in sorted(succ.get(a, [])):
            nm = parse_action(lab)[0]
            taken[nm] = taken.get(nm, 0) + 1
            k = transition_class(lab, states[a])
            if k not in chosen:
                chosen[k] = (a, lab, b)
    behs = []
    for k, (a, lab, b) in sorted(chosen.items(), key=lambda kv: repr(kv[0])):
        path = [(lab, states[b])]
        x = a
        while parent[x] is not None:
            px, plab = parent[x]
            path.append((plab, states[x]))
            x = px
        path.append(('Init', states[x]))
        behs.append(path[::-1])
    return behs, len(edges), taken


def simulate(ctx, name, names, path, trunc, rules, seedrules, prec, num, depth, seed, maxclock):
    d = ctx.sub('sim-' + name)
    mp, cp = tlc.write_mc(d, 'Expiry', 'MC_Sim', consts_for(names, path, trunc, rules, seedrules, prec, maxclock))
    prefix = os.path.join(d, 'beh')
    r = tlc.run(mp, cp, d, workers=1, simulate='file=%s,num=%d' % (prefix, num), depth=depth, seed=seed, coverage=False,
                timeout=1200)
    behs = [b for f, b in tlc.sim_traces(prefix) if len(b) > 1]
    if not behs:
        raise tlc.MachineryError('no Expiry behaviours from TLC: ' + r.out[-1500:])
    return behs


def spec_to_code(ctx, prec, tally, covers):
    thorough = ctx.tier == 'thorough'
    backends = ['file', 'sqlite', 'mbtiles-ts', 'file-tms', 'file-arcgis', 'file-symlink'] if thorough else ['file', 'sqlite']
    num = 40 if thorough else 10
    depth = 24 if thorough else 16
    nrep = [0]

    def replay_all(behs, backend, path, ntiles, what):
        name = '%s-%s' % (backend, path)
        for k, beh in enumerate(behs):
            # thorough: every behaviour on directly constructed objects and on configured ones; quick: alternating
            modes = ('direct', 'config') if thorough else (('direct', 'config')[k % 2],)
            if what == 'simulation' and path == 'single' and backend in ('sqlite', 'file') and (thorough or k % 2 == 0):
                modes = modes + ('cascade',)       # the cache has another cache as its source
            for mode in modes:
                if mode == 'config' and backend == 'mbtiles-ts':
                    continue
                w = make_world(os.path.join(ctx.sub('world'), name), backend, path, ntiles, mode)
                try:
                    res = replay_behaviour(w, beh, tally)
                finally:
                    w.close()
                nrep[0] += 1
                ctx.cov['replayed_behaviours'] += 1
                ctx.cov['replayed_steps'] += len(beh) - 1
                ctx.count(('replay', name, mode, tuple(a for a, _ in beh[1:])))
                if res is not None:
                    i, text, events = res
                    ctx.violation(dict(classify(events[-1], text), kind='replay', path=path),
                                  '%s/%s path (%s, %s): %s' % (backend, path, what, mode, text),
                                  {'backend': backend, 'path': path, 'ntiles': ntiles, 'precedence': prec, 'mode': mode,
                                   'history': [a for a, _ in beh[1:i + 2]], 'events': events})

    # (1) class cover of the exhaustive small model: one shortest behaviour per class of transition
    for (path, trunc), behs in sorted(covers.items()):
        for backend in backends:
            if BACKENDS[backend][0] == trunc and (thorough or backend == 'file'):
                replay_all(behs, backend, path, 2, 'class cover')
    ctx.log('replayed %d class-cover behaviours on the real code' % nrep[0])
    # (2) random walks of a larger model
    for bi, backend in enumerate(backends):
        trunc = BACKENDS[backend][0]
        for path in ('single', 'meta'):
            ntiles = 3
            names = ['t%d' % (i + 1) for i in range(ntiles)]
            behs = simulate(ctx, '%s-%s' % (backend, path), names, path, trunc, FULL_RULES, FULL_SEED, prec, num, depth,
                            ctx.seed * 100 + 7 * bi + (1 if path == 'meta' else 0) + 1, 11)
            replay_all(behs, backend, path, ntiles, 'simulation')
            if bi == 0 and path == 'single':
                ctx.sample({'kind': 'TLC behaviour of Expiry replayed on the real TileManager (%s/%s)' % (backend, path),
                            'actions': [a for a, _ in behs[0][1:10]]})
    ctx.log('replayed %d TLC behaviours on the real code' % nrep[0])


# ---- code -> spec ----------------------------------------------------------------------------
def unit_script(names):
    """relative rules written with several units at once (hours + minutes + seconds ...): tiles whose age lies between the
    largest unit alone and the full sum are served from the cache, older ones are fetched again"""
    t1, t2, t3 = names[0], names[1], names[2]
    return [
        {'op': 'set', 'rule': R('age', 90)}, {'op': 'request', 'tiles': [t1]}, {'op': 'tick', 'd': 150},
        {'op': 'request', 'tiles': [t1]}, {'op': 'tick', 'd': 40}, {'op': 'request', 'tiles': [t1]},
        {'op': 'set', 'rule': R('age', 3690)}, {'op': 'request', 'tiles': [t2]}, {'op': 'tick', 'd': 7300},
        {'op': 'request', 'tiles': [t2, t1]}, {'op': 'tick', 'd': 100}, {'op': 'request', 'tiles': [t2]},
        {'op': 'set', 'rule': R('none')}, {'op': 'request', 'tiles': [t3]}, {'op': 'tick', 'd': 2 * 86400 + 7300},
        {'op': 'seed', 'rule': R('age', 86400 + 3600 + 60 + 30)}, {'op': 'tick', 'd': 300},
        {'op': 'seed', 'rule': R('age', 86400 + 3600 + 60 + 30)}, {'op': 'tick', 'd': 3},
        {'op': 'set', 'rule': R('age', 86400 + 3600 + 60 + 30)}, {'op': 'request', 'tiles': [t3, t2]},
    ]


def mixed_age_script(names):
    """tiles of one meta tile of different age (single time stamps set back): a request for the old one fetches, whatever
    the age of the main tile of its meta tile; a request for the new one does not"""
    t1, t2, t3, t4 = names[:4]
    return [
        {'op': 'request', 'tiles': [t1, t2]}, {'op': 'tick', 'd': 4}, {'op': 'set', 'rule': R('time', 0)},
        {'op': 'backdate', 'tile': t2}, {'op': 'request', 'tiles': [t2]}, {'op': 'tick', 'd': 3},
        {'op': 'backdate', 'tile': t1}, {'op': 'request', 'tiles': [t2]}, {'op': 'request', 'tiles': [t1]},
        {'op': 'tick', 'd': 2}, {'op': 'request', 'tiles': [t3, t4]}, {'op': 'tick', 'd': 2}, {'op': 'backdate', 'tile': t4},
        {'op': 'request', 'tiles': [t3, t4]}, {'op': 'tick', 'd': 2}, {'op': 'backdate', 'tile': t4}, {'op': 'request', 'tiles': [t4, t3]},
    ]


def random_history(rng, world, nops, tally, script=None):
    """drive the real code at random (or along a script), one event per spec action with its observation"""
    events = []
    names = world.names
    clock, file_m, up = CLOCK0, FILE0, True
    rule = R('none')
    cache = {n: [-1, 0] for n in names}
    err = None
    ages = [0, 1, 1, 2, 3, 60, 61, 90, 3600, 3690]
    for i in range(len(script) if script is not None else nops):
        k = rng.random() if script is None else 2.0
        if script is not None:
            ev = dict(script[i])
        elif k < 0.34:
            ev = {'op': 'request', 'tiles': rng.sample(names, rng.randint(1, min(3, len(names))))}
        elif k < 0.52:
            ev = {'op': 'tick', 'd': rng.choice([1, 1, 2, 2, 3, 4, 5, 120, 121, 150, 7200, 7300])}
        elif k < 0.66 or rule['kind'] == 'none' and k < 0.72:
            kind = rng.choice(['time', 'age', 'age', 'file', 'none'])
            arg = 0
            if kind == 'time':
                arg = max(0, clock // 2 + rng.choice([-2, -1, -1, 0, 0, 1]))
            elif kind == 'age':
                arg = rng.choice(ages)
            ev = {'op': 'set', 'rule': R(kind, arg)}
            if ev['rule'] == rule:
                ev = {'op': 'touch'}
        elif k < 0.74:
            ev = {'op': 'touch'}
        elif k < 0.78 and any(cache[n][0] >= 0 for n in names):
            ev = {'op': 'remove', 'tile': rng.choice([n for n in names if cache[n][0] >= 0])}
        elif k < 0.81 and not world.trunc and any(cache[n][0] > 1 for n in names):
            ev = {'op': 'backdate', 'tile': rng.choice([n for n in names if cache[n][0] > 1])}
        elif k < 0.85:
            ev = {'op': 'recover' if not up else 'fail'}
        else:
            kind = rng.choice(['time', 'age', 'file'])
            arg = 0
            if kind == 'time':
                arg = max(0, clock // 2 + rng.choice([-1, 0, 0, 1]))
            elif kind == 'age':
                arg = rng.choice(ages[:5])
            ev = {'op': 'seed', 'rule': R(kind, arg)}
        before = {'cache': cache, 'rule': rule, 'clock': clock, 'fileM': file_m, 'up': up}
        try:
            obs = world.do(ev)
        except Exception as ex:
            err = (i, '%s raised %r' % (ev, ex))
            events.append(ev)
            break
        tally.note(ev, before, obs)
        events.append(dict(ev, **obs))
        cache = obs['cache']
        if ev['op'] == 'tick':
            clock += ev['d']
        elif ev['op'] == 'touch':
            file_m = clock
        elif ev['op'] == 'set':
            rule = ev['rule']
        elif ev['op'] in ('fail', 'recover'):
            up = ev['op'] == 'recover'
    return events, err


def validate_traces(ctx, name, traces, names, path, trunc, prec):
    d = ctx.sub('trace-' + name)
    tf = os.path.join(d, 'batch.json')
    with open(tf, 'w') as f:
        json.dump(traces, f)
    mp, cp = tlc.write_mc(d, 'Trace_Expiry', 'MC_Trace', consts_for(names, path, trunc, [], [], prec, 10 ** 8),
                          spec='TraceSpec', properties=props_for(prec, path, trunc, True), post='TraceAccepted')
    r = tlc.run(mp, cp, d, workers=1, coverage=False, env={'TRACE_FILE': tf}, timeout=3000)
    if r.violated and r.violated.startswith('Prop') and r.trace:
        last = r.trace[-1][1]
        return r, [], (int(last['tid']) - 1, int(last['l']) - 1, r.violated)
    pr = tlc.find_prints(r.out, 'matched')
    if not pr:
        raise tlc.MachineryError('trace validation: no verdict from TLC\n' + r.out[-2000:])
    mv = pr[-1][1]
    matched = list(mv) if isinstance(mv, tuple) else [mv[k] for k in sorted(mv)]
    rejected = [(i, matched[i]) for i in range(len(traces)) if matched[i] < len(traces[i])]
    if not rejected and not r.ok:
        raise tlc.MachineryError('trace validation failed without a rejected trace: %r\n%s' % (r, r.out[-1500:]))
    return r, rejected, None


def code_to_spec(ctx, prec, tally):
    thorough = ctx.tier == 'thorough'
    backends = ['file', 'sqlite', 'mbtiles-ts', 'file-tms', 'file-symlink'] if thorough else ['file', 'sqlite', 'file-symlink']
    nops = 90 if thorough else 45
    reps = 6 if thorough else 3
    total = 0
    for backend in backends:
        trunc = BACKENDS[backend][0]
        for path in ('single', 'meta'):
            ntiles = 4
            names = ['t%d' % (i + 1) for i in range(ntiles)]
            name = '%s-%s' % (backend, path)
            traces = []
            for k in range(reps):
                mode = ('direct', 'config')[k % 2]
                w = make_world(os.path.join(ctx.sub('world'), 'rnd-' + name), backend, path, ntiles, mode)
                try:
                    ev, err = random_history(ctx.rng, w, nops, tally)
                finally:
                    w.close()
                ctx.count(('hist', name, k, len(ev), json.dumps(ev[:6], sort_keys=True)))
                if err:
                    ctx.violation({'kind': 'exception', 'op': ev[-1]['op'], 'path': path},
                                  '%s/%s path (%s): %s' % (backend, path, mode, err[1]),
                                  {'backend': backend, 'path': path, 'ntiles': ntiles, 'mode': mode, 'events': ev})
                    ev = ev[:-1]
                if ev:
                    traces.append(ev)
            # a scripted history: relative rules made of several units
            w = make_world(os.path.join(ctx.sub('world'), 'units-' + name), backend, path, ntiles, 'config')
            try:
                ev, err = random_history(ctx.rng, w, 0, tally, script=unit_script(names))
            finally:
                w.close()
            if err:
                ctx.violation({'kind': 'exception', 'op': ev[-1]['op'], 'path': path}, '%s/%s path (units script): %s' % (backend, path, err[1]),
                              {'backend': backend, 'path': path, 'ntiles': ntiles, 'mode': 'config', 'events': ev})
                ev = ev[:-1]
            if ev:
                traces.append(ev)
            if not trunc:
                # a scripted history: tiles of a meta tile of different age
                w = make_world(os.path.join(ctx.sub('world'), 'mixed-' + name), backend, path, ntiles, 'direct')
                try:
                    ev, err = random_history(ctx.rng, w, 0, tally, script=mixed_age_script(names))
                finally:
                    w.close()
                if err:
                    ctx.violation({'kind': 'exception', 'op': ev[-1]['op'], 'path': path}, '%s/%s path (mixed age script): %s' % (backend, path, err[1]),
                                  {'backend': backend, 'path': path, 'ntiles': ntiles, 'mode': 'direct', 'events': ev})
                    ev = ev[:-1]
                if ev:
                    traces.append(ev)
            if not traces:
                continue
            r, rejected, propfail = validate_traces(ctx, name, traces, names, path, trunc, prec)
            total += len(traces)
            ctx.cov['traces_validated_against_impl'] += len(traces)
            ctx.cov['states'] += r.distinct
            ctx.cov['transitions'] += r.generated
            if backend == 'file' and path == 'meta':
                ctx.sample({'kind': 'history recorded from the real TileManager (%s), validated by Trace_Expiry' % name,
                            'events': traces[0][:6]})
            if propfail:
                ti, li, prop = propfail
                e = traces[ti][li]
                ctx.violation({'kind': 'trace-property', 'property': prop, 'op': e['op'], 'path': path},
                              '%s/%s path: recorded history violates %s at event %d: %s' % (backend, path, prop, li, e),
                              {'backend': backend, 'path': path, 'ntiles': ntiles, 'precedence': prec,
                               'events': traces[ti][:li + 1]})
            for ti, upto in rejected:
                e = traces[ti][upto]
                ctx.violation({'kind': 'trace-rejected', 'op': e['op'], 'path': path},
                              '%s/%s path: recorded history is not a behaviour of Expiry.tla at event %d: %s' % (
                                  backend, path, upto, e),
                              {'backend': backend, 'path': path, 'ntiles': ntiles, 'precedence': prec,
                               'events': traces[ti][:upto + 1]})
    ctx.log('validated %d recorded histories' % total)


def dst_case(ctx):
    """The hour that the clocks of the server repeat when daylight saving time ends (a zone given as a POSIX TZ string, no
    time zone database needed), on every backend with time stamps, for a server that has been running through the summer
    (the C library resolves a local time of the repeated hour towards the offset of its last conversion: the harness
    converts a summer time first, as the server did all day).  Two histories under `refresh_before: 10 minutes` (a relative
    rule: a wall-clock time in the configuration would itself be ambiguous in that hour), one in each pass of the hour:
        a tile is written at 02:30; twenty minutes later it is requested again - it is older than the threshold and
        has to be fetched; the tile written then is served from the cache by the next request."""
    import time as _t
    from engine import zone as Z
    first_0230 = 1572136200                       # 2019-10-27T00:30:00Z = 02:30 CEST; 02:30 CET is an hour later
    with Z.zone(Z.DST):
        lt = _t.localtime(first_0230)
        if (lt.tm_hour, lt.tm_min, lt.tm_isdst) != (2, 30, 1) or _t.localtime(first_0230 + 3600).tm_isdst != 0:
            raise tlc.MachineryError('the C library does not know the zone %s' % Z.DST)
        for backend in sorted(BACKENDS):
            for pas, start in (('first', first_0230), ('second', first_0230 + 3600)):
                _t.mktime(_t.localtime(first_0230 - 6 * 3600))          # the server has been converting summer times
                w = make_world(os.path.join(ctx.sub('world'), 'dst-%s-%s' % (backend, pas)), backend, 'single', 2)
                try:
                    t0 = 2 * (start - BASE)                              # (ticks before BASE: the model is not involved here)
                    w.do({'op': 'tick', 'd': t0 - _Env.tick})
                    o1 = w.do({'op': 'request', 'tiles': ['t1']})
                    w.do({'op': 'tick', 'd': 2400})
                    w.do({'op': 'set', 'rule': R('age', 600)})
                    o2 = w.do({'op': 'request', 'tiles': ['t1']})
                    o3 = w.do({'op': 'request', 'tiles': ['t1']})
                finally:
                    w.close()
                ctx.count(('dst', backend, pas))
                if len(o1['delta']) != 1:
                    raise tlc.MachineryError('dst case: the first request made %d upstream requests' % len(o1['delta']))
                when = '02:30 %s (%s pass of the hour, 2019-10-27T%sZ)' % (
                    'summer time' if pas == 'first' else 'winter time', pas, '00:30:00' if pas == 'first' else '01:30:00')
                if not o2['delta']:
                    ctx.violation({'kind': 'dst-repeated-hour', 'backend': backend, 'pass': pas, 'what': 'stale-tile-served'},
                                  '%s cache, server zone %s: a tile written at %s is served from the cache twenty minutes later although '
                                  'refresh_before is ten minutes: no upstream request; the cache reports the time stamp %s for it (ticks of '
                                  'half a second after the write: %d)' % (backend, Z.DST, when, o2['cache']['t1'], o2['cache']['t1'][0] - t0),
                                  {'case': {'kind': 'dst', 'backend': backend, 'pass': pas}})
                elif o3['delta']:
                    ctx.violation({'kind': 'dst-repeated-hour', 'backend': backend, 'pass': pas, 'what': 'fresh-tile-fetched-again'},
                                  '%s cache, server zone %s: the tile fetched twenty minutes after %s (refresh_before: ten minutes) is '
                                  'fetched again by the next request; the cache reports the time stamp %s for it (ticks of half a second '
                                  'after the write: %d)' % (backend, Z.DST, when, o3['cache']['t1'], o3['cache']['t1'][0] - t0 - 2400),
                                  {'case': {'kind': 'dst', 'backend': backend, 'pass': pas}})


def run(ctx):
    tlc.sany(SPEC)
    install()
    try:
        prec = detect_precedence(ctx)
        covers = model_checks(ctx, prec)
        tally = Tally()
        # the zone of the server is part of its environment (the sandbox runs in UTC, where local time and UTC cannot be
        # told apart): behaviours are replayed five hours west of Greenwich, histories are recorded nine hours east of it
        with zone.zone(zone.WEST):
            spec_to_code(ctx, prec, tally, covers)
        tally.check('replayed behaviours:')
        tally2 = Tally()
        with zone.zone(zone.EAST):
            code_to_spec(ctx, prec, tally2)
        tally2.check('recorded histories:')
        ctx.log('antecedents exercised on the real code: %s / %s' % (tally.n, tally2.n))
        dst_case(ctx)
    finally:
        uninstall()
    ctx.assumptions += [
        'one-second granularity: a tile written in the same second as the threshold may be treated either way (the '
        'code treats it as stale); strictly earlier seconds must be re-fetched, strictly later seconds must be served',
        'time is virtual: time.time/datetime.now are interposed in mapproxy.util.times, mapproxy.cache.base/mbtiles, '
        'mapproxy.seed.util and new cache files are stamped with the virtual clock (os.utime after write_atomic); '
        'the clock does not advance inside one request or seed task',
        'a changed refresh_before takes effect through a new TileManager on the same cache (restart); a seed task runs '
        'in its own TileManager built from the same cache configuration, with one worker; retries of one failing '
        'upstream request by the seed worker are counted as one request',
        'requests are sequential (concurrency is C08); tiles of one meta tile are written in the same instant',
        'file caches with hard-linked single-colour tiles share one mtime per colour (documented in '
        'doc/configuration.rst) and are not covered; backends without per-tile timestamps (mbtiles without '
        'timestamps, geopackage, compact) treat every tile as expired by design and are not covered',
    ]
    return ctx.finish('model_checking',
                      'TLC: Expiry.tla exhaustively for all histories of <= 6 actions over 2 tiles (both creation paths); '
                      'distinct = distinct (backend, path, action sequence) replays of TLC behaviours on the real '
                      'TileManager/seed_task plus distinct recorded histories validated by Trace_Expiry')


def replay(ctx, data):
    """Re-execute one stored case on the current tree: the history (TLC action labels or recorded events) is run
    on the real code again, the new recording is validated by TLC against Trace_Expiry with the properties."""
    case = data.get('case') or {}
    if 'history' in case:
        ops = [event_of(lab) for lab in case['history']]
    elif 'events' in case:
        ops = [{k: e[k] for k in ('op', 'tiles', 'rule', 'd', 'tile') if k in e} for e in case['events']]
    else:
        print('nothing to replay')
        shutil.rmtree(ctx.workdir, ignore_errors=True)
        return 0
    backend, path, ntiles = case.get('backend', 'file'), case.get('path', 'single'), case.get('ntiles', 2)
    prec = case.get('precedence', 'task')
    install()
    try:
        w = make_world(os.path.join(ctx.sub('world'), 'replay'), backend, path, ntiles, case.get('mode', 'direct'))
        events = []
        try:
            for ev in ops:
                try:
                    obs = w.do(ev)
                except Exception as ex:
                    print('%s raised %r' % (ev, ex))
                    return 1
                print(ev, '->', {k: obs[k] for k in sorted(obs)})
                events.append(dict(ev, **obs))
        finally:
            w.close()
        r, rejected, propfail = validate_traces(ctx, 'replay', [events], ['t%d' % (i + 1) for i in range(ntiles)], path,
                                                BACKENDS[backend][0], prec)
        if propfail:
            print('recorded history violates %s at event %d (Expiry.tla, precedence %s)' % (propfail[2], propfail[1], prec))
        elif rejected:
            print('recorded history is not a behaviour of Expiry.tla (precedence %s) at event %d' % (prec, rejected[0][1]))
        else:
            print('recorded history accepted by Trace_Expiry (precedence %s), all properties hold' % prec)
        return 1 if rejected or propfail else 0
    finally:
        uninstall()
        shutil.rmtree(ctx.workdir, ignore_errors=True)
